(* Props/C01.v -- property theorems for C01 only. *)
From LV Require Import Base Toml FS LayerEnv LayerShared LayerEnvFS SpecDocs LayerStore LayerStoreSpec LayerStoreFacts.
From LV.Checks Require Import C01Hold C01Agree.
From LVGen Require Import GenLayerShared.
From LVGen Require GenLayerSharedImp.
From LV Require LayerSboms LayerSbomsFacts LayerSharedFacts LayerSharedGone LayerSharedTotal WriteLayerFacts ReplaceMetaFacts RecreateFacts WriteReadFacts Determinism.
From LV Require FSInv FSFacts.
From Coq Require Import String.
Open Scope string_scope.
Open Scope N_scope.
Open Scope list_scope.

Theorem c01_tables : delete_layer_removes_sboms = true /\ sbom_suffixes = spec_sbom_suffixes.
Proof. split; reflexivity. Qed.
Print Assumptions c01_tables.

(* the reported state and the callback log are exactly what the decisions determine, from every
   state of the layers directory *)
Theorem c01_result_exact :
  forall q n st st' calls r, inv_valid q = true -> do_request delete_layer_removes_sboms q n st = (st', calls, r) ->
    (r, calls) = spec_request q (classify_pre (req_mty q) (lget n st)).
Proof. exact (request_result delete_layer_removes_sboms). Qed.
Print Assumptions c01_result_exact.

(* other layers are untouched, whatever the outcome *)
Theorem c01_frame :
  forall q n st st' calls r, do_request delete_layer_removes_sboms q n st = (st', calls, r) ->
    forall n', n' <> n -> lget n' st' = lget n' st.
Proof. exact (request_frame delete_layer_removes_sboms). Qed.
Print Assumptions c01_frame.

(* the layer after a successful request: directory present, content metadata = requested types +
   kept metadata (restored) or nothing (empty) *)
Theorem c01_post :
  forall q n st st' calls s, inv_valid q = true -> do_request delete_layer_removes_sboms q n st = (st', calls, Ok s) ->
    lget n st' = exp_post delete_layer_removes_sboms (req_types q) (req_mty q) (req_inv q) (lget n st) s.
Proof. exact (request_post delete_layer_removes_sboms). Qed.
Print Assumptions c01_post.

Theorem c01_types_declared :
  forall q n st st' calls s, inv_valid q = true -> do_request delete_layer_removes_sboms q n st = (st', calls, Ok s) ->
    exists d x, l_dir (lget n st') = Some d /\
                match l_toml (lget n st') with Some c => classify_content c = CLcm (Some (req_types q)) x | None => False end.
Proof.
  intros q n st st' calls s Hv H. rewrite (request_post _ q n st st' calls s Hv H).
  pose proof (request_result _ q n st st' calls (Ok s) Hv H) as R.
  destruct s as [c| |c|c]; cbn [exp_post l_dir l_toml].
  - (* restored: the directory existed *)
    unfold classify_pre in R. destruct (l_dir (lget n st)) as [d|] eqn:Ed.
    + exists d. eexists. split; [reflexivity|]. apply classify_render.
    + exfalso. destruct q; cbn in R; discriminate.
  - eexists; eexists; split; [reflexivity|apply classify_render].
  - eexists; eexists; split; [reflexivity|apply classify_render].
  - eexists; eexists; split; [reflexivity|apply classify_render].
Qed.
Print Assumptions c01_types_declared.

(* histories: every state reachable from an empty layers directory by requests, LayerRef writes,
   tampering with <layer>.toml and lifecycle restores *)
Theorem c01_empty_is_clean :
  forall sfx order wtab ops q n st' calls s, inv_valid q = true ->
    do_request true q n (fold_left (step sfx order wtab) ops []) = (st', calls, Ok s) -> is_restored s = false ->
    lget n st' = mkLay (Some fresh_dir) (Some (Doc (gen_render (Some (req_types q), None)))) [].
Proof. exact empty_is_clean. Qed.
Print Assumptions c01_empty_is_clean.

Theorem c01_restored_is_intact :
  forall sfx order wtab ops q n st' calls c, inv_valid q = true ->
    do_request true q n (fold_left (step sfx order wtab) ops []) = (st', calls, Ok (SRestored c)) ->
    let l := lget n (fold_left (step sfx order wtab) ops []) in
    lget n st' = mkLay (l_dir l) (Some (Doc (gen_render (Some (req_types q), kept_of (req_mty q) (req_inv q) l)))) (l_sboms l).
Proof. exact restored_is_intact. Qed.
Print Assumptions c01_restored_is_intact.

Theorem c01_keep_after_restore :
  forall st n d ty x sb l bd m inv c,
    lget n st = mkLay (Some d) (Some (Doc (gen_render (Some ty, x)))) sb -> t_cache ty = true -> md_ok m x = true ->
    let '(st', calls, r) := do_request true (QCached l bd m inv (RKeep c)) n (restore st) in
    r = Ok (SRestored c) /\ calls = [CallRestored x] /\
    lget n st' = mkLay (Some d) (Some (Doc (gen_render (Some (mkT l bd true), x)))) sb.
Proof. exact keep_after_restore. Qed.
Print Assumptions c01_keep_after_restore.

Theorem c01_uncached_does_not_survive :
  forall st n ty x d sb, lget n st = mkLay (Some d) (Some (Doc (gen_render (Some ty, x)))) sb -> t_cache ty = false ->
    l_dir (lget n (restore st)) = None /\ l_sboms (lget n (restore st)) = [].
Proof. exact uncached_does_not_survive. Qed.
Print Assumptions c01_uncached_does_not_survive.

Theorem c01_uncached_never_restored :
  forall rm l bd n st st' calls s, do_request rm (QUncached l bd) n st = (st', calls, Ok s) -> is_restored s = false.
Proof. exact uncached_never_restored. Qed.
Print Assumptions c01_uncached_never_restored.

(* F3: without removing the SBOM files on delete, a layer reported as empty keeps the previous
   build's SBOM *)
Theorem c01_legacy_delete_refuted :
  let st := [(b "a", mkLay (Some fresh_dir) (Some (Doc (gen_render (None, None)))) [(b "cdx.json", [1; 2])])] in
  let '(st', _, r) := do_request false (QCached true false MG (IDelete 0) (RDelete 7)) (b "a") st in
  r = Ok (SEmptyRestored 7) /\ l_sboms (lget (b "a") st') = [(b "cdx.json", [1; 2])].
Proof. vm_compute. split; reflexivity. Qed.
Print Assumptions c01_legacy_delete_refuted.

(* non-vacuity: a two-build history ending in a restored layer *)
Example c01_nonvacuous :
  let ops := [OReq (b "a") (QCached true true MV (IDelete 1) (RKeep 2)) [WMeta (Some [(k_version, TStr [49])]); WSboms [(0%nat, [7])]];
              ORestore] in
  let st := fold_left (step spec_sbom_suffixes spec_beh_order spec_writer_table) ops [] in
  let '(_, calls, r) := do_request true (QCached false true MV (IDelete 1) (RKeep 5)) (b "a") st in
  r = Ok (SRestored 5) /\ calls = [CallRestored (Some [(k_version, TStr [49])])] /\ l_sboms (lget (b "a") st) = [(b "cdx.json", [7])].
Proof. vm_compute. repeat split. Qed.

(* ---- shared::replace_layer_sboms (behind LayerRef::write_sboms and the trait API's write_layer),
   at the level of the file system.  The body is regenerated statement by statement from
   libcnb/src/layer/shared.rs on every run (imp.rs, result monad -> GenLayerSharedImp.v) and IS the
   model: *)
Theorem c01_replace_sboms_regenerated :
  forall layers n sboms s,
    LVGen.GenLayerSharedImp.gen_replace_layer_sboms layers n sboms s =
    LV.LayerSboms.replace_layer_sboms
      (map LV.LayerSbomsFacts.sbom_suffix_of LVGen.GenLayerSharedImp.SBOM_FORMATS) layers n
      (map (fun fd => (LV.LayerSbomsFacts.sbom_suffix_of (fst fd), snd fd)) sboms) s.
Proof. exact LV.LayerSbomsFacts.replace_sboms_regenerated. Qed.
Print Assumptions c01_replace_sboms_regenerated.

(* whatever the outcome (missing layer, a failing unlink or write half way), for every file system in
   which the layers directory is reached through real directories and none of the layer's SBOM
   entries is a symbolic link: every path other than the layer's SBOM paths keeps its entry -- other
   layers, their TOML and SBOM files and the layer's own directory are untouched *)
Theorem c01_replace_sboms_frame :
  forall suffixes layers n sboms,
    (forall sx, In sx (suffixes ++ map fst sboms) -> LV.LayerSharedFacts.valid_path (LV.LayerSboms.sbom_path layers n sx)) ->
    forall s s' r,
      LV.LayerSbomsFacts.inv layers n (suffixes ++ map fst sboms) s ->
      LV.LayerSboms.replace_layer_sboms suffixes layers n sboms s = (s', r) ->
      LV.LayerSbomsFacts.only_sboms layers n (suffixes ++ map fst sboms) s s'.
Proof. exact LV.LayerSbomsFacts.replace_sboms_frame. Qed.
Print Assumptions c01_replace_sboms_frame.

(* a reported success leaves exactly the SBOM files handed over -- the last one of each format, with
   that content -- and no SBOM file of any other format: nothing of an earlier build survives *)
Theorem c01_replace_sboms_exact :
  forall suffixes layers n sboms,
    (forall sx, In sx (suffixes ++ map fst sboms) -> LV.LayerSharedFacts.valid_path (LV.LayerSboms.sbom_path layers n sx)) ->
    forall s s',
      LV.LayerSbomsFacts.inv layers n (suffixes ++ map fst sboms) s ->
      LV.LayerSboms.replace_layer_sboms suffixes layers n sboms s = (s', Ok tt) ->
      forall sx, In sx (suffixes ++ map fst sboms) ->
        match LV.LayerSboms.last_data sx sboms with
        | Some d => exists m, pget (LV.LayerSboms.sbom_path layers n sx) s' = Some (File m (Raw d))
        | None => pget (LV.LayerSboms.sbom_path layers n sx) s' = None
        end.
Proof. exact LV.LayerSbomsFacts.replace_sboms_exact. Qed.
Print Assumptions c01_replace_sboms_exact.

(* ---- shared::write_layer (what creates a layer after delete_layer, and rewrites the document of a
   kept one), regenerated statement by statement from the source (GenLayerSharedImp.gen_write_layer; the
   TOML encoding of the content metadata is a parameter).  In a layers directory reached through
   searchable real directories and writable (Determinism.simple_dir): *)
(* a layer that does not exist -- what delete_layer leaves -- becomes exactly a fresh directory and a fresh
   content-metadata document; the resulting file system is given in full, so nothing else changes *)
Theorem c01_write_layer_fresh :
  forall (T : Type) (enc : T -> tv) layers n (lcm : T),
    LV.FSFacts.valid_name n = true -> LV.FSFacts.valid_name (n ++ [46; 116; 111; 109; 108]) = true ->
    forall s,
      LV.Determinism.simple_dir s layers ->
      pget (layers ++ [n]) s = None -> pget (layers ++ [n ++ [46; 116; 111; 109; 108]]) s = None ->
      LVGen.GenLayerSharedImp.gen_write_layer enc layers n lcm s =
      (pset (layers ++ [n ++ [46; 116; 111; 109; 108]]) (File mode_file_default (Doc (enc lcm)))
            (pset (layers ++ [n]) (Dir mode_dir_default) s), Ok tt).
Proof. intros T enc layers n lcm Vn Vt. exact (LV.WriteLayerFacts.write_layer_fresh enc layers n lcm Vn Vt). Qed.
Print Assumptions c01_write_layer_fresh.

(* a layer directory that exists, with a regular writable document or none: only the document changes *)
Theorem c01_write_layer_existing :
  forall (T : Type) (enc : T -> tv) layers n (lcm : T),
    LV.FSFacts.valid_name n = true -> LV.FSFacts.valid_name (n ++ [46; 116; 111; 109; 108]) = true ->
    forall s md,
      LV.Determinism.simple_dir s layers -> pget (layers ++ [n]) s = Some (Dir md) ->
      (pget (layers ++ [n ++ [46; 116; 111; 109; 108]]) s = None \/
       exists m c, pget (layers ++ [n ++ [46; 116; 111; 109; 108]]) s = Some (File m c) /\ has_w m = true) ->
      exists m, LVGen.GenLayerSharedImp.gen_write_layer enc layers n lcm s =
                (pset (layers ++ [n ++ [46; 116; 111; 109; 108]]) (File m (Doc (enc lcm))) s, Ok tt).
Proof. intros T enc layers n lcm Vn Vt. exact (LV.WriteLayerFacts.write_layer_existing enc layers n lcm Vn Vt). Qed.
Print Assumptions c01_write_layer_existing.

(* ---- shared::replace_layer_types (what keeping a layer does to <layer>.toml) and
   shared::replace_layer_metadata (ReplaceMetadata), regenerated statement by statement from the source
   (the content metadata is a pair (types, metadata); parsing and encoding of the document are parameters).
   In a writable layers directory reached through searchable real directories, with a regular readable and
   writable <layer>.toml that parses: *)
(* keeping a layer declares exactly the requested types and leaves the metadata the previous build wrote;
   the resulting file system is given in full, so nothing else changes *)
Theorem c01_keep_refreshes_types_only :
  forall (Ty Md : Type) (parse : bytes -> option (option Ty * Md)) (enc : option Ty * Md -> tv) layers n,
    LV.FSFacts.valid_name (n ++ [46; 116; 111; 109; 108]) = true ->
    forall s m c ty0 md0 ty,
      LV.Determinism.simple_dir s layers ->
      pget (layers ++ [n ++ [46; 116; 111; 109; 108]]) s = Some (File m c) -> has_r m = true -> has_w m = true ->
      parse (content_bytes c) = Some (ty0, md0) ->
      LVGen.GenLayerSharedImp.gen_replace_layer_types parse enc layers n ty s =
      (pset (layers ++ [n ++ [46; 116; 111; 109; 108]]) (File m (Doc (enc (Some ty, md0)))) s, Ok tt).
Proof. intros Ty Md parse enc layers n V. exact (LV.ReplaceMetaFacts.replace_layer_types_exact parse enc layers n V). Qed.
Print Assumptions c01_keep_refreshes_types_only.

(* replacing the metadata leaves the types the document declares *)
Theorem c01_replace_metadata_keeps_types :
  forall (Ty Md : Type) (parse : bytes -> option (option Ty * Md)) (enc : option Ty * Md -> tv) layers n,
    LV.FSFacts.valid_name (n ++ [46; 116; 111; 109; 108]) = true ->
    forall s m c ty0 md0 md,
      LV.Determinism.simple_dir s layers ->
      pget (layers ++ [n ++ [46; 116; 111; 109; 108]]) s = Some (File m c) -> has_r m = true -> has_w m = true ->
      parse (content_bytes c) = Some (ty0, md0) ->
      LVGen.GenLayerSharedImp.gen_replace_layer_metadata parse enc layers n md s =
      (pset (layers ++ [n ++ [46; 116; 111; 109; 108]]) (File m (Doc (enc (ty0, md)))) s, Ok tt).
Proof. intros Ty Md parse enc layers n V. exact (LV.ReplaceMetaFacts.replace_layer_metadata_exact parse enc layers n V). Qed.
Print Assumptions c01_replace_metadata_keeps_types.

(* a document that does not parse is an error and nothing is written *)
Theorem c01_keep_unparsable_is_error :
  forall (Ty Md : Type) (parse : bytes -> option (option Ty * Md)) (enc : option Ty * Md -> tv) layers n,
    LV.FSFacts.valid_name (n ++ [46; 116; 111; 109; 108]) = true ->
    forall s m c ty,
      LV.Determinism.simple_dir s layers ->
      pget (layers ++ [n ++ [46; 116; 111; 109; 108]]) s = Some (File m c) -> has_r m = true ->
      parse (content_bytes c) = None ->
      LVGen.GenLayerSharedImp.gen_replace_layer_types parse enc layers n ty s = (s, Err EINVAL).
Proof. intros Ty Md parse enc layers n V. exact (LV.ReplaceMetaFacts.replace_layer_types_unparsable parse enc layers n V). Qed.
Print Assumptions c01_keep_unparsable_is_error.

(* ---- recreating a layer as the code does it -- delete_layer, then write_layer, both as regenerated from the
   source -- whatever the old layer held (any tree below it with any permissions and symbolic links, the layer
   path itself a link, stale TOML and SBOM files or links in their place): the deletion succeeds and leaves
   NOTHING the layer owns (no entry at or below its directory, no <name>.toml, no SBOM file of any format),
   every path that does not belong to the layer is as it was, and writing the layer then yields exactly that
   state plus a fresh directory and a fresh content-metadata document.  "A layer reported as empty has no
   files, metadata, environment or SBOMs left over from any earlier build, and other layers are untouched"
   at the level of the file system.  (Hypotheses: those of c11_delete_layer_complete, shown satisfiable by a
   hostile tree there, and a searchable writable layers directory.) *)
Theorem c01_recreate_exact :
  forall (T : Type) (enc : T -> tv) (lcm : T) layers n s,
    LV.LayerSharedFacts.valid_path layers -> LV.FSFacts.valid_name n = true ->
    LV.LayerSharedFacts.valid_fs s -> LV.LayerSharedGone.parent_closed s -> LV.LayerSharedTotal.layers_ok s layers ->
    LV.Determinism.simple_dir s layers ->
    (pget (layers ++ [n]) s = None \/ (exists m, pget (layers ++ [n]) s = Some (Dir m)) \/ (exists t, pget (layers ++ [n]) s = Some (Link t))) ->
    (forall m, pget (layers ++ [toml_name n]) s <> Some (Dir m)) ->
    (forall sx m, In sx (map LV.LayerSbomsFacts.sbom_suffix_of LVGen.GenLayerSharedImp.SBOM_FORMATS) -> pget (layers ++ [sbom_name n sx]) s <> Some (Dir m)) ->
    exists s1,
      LVGen.GenLayerSharedImp.gen_delete_layer layers n s = (s1, Ok tt) /\
      LVGen.GenLayerSharedImp.gen_write_layer enc layers n lcm s1 =
        (pset (layers ++ [toml_name n]) (File mode_file_default (Doc (enc lcm))) (pset (layers ++ [n]) (Dir mode_dir_default) s1), Ok tt) /\
      (forall r, pget (layers ++ [n] ++ r) s1 = None) /\ pget (layers ++ [toml_name n]) s1 = None /\
      (forall sx, In sx (map LV.LayerSbomsFacts.sbom_suffix_of LVGen.GenLayerSharedImp.SBOM_FORMATS) -> pget (layers ++ [sbom_name n sx]) s1 = None) /\
      (forall q, owned (map LV.LayerSbomsFacts.sbom_suffix_of LVGen.GenLayerSharedImp.SBOM_FORMATS) layers n q = false -> pget q s1 = pget q s).
Proof. intros T enc lcm layers n s. exact (LV.RecreateFacts.recreate_exact enc lcm layers n s). Qed.
Print Assumptions c01_recreate_exact.

(* the hypotheses of c01_recreate_exact are satisfiable: /l/x is a mode-000 directory holding a file, a nested
   read-only directory and a symlink leading out of the layer, with a stale x.toml and a stale CycloneDX SBOM
   beside it and a sibling layer y; the two regenerated functions turn it into exactly a fresh x and x.toml
   with y, y.toml and y's file as they were *)
Definition ex_old_layer : fs :=
  [ ([], Dir 493); ([[108]], Dir 493); ([[108]; [120]], Dir 0);
    ([[108]; [120]; [102]], File 0 (Raw [1]));
    ([[108]; [120]; [100]], Dir 365); ([[108]; [120]; [100]; [103]], File 292 (Raw []));
    ([[108]; [120]; [107]], Link [47; 101; 116; 99]);
    ([[108]; [120; 46; 116; 111; 109; 108]], File 420 (Raw [3]));
    ([[108]; [120; 46; 115; 98; 111; 109; 46; 99; 100; 120; 46; 106; 115; 111; 110]], File 420 (Raw [9]));
    ([[108]; [121]], Dir 493); ([[108]; [121]; [102]], File 420 (Raw [7]));
    ([[108]; [121; 46; 116; 111; 109; 108]], File 420 (Raw [4])) ].

Example c01_recreate_nonvacuous :
  LV.LayerSharedFacts.valid_path [[108]] /\ LV.FSFacts.valid_name [120] = true /\
  LV.LayerSharedFacts.valid_fs ex_old_layer /\ LV.LayerSharedGone.parent_closed ex_old_layer /\
  LV.LayerSharedTotal.layers_ok ex_old_layer [[108]] /\ LV.Determinism.simple_dir ex_old_layer [[108]] /\
  (exists m, pget ([[108]] ++ [[120]]) ex_old_layer = Some (Dir m)) /\
  (forall m, pget ([[108]] ++ [toml_name [120]]) ex_old_layer <> Some (Dir m)) /\
  (forall sx m, In sx (map LV.LayerSbomsFacts.sbom_suffix_of LVGen.GenLayerSharedImp.SBOM_FORMATS) ->
     pget ([[108]] ++ [sbom_name [120] sx]) ex_old_layer <> Some (Dir m)) /\
  (let '(s1, r1) := LVGen.GenLayerSharedImp.gen_delete_layer [[108]] [120] ex_old_layer in
   let '(s2, r2) := LVGen.GenLayerSharedImp.gen_write_layer (fun _ : unit => TTbl []) [[108]] [120] tt s1 in
   r1 = Ok tt /\ r2 = Ok tt /\
   s2 = [ ([], Dir 493); ([[108]], Dir 493);
          ([[108]; [121]], Dir 493); ([[108]; [121]; [102]], File 420 (Raw [7]));
          ([[108]; [121; 46; 116; 111; 109; 108]], File 420 (Raw [4]));
          ([[108]; [120]], Dir mode_dir_default);
          ([[108]; [120; 46; 116; 111; 109; 108]], File mode_file_default (Doc (TTbl []))) ]).
Proof.
  split; [repeat constructor|]. split; [reflexivity|].
  assert (Keys : forall q, pget q ex_old_layer <> None -> In q (map fst ex_old_layer)).
  { intros q H. apply FSInv.in_keys_pget in H. exact H. }
  split.
  { intros q H. apply Keys in H. cbn in H. repeat (destruct H as [<-|H]; [repeat constructor|]). contradiction. }
  split.
  { intros q n H. apply Keys in H. cbn [In map fst ex_old_layer] in H.
    assert (X : forall key, key = q ++ [n] -> key <> [] /\ q = removelast key).
    { intros key E. split; [intros ->; destruct q; discriminate|rewrite E, removelast_last; reflexivity]. }
    repeat (destruct H as [E|H]; [apply X in E as [NE ->]; try congruence; cbn; eexists; reflexivity|]).
    contradiction. }
  split.
  { split.
    - intros k Hk. destruct k as [|k]; [exists 493; split; reflexivity|cbn in Hk; lia].
    - exists 493. repeat split; reflexivity. }
  split.
  { constructor.
    - repeat constructor.
    - intros k Lk. destruct k as [|[|k]]; [eexists; split; reflexivity|eexists; split; reflexivity|cbn in Lk; lia].
    - eexists; repeat split; reflexivity. }
  split; [eexists; reflexivity|].
  split; [intros m H; vm_compute in H; discriminate|].
  split.
  { intros sx m Hin H. cbn in Hin. repeat (destruct Hin as [<-|Hin]; [vm_compute in H; discriminate|]). contradiction. }
  vm_compute. repeat split; reflexivity.
Qed.

(* ---- what write_layer wrote, read_layer reads back (both as regenerated from the source).  A layer directory
   with a regular readable content-metadata file: read_layer changes nothing and returns the layer's path with
   the parsed document (an unparsable document is an error and still nothing changes). *)
Theorem c01_read_layer_present :
  forall (A : Type) (parse : bytes -> option A) layers n,
    LV.FSFacts.valid_name n = true -> LV.FSFacts.valid_name (n ++ [46; 116; 111; 109; 108]) = true ->
    forall s md m c,
      LV.Determinism.simple_dir s layers -> pget (layers ++ [n]) s = Some (Dir md) ->
      pget (layers ++ [n ++ [46; 116; 111; 109; 108]]) s = Some (File m c) -> has_r m = true ->
      LVGen.GenLayerSharedImp.gen_read_layer parse layers n s =
      (s, match parse (content_bytes c) with Some a => Ok (Some (layers ++ [n], a)) | None => Err EINVAL end).
Proof. intros A parse layers n Vn Vt. exact (LV.WriteReadFacts.read_layer_present parse layers n Vn Vt). Qed.
Print Assumptions c01_read_layer_present.

Theorem c01_write_then_read_layer :
  forall (T A : Type) (enc : T -> tv) (parse : bytes -> option A) layers n,
    LV.FSFacts.valid_name n = true -> LV.FSFacts.valid_name (n ++ [46; 116; 111; 109; 108]) = true ->
    forall s lcm,
      LV.Determinism.simple_dir s layers -> pget (layers ++ [n]) s = None ->
      pget (layers ++ [n ++ [46; 116; 111; 109; 108]]) s = None ->
      exists s', LVGen.GenLayerSharedImp.gen_write_layer enc layers n lcm s = (s', Ok tt) /\
        LVGen.GenLayerSharedImp.gen_read_layer parse layers n s' =
        (s', match parse (content_bytes (Doc (enc lcm))) with Some a => Ok (Some (layers ++ [n], a)) | None => Err EINVAL end).
Proof. intros T A enc parse layers n Vn Vt. exact (LV.WriteReadFacts.write_then_read_layer enc parse layers n Vn Vt). Qed.
Print Assumptions c01_write_then_read_layer.

(* recreating a layer and asking for it again, whatever the old layer held (hypotheses of c01_recreate_exact,
   satisfied by c01_recreate_nonvacuous): the next read returns exactly the content metadata just written --
   no metadata of an earlier build can come back -- and changes nothing *)
Theorem c01_recreate_then_read :
  forall (T A : Type) (enc : T -> tv) (parse : bytes -> option A) (lcm : T) layers n s,
    LV.LayerSharedFacts.valid_path layers -> LV.FSFacts.valid_name n = true ->
    LV.LayerSharedFacts.valid_fs s -> LV.LayerSharedGone.parent_closed s -> LV.LayerSharedTotal.layers_ok s layers ->
    LV.Determinism.simple_dir s layers ->
    (pget (layers ++ [n]) s = None \/ (exists m, pget (layers ++ [n]) s = Some (Dir m)) \/ (exists t, pget (layers ++ [n]) s = Some (Link t))) ->
    (forall m, pget (layers ++ [toml_name n]) s <> Some (Dir m)) ->
    (forall sx m, In sx (map LV.LayerSbomsFacts.sbom_suffix_of LVGen.GenLayerSharedImp.SBOM_FORMATS) -> pget (layers ++ [sbom_name n sx]) s <> Some (Dir m)) ->
    exists s1 s2,
      LVGen.GenLayerSharedImp.gen_delete_layer layers n s = (s1, Ok tt) /\
      LVGen.GenLayerSharedImp.gen_write_layer enc layers n lcm s1 = (s2, Ok tt) /\
      LVGen.GenLayerSharedImp.gen_read_layer parse layers n s2 =
        (s2, match parse (content_bytes (Doc (enc lcm))) with Some a => Ok (Some (layers ++ [n], a)) | None => Err EINVAL end).
Proof. intros T A enc parse lcm layers n s. exact (LV.WriteReadFacts.recreate_then_read enc parse lcm layers n s). Qed.
Print Assumptions c01_recreate_then_read.

(* keeping a restored layer, resp. replacing its metadata, and the next request's read: for ANY encoder / parser
   pair that round-trips (the premise; for the real pair that is C07's subject) the read returns exactly the
   requested types with the metadata the previous build left, resp. the declared types with the new metadata *)
Theorem c01_keep_then_read :
  forall (Ty Md : Type) (parse : bytes -> option (option Ty * Md)) (enc : option Ty * Md -> tv) layers n,
    LV.FSFacts.valid_name n = true -> LV.FSFacts.valid_name (n ++ [46; 116; 111; 109; 108]) = true ->
    (forall x, parse (content_bytes (Doc (enc x))) = Some x) ->
    forall s md m c ty0 md0 ty,
      LV.Determinism.simple_dir s layers -> pget (layers ++ [n]) s = Some (Dir md) ->
      pget (layers ++ [n ++ [46; 116; 111; 109; 108]]) s = Some (File m c) ->
      has_r m = true -> has_w m = true -> parse (content_bytes c) = Some (ty0, md0) ->
      exists s', LVGen.GenLayerSharedImp.gen_replace_layer_types parse enc layers n ty s = (s', Ok tt) /\
                 LVGen.GenLayerSharedImp.gen_read_layer parse layers n s' = (s', Ok (Some (layers ++ [n], (Some ty, md0)))).
Proof. intros Ty Md parse enc layers n Vn Vt RT. exact (LV.WriteReadFacts.keep_then_read parse enc layers n Vn Vt RT). Qed.
Print Assumptions c01_keep_then_read.

Theorem c01_replace_metadata_then_read :
  forall (Ty Md : Type) (parse : bytes -> option (option Ty * Md)) (enc : option Ty * Md -> tv) layers n,
    LV.FSFacts.valid_name n = true -> LV.FSFacts.valid_name (n ++ [46; 116; 111; 109; 108]) = true ->
    (forall x, parse (content_bytes (Doc (enc x))) = Some x) ->
    forall s md m c ty0 md0 mdn,
      LV.Determinism.simple_dir s layers -> pget (layers ++ [n]) s = Some (Dir md) ->
      pget (layers ++ [n ++ [46; 116; 111; 109; 108]]) s = Some (File m c) ->
      has_r m = true -> has_w m = true -> parse (content_bytes c) = Some (ty0, md0) ->
      exists s', LVGen.GenLayerSharedImp.gen_replace_layer_metadata parse enc layers n mdn s = (s', Ok tt) /\
                 LVGen.GenLayerSharedImp.gen_read_layer parse layers n s' = (s', Ok (Some (layers ++ [n], (ty0, mdn)))).
Proof. intros Ty Md parse enc layers n Vn Vt RT. exact (LV.WriteReadFacts.replace_metadata_then_read parse enc layers n Vn Vt RT). Qed.
Print Assumptions c01_replace_metadata_then_read.
