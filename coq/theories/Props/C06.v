(* Props/C06.v -- property theorems for C06 only. *)
From LV Require Import Base Toml FS Serde SerdeFacts SpecDocs Platform PlatformFacts.
From LVGen Require Import GenSerde GenRuntime.

Theorem c06_tables :
  s_ComponentBuildpackDescriptor (TyOption TyTable) = spec_Component /\ s_BuildpackPlan = spec_BuildpackPlan /\
  s_Store = spec_Store /\ rt_target_mandatory_vars_ok = true /\ rt_missing_store_tolerated = true /\
  rt_arch_variant_error_silenced = false.
Proof. repeat split; reflexivity. Qed.
Print Assumptions c06_tables.

(* exactly the regular files of <platform>/env (also via symlink), exact names and contents;
   directories skipped; missing env directory tolerated *)
Theorem c06_platform_env_exact :
  forall platform s m,
    platform_env platform s = Ok m ->
    let envp := platform ++ [n_env_dir] in
    match readdir envp s with
    | (_, Ok pl) =>
        (forall n, bget n m = if existsb (beq n) (snd pl) then env_entry envp s n else None) /\
        (forall n, In n (snd pl) -> is_file (envp ++ [n]) s = true ->
                   exists c, env_entry envp s n = Some c /\ utf8_valid c = true /\ bget n m = Some c)
    | (_, Err e) => e = ENOENT /\ m = []
    end.
Proof. exact platform_env_exact. Qed.
Print Assumptions c06_platform_env_exact.

(* a content that cannot be represented as a string is an error, never a dropped or altered entry *)
Theorem c06_bad_content_is_error :
  forall platform s pl s' n mc s'',
    readdir (platform ++ [n_env_dir]) s = (s', Ok pl) -> In n (snd pl) ->
    is_file (platform ++ [n_env_dir] ++ [n]) s = true ->
    read_file (platform ++ [n_env_dir] ++ [n]) s = (s'', Ok mc) -> utf8_valid (content_bytes (snd mc)) = false ->
    forall m, platform_env platform s <> Ok m.
Proof. exact platform_env_bad_utf8. Qed.
Print Assumptions c06_bad_content_is_error.

Theorem c06_target_exact :
  forall v t, context_target rt_arch_variant_error_silenced v = Some t ->
    v_os v = Some (t_os t) /\ v_arch v = Some (t_arch t) /\ v_dname v = Some (t_dname t) /\
    v_dver v = Some (t_dver t) /\ v_variant v = t_variant t.
Proof.
  intros v t H. destruct (target_exact false v t H) as (A & B & C & D & E). repeat split; auto.
Qed.
Print Assumptions c06_target_exact.

(* plan entries with their metadata, the store and the descriptor: exactly the documents' values *)
Theorem c06_plan_store_exact :
  forall vf sq deny fields kvs vals,
    decode vf sq (TyStruct deny fields) (TTbl kvs) = Some (VRec vals) ->
    (deny = true -> forall k, In k (tkeys kvs) -> exists f, In f fields /\ f_key f = k) /\
    forall f, In f fields ->
      match tget (f_key f) kvs with
      | Some x => exists a, decode vf sq (f_ty f) x = Some a /\ In (f_key f, a) vals
      | None => if is_option_ty (f_ty f) then In (f_key f, VOpt None) vals
                else exists d, f_default f = Some d /\ In (f_key f, d) vals
      end.
Proof. exact accepted_exact. Qed.
Print Assumptions c06_plan_store_exact.

Theorem c06_arch_variant_legacy_refuted :
  let v := mkTV (Some [108]) (Some [97]) (Some [255]) (Some [117]) (Some [49]) in
  context_target true v = Some (mkTarget [108] [97] None [117] [49]) /\ context_target false v = None.
Proof. exact arch_variant_legacy_refuted. Qed.
Print Assumptions c06_arch_variant_legacy_refuted.

Example c06_nonvacuous :
  let s := [ ([], Dir 493); ([[101; 110; 118]], Dir 493);
             ([[101; 110; 118]; [70]], File 420 (Raw [98; 10]));
             ([[101; 110; 118]; [100]], Dir 493);
             ([[101; 110; 118]; [76]], Link [70]) ] in
  platform_env [] s = Ok [([70], [98; 10]); ([76], [98; 10])].
Proof. vm_compute. reflexivity. Qed.
