(* Props/C17.v -- property theorems for C17 only. *)
From LV Require Import Base SpecDocs Argv ArgvFacts.
From LV.Checks Require Import C17Hold C17Agree.
From Coq Require Import String.
Open Scope string_scope.
Open Scope N_scope.
Open Scope list_scope.

Theorem c17_tables : C17Agree.shape_ok = true.
Proof. vm_compute. reflexivity. Qed.
Print Assumptions c17_tables.

(* docker's own option grammar reads back exactly the configured options, whatever the values are:
   the only hypothesis is about the generated image name *)
Theorem c17_docker_run_roundtrip :
  forall c, starts_dash (r_image c) = false ->
    parse_opts docker_run_table false (tl (argv_docker_run c)) = Some (view_docker_run c).
Proof. exact docker_run_roundtrip. Qed.
Print Assumptions c17_docker_run_roundtrip.

Theorem c17_pack_build_roundtrip :
  forall c, starts_dash (k_image c) = false ->
    parse_opts pack_build_table true (tl (argv_pack_build c)) = Some (view_pack_build c).
Proof. exact pack_build_roundtrip. Qed.
Print Assumptions c17_pack_build_roundtrip.

(* the value formats *)
Theorem c17_env_value : forall k v, ~ In 61 k -> env_view (env_arg (k, v)) = (k, Some v).
Proof. exact env_arg_roundtrip. Qed.
Print Assumptions c17_env_value.

Theorem c17_publish_value : forall p, p < 65536 -> publish_view (publish_arg p) = Some p.
Proof. exact publish_roundtrip. Qed.
Print Assumptions c17_publish_value.

Theorem c17_mount_value :
  forall s t, valid_path s = true -> valid_path t = true -> mount_view (mount_arg (s, t)) = mount_expected (s, t).
Proof. exact mount_roundtrip. Qed.
Print Assumptions c17_mount_value.

(* every valid configuration: the command lines the model builds pass the judgement of C17Hold *)
Theorem c17_run_judged :
  forall name img platform c, valid_ccfg c = true -> starts_dash img = false ->
    check_run c img (argv_docker_run (mk_run name img platform c)) = true.
Proof. exact check_run_model. Qed.
Print Assumptions c17_run_judged.

Theorem c17_pack_judged :
  forall img c, valid_bcfgv c = true -> starts_dash img = false ->
    check_pack c (argv_pack_build (mk_pack img c)) = Some img.
Proof. exact check_pack_model. Qed.
Print Assumptions c17_pack_judged.

(* distinct configurations never share a command line *)
Theorem c17_injective :
  forall c1 c2, starts_dash (r_image c1) = false -> starts_dash (r_image c2) = false ->
    argv_docker_run c1 = argv_docker_run c2 -> view_docker_run c1 = view_docker_run c2.
Proof. exact docker_run_injective. Qed.
Print Assumptions c17_injective.

(* outside the guards the reading really differs: '=' in a key, ',' in a mount path *)
Theorem c17_eq_in_key_refuted : exists k v, env_view (env_arg (k, v)) <> (k, Some v).
Proof. exact env_arg_eq_in_key_refuted. Qed.
Print Assumptions c17_eq_in_key_refuted.

Theorem c17_mount_comma_refuted : exists s t, mount_view (mount_arg (s, t)) <> mount_expected (s, t).
Proof. exact mount_comma_refuted. Qed.
Print Assumptions c17_mount_comma_refuted.

(* non-vacuity: a configuration with leading dashes, spaces and '=' in values meets the hypotheses *)
Example c17_nonvacuous :
  let c := mkC (Some (b "--web")) (Some [b "-c"; b "echo hi"]) [(b "K", b "-v=1 2")] [80; 8080] [(b "/s", b "/t")] in
  valid_ccfg c = true /\ starts_dash (b "libcnbtest_abcdefghijkl") = false /\
  check_run c (b "libcnbtest_abcdefghijkl") (argv_docker_run (mk_run (b "n") (b "libcnbtest_abcdefghijkl") (b "linux/amd64") c)) = true.
Proof. vm_compute. repeat split. Qed.
