(* Props/C17.v -- property theorems for C17 only. *)
From LV Require Import Base ImpPrims SpecDocs Argv ArgvTypes ArgvFacts.
From LVGen Require Import GenLibcnbTest.
From LV.Checks Require Import C17Hold C17Agree.
From Coq Require Import String.
Open Scope string_scope.
Open Scope N_scope.
Open Scope list_scope.

Theorem c17_tables : C17Agree.shape_ok = true.
Proof. vm_compute. reflexivity. Qed.
Print Assumptions c17_tables.

(* docker's own option grammar reads back exactly the configured options, whatever the values are:
   the only hypothesis is about the generated image name *)
(* a loop whose body appends words computed from the entry is a flat_map *)
Lemma fold_left_flat {A} (f : list bytes -> A -> list bytes) (g : A -> list bytes) (l : list A) :
  (forall a x, f a x = a ++ g x) -> forall acc, fold_left f l acc = acc ++ flat_map g l.
Proof.
  intros H. induction l as [|x l IH]; intros acc; cbn [fold_left flat_map]; [now rewrite app_nil_r|].
  now rewrite IH, H, app_assoc.
Qed.

Lemma flat_map_map {A B} (g : A -> B) (f : B -> list bytes) (l : list A) :
  flat_map f (map g l) = flat_map (fun x => f (g x)) l.
Proof. induction l as [|x l IH]; cbn [map flat_map]; [reflexivity|now rewrite IH]. Qed.

Definition pull_str (p : pull_policy) : bytes :=
  match p with PullAlways => b "always" | PullIfNotPresent => b "if-not-present" | PullNever => b "never" end.
Definition bp_str (r : bp_ref) : bytes := match r with BpId i => i | BpPath p => p end.

(* impl From<DockerRunCommand> for Command, as the translator reads it from docker.rs statement by
   statement (imp.rs), builds exactly the model's argv (program name first): the round-trip theorems
   below are therefore about the code's own builder, re-derived from /repo on every run.  (Proofs
   are kept here because they are about generated definitions.) *)
Theorem c17_docker_run_regenerated :
  forall c : run_cfg,
    gen_docker_run_argv (r_name c) (r_detach c) (r_remove c) (r_platform c) (r_entrypoint c) (r_env c)
                        (r_ports c) (r_mounts c) (r_image c) (r_command c)
    = b "docker" :: argv_docker_run c.
Proof.
  intros [name det rm plat entry env ports mounts image cmd]. unfold gen_docker_run_argv, argv_docker_run.
  cbn [Argv.r_name Argv.r_detach Argv.r_remove Argv.r_platform Argv.r_entrypoint Argv.r_env Argv.r_ports Argv.r_mounts Argv.r_image Argv.r_command].
  rewrite (fold_left_flat _ (fun kv => [f_env; env_arg kv]) env) by (intros a [k v]; reflexivity).
  rewrite (fold_left_flat _ (fun p => [f_publish; publish_arg p]) ports) by (intros a p; reflexivity).
  rewrite (fold_left_flat _ (fun m => [f_mount; mount_arg m]) mounts) by (intros a [s t]; reflexivity).
  destruct det, rm, plat, entry, cmd; cbn [opt_flag]; repeat rewrite <- app_assoc; reflexivity.
Qed.
Print Assumptions c17_docker_run_regenerated.

Theorem c17_pack_build_regenerated :
  forall img builder bc lc path pp refs env tb te,
    gen_pack_build_argv img builder bc lc path pp refs env tb te
    = b "pack" :: argv_pack_build (mkPack img builder bc lc path (pull_str pp) (map bp_str refs) env tb te).
Proof.
  intros. unfold gen_pack_build_argv, argv_pack_build.
  cbn [Argv.k_image Argv.k_builder Argv.k_build_cache Argv.k_launch_cache Argv.k_path Argv.k_pull_policy Argv.k_buildpacks Argv.k_env Argv.k_trust_builder Argv.k_trust_extra].
  rewrite (fold_left_flat _ (fun r => [g_buildpack; bp_str r]) refs) by (intros a [i|p]; reflexivity).
  rewrite (fold_left_flat _ (fun kv => [g_env; env_arg kv]) env) by (intros a [k v]; reflexivity).
  rewrite flat_map_map.
  destruct pp, tb, te; repeat rewrite <- app_assoc; cbn [app]; rewrite ?app_nil_r; reflexivity.
Qed.
Print Assumptions c17_pack_build_regenerated.

(* the removal commands of C16 and the remaining builders, as read from the source *)
Theorem c17_other_builders_regenerated :
  (forall n f, gen_docker_rm_argv n f = [b "docker"; b "rm"; n] ++ (if f then [b "--force"] else [])) /\
  (forall n f, gen_docker_rmi_argv n f = [b "docker"; b "rmi"; n] ++ (if f then [b "--force"] else [])) /\
  (forall vs f, gen_docker_volume_rm_argv vs f = [b "docker"; b "volume"; b "remove"] ++ vs ++ (if f then [b "--force"] else [])) /\
  (forall n cmd, gen_docker_exec_argv n cmd = [b "docker"; b "exec"; n] ++ cmd) /\
  (forall n f, gen_docker_logs_argv n f = [b "docker"; b "logs"; n] ++ (if f then [b "--follow"] else [])) /\
  (forall n p, gen_docker_port_argv n p = [b "docker"; b "port"; n; show_port p]) /\
  (forall img o, gen_pack_sbom_argv img o = [b "pack"; b "sbom"; b "download"; img] ++ opt_flag (b "--output-dir") o).
Proof.
  repeat (match goal with |- _ /\ _ => split end); intros.
  - destruct f; reflexivity.
  - destruct f; reflexivity.
  - unfold gen_docker_volume_rm_argv. destruct f; repeat rewrite <- app_assoc; rewrite ?app_nil_r; reflexivity.
  - unfold gen_docker_exec_argv. repeat rewrite <- app_assoc. reflexivity.
  - destruct f; reflexivity.
  - reflexivity.
  - destruct o; reflexivity.
Qed.
Print Assumptions c17_other_builders_regenerated.

Theorem c17_docker_run_roundtrip :
  forall c, starts_dash (r_image c) = false ->
    parse_opts docker_run_table false (tl (argv_docker_run c)) = Some (view_docker_run c).
Proof. exact docker_run_roundtrip. Qed.
Print Assumptions c17_docker_run_roundtrip.

Theorem c17_pack_build_roundtrip :
  forall c, starts_dash (k_image c) = false ->
    parse_opts pack_build_table true (tl (argv_pack_build c)) = Some (view_pack_build c).
Proof. exact pack_build_roundtrip. Qed.
Print Assumptions c17_pack_build_roundtrip.

(* the value formats *)
Theorem c17_env_value : forall k v, ~ In 61 k -> env_view (env_arg (k, v)) = (k, Some v).
Proof. exact env_arg_roundtrip. Qed.
Print Assumptions c17_env_value.

Theorem c17_publish_value : forall p, p < 65536 -> publish_view (publish_arg p) = Some p.
Proof. exact publish_roundtrip. Qed.
Print Assumptions c17_publish_value.

Theorem c17_mount_value :
  forall s t, valid_path s = true -> valid_path t = true -> mount_view (mount_arg (s, t)) = mount_expected (s, t).
Proof. exact mount_roundtrip. Qed.
Print Assumptions c17_mount_value.

(* every valid configuration: the command lines the model builds pass the judgement of C17Hold *)
Theorem c17_run_judged :
  forall name img platform c, valid_ccfg c = true -> starts_dash img = false ->
    check_run c img (argv_docker_run (mk_run name img platform c)) = true.
Proof. exact check_run_model. Qed.
Print Assumptions c17_run_judged.

Theorem c17_pack_judged :
  forall img c, valid_bcfgv c = true -> starts_dash img = false ->
    check_pack c (argv_pack_build (mk_pack img c)) = Some img.
Proof. exact check_pack_model. Qed.
Print Assumptions c17_pack_judged.

(* distinct configurations never share a command line *)
Theorem c17_injective :
  forall c1 c2, starts_dash (r_image c1) = false -> starts_dash (r_image c2) = false ->
    argv_docker_run c1 = argv_docker_run c2 -> view_docker_run c1 = view_docker_run c2.
Proof. exact docker_run_injective. Qed.
Print Assumptions c17_injective.

(* outside the guards the reading really differs: '=' in a key, ',' in a mount path *)
Theorem c17_eq_in_key_refuted : exists k v, env_view (env_arg (k, v)) <> (k, Some v).
Proof. exact env_arg_eq_in_key_refuted. Qed.
Print Assumptions c17_eq_in_key_refuted.

Theorem c17_mount_comma_refuted : exists s t, mount_view (mount_arg (s, t)) <> mount_expected (s, t).
Proof. exact mount_comma_refuted. Qed.
Print Assumptions c17_mount_comma_refuted.

(* non-vacuity: a configuration with leading dashes, spaces and '=' in values meets the hypotheses *)
Example c17_nonvacuous :
  let c := mkC (Some (b "--web")) (Some [b "-c"; b "echo hi"]) [(b "K", b "-v=1 2")] [80; 8080] [(b "/s", b "/t")] in
  valid_ccfg c = true /\ starts_dash (b "libcnbtest_abcdefghijkl") = false /\
  check_run c (b "libcnbtest_abcdefghijkl") (argv_docker_run (mk_run (b "n") (b "libcnbtest_abcdefghijkl") (b "linux/amd64") c)) = true.
Proof. vm_compute. repeat split. Qed.
