(* Props/C03.v -- property theorems for C03 only. *)
From LV Require Import Base FS FSFacts LayerEnv LayerEnvFacts LayerShared LayerEnvFS LayerEnvFSFacts.
From LVGen Require Import GenLayerEnv.

Theorem c03_tables :
  writer_suffix = spec_writer_table /\ reader_suffix = spec_reader_table /\
  reader_no_ext = spec_no_ext /\ reader_unknown_ignored = true /\
  beh_order = spec_beh_order /\
  write_env_dirs = [n_env; n_env_build; n_env_launch] /\ read_env_dirs = [n_env; n_env_build; n_env_launch] /\
  writer_wipes_existing = true /\ writer_skips_empty = true /\
  reader_skips_directories = true /\ reader_reads_process_dirs = true /\ reads_process = true.
Proof. repeat split; reflexivity. Qed.
Print Assumptions c03_tables.

(* NAME.<suffix> splits back into (NAME, suffix) under Rust's file_stem/extension rules, for every
   non-empty byte string NAME (dots and non-UTF-8 bytes included) *)
Theorem c03_split_suffix :
  forall nm sx, nm <> [] -> sx <> [] -> ~ In 46 sx -> split_ext (nm ++ 46 :: sx) = (nm, Some sx).
Proof. exact split_suffix. Qed.
Print Assumptions c03_split_suffix.

Theorem c03_entry_roundtrip :
  forall b nm, nm <> [] ->
    entry_behaviour reader_suffix reader_no_ext (nm ++ writer_suffix_of writer_suffix b) = (nm, Some b).
Proof. intros b nm NE. exact (entry_roundtrip writer_suffix reader_suffix reader_no_ext b nm spec_tables_inverse NE). Qed.
Print Assumptions c03_entry_roundtrip.

(* the files written for a delta read back as exactly that delta: hence an environment that is
   written and read applies identically for every scope and starting environment *)
Theorem c03_layout_roundtrip :
  forall d, delta_wf d -> delta_names_nonempty d ->
    parse_files reader_suffix reader_no_ext (delta_files beh_order writer_suffix d) delta_empty = d.
Proof. exact (layout_roundtrip writer_suffix reader_suffix reader_no_ext spec_tables_inverse). Qed.
Print Assumptions c03_layout_roundtrip.

(* suffix-less files read as override, unknown suffixes are ignored *)
Theorem c03_read_rules :
  (forall nm, ~ In 46 nm -> nm <> [] -> entry_behaviour reader_suffix reader_no_ext nm = (nm, Some Override)) /\
  (forall nm x, nm <> [] -> x <> [] -> ~ In 46 x -> reader_beh_of reader_suffix x = None ->
                entry_behaviour reader_suffix reader_no_ext (nm ++ 46 :: x) = (nm, None)).
Proof.
  split.
  - intros nm N NE. unfold entry_behaviour, split_ext.
    assert (D : beq nm dotdot = false).
    { apply beq_neq. intros ->. apply N. now left. }
    rewrite D.
    assert (H : split_last_dot nm = None).
    { clear -N. induction nm as [|x nm IH]; [reflexivity|]. cbn [split_last_dot].
      rewrite IH by (intro I; apply N; now right).
      destruct (N.eqb_spec x 46) as [->|?]; [exfalso; apply N; now left|reflexivity]. }
    now rewrite H.
  - intros nm x NE XE N R. unfold entry_behaviour. rewrite split_suffix by assumption. now rewrite R.
Qed.
Print Assumptions c03_read_rules.

(* FULL (not yet a theorem; decided on implementation snapshots by the verified frame oracle and
   the layout_exact judgement of Checks/C03Hold.v, and by the correspondence):
     c03_layout_exact : after a successful write_to_layer_dir the paths below the three env roots
                        are exactly spec_layout/spec_dirs of the environment;
     c03_overwrite    : write new (write old fs) and write new fs agree on the env roots;
     c03_frame        : nothing outside the three roots changes. *)

Example c03_nonvacuous :
  let d := dinsert Append [65; 46; 66] [1] (dinsert Override [255] [0; 10] (dinsert Delim [65; 46; 66] [58] delta_empty)) in
  delta_wf d /\ delta_names_nonempty d /\
  delta_files beh_order writer_suffix d =
    [ ([65; 46; 66; 46; 97; 112; 112; 101; 110; 100], [1]); ([65; 46; 66; 46; 100; 101; 108; 105; 109], [58]);
      ([255; 46; 111; 118; 101; 114; 114; 105; 100; 101], [0; 10]) ].
Proof.
  cbn zeta. split; [repeat apply dinsert_wf; apply delta_empty_wf|]. split.
  - repeat split; intros k v I; cbn in I; intuition congruence.
  - reflexivity.
Qed.
