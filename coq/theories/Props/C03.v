(* Props/C03.v -- property theorems for C03 only. *)
From LV Require Import Base FS FSFacts LayerEnv LayerEnvFacts LayerShared LayerSharedGone LayerEnvFS LayerEnvFSFacts Determinism LayerEnvFSExact FSInv LayerEnvFSCompose LayerEnvReadback LayerEnvFSRead LayerEnvFSCycle LayerEnvFSProc LayerEnvFSFull LayerEnvFSOrder LayerEnvFSApply.
From Coq Require Import Lia.
From LV Require Import ImpPrims ImpFacts ImpReader.
From LVGen Require Import GenLayerEnv GenLayerEnvImp.

Theorem c03_tables :
  writer_suffix = spec_writer_table /\ reader_suffix = spec_reader_table /\
  reader_no_ext = spec_no_ext /\ reader_unknown_ignored = true /\
  beh_order = spec_beh_order /\
  write_env_dirs = [n_env; n_env_build; n_env_launch] /\ read_env_dirs = [n_env; n_env_build; n_env_launch] /\
  writer_wipes_existing = true /\ writer_skips_empty = true /\
  reader_skips_directories = true /\ reader_reads_process_dirs = true /\ reads_process = true.
Proof. repeat split; reflexivity. Qed.
Print Assumptions c03_tables.

(* LayerEnvDelta::write_to_env_dir and LayerEnv::write_to_layer_dir as the translator reads them from
   layer_env.rs statement by statement (imp.rs, result monad -> GenLayerEnvImp.v) ARE the model's writer:
   the FS-level theorems below (exactness, overwrite, read-back, fixpoint) are about the code's own
   statements, re-derived from /repo on every run. *)
(* entries and files are the same list, entry by entry *)
Lemma delta_files_entries d :
  delta_files beh_order writer_suffix d =
  map (fun e => (snd (fst e) ++ writer_suffix_of writer_suffix (fst (fst e)), snd e)) (entries_of beh_order d).
Proof.
  unfold delta_files, entries_of. induction beh_order as [|b l IH]; [reflexivity|].
  cbn [flat_map]. rewrite map_app, IH, map_map. reflexivity.
Qed.

Lemma entries_empty d : is_empty (entries_of beh_order d) = delta_is_empty d.
Proof. destruct d as [[|? ?] [|? ?] [|? ?] [|? ?] [|? ?]]; reflexivity. Qed.

Theorem c03_write_env_dir_regenerated :
  forall d p s, gen_write_to_env_dir (entries_of beh_order d) p s = write_env_dir beh_order writer_suffix d p s.
Proof.
  intros d p s. unfold gen_write_to_env_dir, write_env_dir.
  apply bindM_ext.
  - destruct (exists_ p s); [apply bind_ret_tt|reflexivity].
  - intros s1. rewrite bind_ret_tt. rewrite entries_empty. destruct (delta_is_empty d); [reflexivity|]. cbn [negb].
    apply bindM_ext; [reflexivity|]. intros s2. rewrite bind_ret_tt.
    rewrite delta_files_entries, iterM_map. apply iterM_ext. intros [[b n] v] s3.
    rewrite bind_ret_tt. cbn [fst snd]. destruct b; reflexivity.
Qed.
Print Assumptions c03_write_env_dir_regenerated.

Theorem c03_write_to_layer_dir_regenerated :
  forall e dir s,
    gen_write_to_layer_dir (entries_of beh_order (le_all e)) (entries_of beh_order (le_build e))
                           (entries_of beh_order (le_launch e))
                           (map (fun pd => (fst pd, entries_of beh_order (snd pd))) (le_process e)) dir s
    = write_to_layer_dir beh_order writer_suffix e dir s.
Proof.
  intros e dir s. unfold gen_write_to_layer_dir, write_to_layer_dir.
  apply bindM_ext; [apply c03_write_env_dir_regenerated|]. intros s1.
  apply bindM_ext; [apply c03_write_env_dir_regenerated|]. intros s2.
  apply bindM_ext; [apply c03_write_env_dir_regenerated|]. intros s3.
  rewrite bind_ret_tt, iterM_map. apply iterM_ext. intros [pn d] s4. cbn [fst snd].
  rewrite bind_ret_tt, c03_write_env_dir_regenerated, <- app_assoc. reflexivity.
Qed.
Print Assumptions c03_write_to_layer_dir_regenerated.

Lemma last_name_snoc p nm : last_name (p ++ [nm]) = nm.
Proof. unfold last_name. apply last_last. Qed.

(* LayerEnvDelta::read_from_env_dir as the translator reads it from layer_env.rs statement by statement
   IS the model's reader (with the regenerated suffix table and the repaired process-directory rule) *)
Theorem c03_read_env_dir_regenerated :
  forall p s, gen_read_from_env_dir p s = read_from_env_dir reader_suffix reader_no_ext true p s.
Proof.
  intros p s. unfold gen_read_from_env_dir, read_from_env_dir, names_of. cbv zeta.
  etransitivity; [apply bindM_assoc|]. apply bindM_ext_gen; [reflexivity|]. intros pl s1.
  etransitivity; [apply bindM_ret_l|]. etransitivity; [apply bindM_ret_r|].
  rewrite fold_left_foldM. etransitivity; [|symmetry; apply bindM_ret_l].
  apply foldM_ext. intros d nm s2.
  cbn [andb]. etransitivity; [|symmetry; apply (bind_read (is_dir (p ++ [nm])))].
  destruct (is_dir (p ++ [nm]) s2); [reflexivity|].
  unfold read_bytes. etransitivity; [apply bindM_assoc|]. apply bindM_ext_gen; [reflexivity|]. intros mc s3.
  etransitivity; [apply bindM_ret_l|]. unfold file_stem_of, extension_of, entry_behaviour. rewrite last_name_snoc.
  destruct (split_ext nm) as [stem [ext|]]; cbn [fst snd]; unfold bindM, ret, reader_suffix, reader_no_ext; cbn [reader_beh_of];
    repeat match goal with |- context [if beq ext ?l then _ else _] => destruct (beq ext l) end; reflexivity.
Qed.
Print Assumptions c03_read_env_dir_regenerated.





(* NAME.<suffix> splits back into (NAME, suffix) under Rust's file_stem/extension rules, for every
   non-empty byte string NAME (dots and non-UTF-8 bytes included) *)
Theorem c03_split_suffix :
  forall nm sx, nm <> [] -> sx <> [] -> ~ In 46 sx -> split_ext (nm ++ 46 :: sx) = (nm, Some sx).
Proof. exact split_suffix. Qed.
Print Assumptions c03_split_suffix.

Theorem c03_entry_roundtrip :
  forall b nm, nm <> [] ->
    entry_behaviour reader_suffix reader_no_ext (nm ++ writer_suffix_of writer_suffix b) = (nm, Some b).
Proof. intros b nm NE. exact (entry_roundtrip writer_suffix reader_suffix reader_no_ext b nm spec_tables_inverse NE). Qed.
Print Assumptions c03_entry_roundtrip.

(* the files written for a delta read back as exactly that delta: hence an environment that is
   written and read applies identically for every scope and starting environment *)
Theorem c03_layout_roundtrip :
  forall d, delta_wf d -> delta_names_nonempty d ->
    parse_files reader_suffix reader_no_ext (delta_files beh_order writer_suffix d) delta_empty = d.
Proof. exact (layout_roundtrip writer_suffix reader_suffix reader_no_ext spec_tables_inverse). Qed.
Print Assumptions c03_layout_roundtrip.

(* suffix-less files read as override, unknown suffixes are ignored *)
Theorem c03_read_rules :
  (forall nm, ~ In 46 nm -> nm <> [] -> entry_behaviour reader_suffix reader_no_ext nm = (nm, Some Override)) /\
  (forall nm x, nm <> [] -> x <> [] -> ~ In 46 x -> reader_beh_of reader_suffix x = None ->
                entry_behaviour reader_suffix reader_no_ext (nm ++ 46 :: x) = (nm, None)).
Proof.
  split.
  - intros nm N NE. unfold entry_behaviour, split_ext.
    assert (D : beq nm dotdot = false).
    { apply beq_neq. intros ->. apply N. now left. }
    rewrite D.
    assert (H : split_last_dot nm = None).
    { clear -N. induction nm as [|x nm IH]; [reflexivity|]. cbn [split_last_dot].
      rewrite IH by (intro I; apply N; now right).
      destruct (N.eqb_spec x 46) as [->|?]; [exfalso; apply N; now left|reflexivity]. }
    now rewrite H.
  - intros nm x NE XE N R. unfold entry_behaviour. rewrite split_suffix by assumption. now rewrite R.
Qed.
Print Assumptions c03_read_rules.

(* FS level, one env directory (env, env.build or env.launch of a layer): inside a real, searchable,
   writable layer directory of a parent-closed file system, whatever the env directory held before
   (absent, or any tree remove_dir_all can traverse), a write succeeds and afterwards the paths at
   and below it are EXACTLY the directory plus one 0644 file per delta entry -- nothing when the
   delta is empty -- and nothing outside it changed *)
Theorem c03_env_dir_exact :
  forall d dir nm s,
    simple_dir s dir -> parent_closed s -> valid_name nm = true -> files_ok beh_order writer_suffix d ->
    (pget (dir ++ [nm]) s = None \/ exists m, pget (dir ++ [nm]) s = Some (Dir m) /\ subtree_rwx (dir ++ [nm]) s = true) ->
    exists s', write_env_dir beh_order writer_suffix d (dir ++ [nm]) s = (s', Ok tt) /\
               (forall q, is_prefix (dir ++ [nm]) q = false -> pget q s' = pget q s) /\
               (forall q, is_prefix (dir ++ [nm]) q = true -> pget q s' = env_dir_spec beh_order writer_suffix d (dir ++ [nm]) q).
Proof. exact (write_env_dir_exact beh_order writer_suffix). Qed.
Print Assumptions c03_env_dir_exact.

(* overwrite: the result below the env directory depends on the delta alone *)
Theorem c03_env_dir_overwrites :
  forall d dir nm sa sb,
    simple_dir sa dir -> parent_closed sa -> simple_dir sb dir -> parent_closed sb -> valid_name nm = true ->
    files_ok beh_order writer_suffix d ->
    (pget (dir ++ [nm]) sa = None \/ exists m, pget (dir ++ [nm]) sa = Some (Dir m) /\ subtree_rwx (dir ++ [nm]) sa = true) ->
    (pget (dir ++ [nm]) sb = None \/ exists m, pget (dir ++ [nm]) sb = Some (Dir m) /\ subtree_rwx (dir ++ [nm]) sb = true) ->
    exists sa' sb', write_env_dir beh_order writer_suffix d (dir ++ [nm]) sa = (sa', Ok tt) /\
                    write_env_dir beh_order writer_suffix d (dir ++ [nm]) sb = (sb', Ok tt) /\
                    forall q, is_prefix (dir ++ [nm]) q = true -> pget q sa' = pget q sb'.
Proof. exact (write_env_dir_overwrites beh_order writer_suffix). Qed.
Print Assumptions c03_env_dir_overwrites.

(* the whole of LayerEnv::write_to_layer_dir for environments without per-process entries: from any
   state satisfying the representation invariants in which each env root is absent or a tree
   remove_dir_all can traverse, the call succeeds, keeps the invariants, and EVERY path of the file
   system is determined: below env / env.build / env.launch exactly the CNB layout of the
   respective delta (nothing for an empty delta -- stale directories of emptied scopes vanish),
   everything else unchanged.  The result does not mention the old contents of the three roots:
   that is the overwrite property. *)
Theorem c03_write_to_layer_dir_exact :
  forall e dir s,
    fs_inv s dir -> process_free e ->
    files_ok beh_order writer_suffix (le_all e) -> files_ok beh_order writer_suffix (le_build e) ->
    files_ok beh_order writer_suffix (le_launch e) ->
    root_ok s (dir ++ [n_env]) -> root_ok s (dir ++ [n_env_build]) -> root_ok s (dir ++ [n_env_launch]) ->
    exists s', write_to_layer_dir beh_order writer_suffix e dir s = (s', Ok tt) /\ fs_inv s' dir /\
      forall q,
        pget q s' =
        if is_prefix (dir ++ [n_env]) q then env_dir_spec beh_order writer_suffix (le_all e) (dir ++ [n_env]) q
        else if is_prefix (dir ++ [n_env_build]) q then env_dir_spec beh_order writer_suffix (le_build e) (dir ++ [n_env_build]) q
        else if is_prefix (dir ++ [n_env_launch]) q then env_dir_spec beh_order writer_suffix (le_launch e) (dir ++ [n_env_launch]) q
        else pget q s.
Proof. exact (write_to_layer_dir_exact beh_order writer_suffix). Qed.
Print Assumptions c03_write_to_layer_dir_exact.

(* Outside the theorems (decided on implementation snapshots by the verified judgement
   layout_exact / frame_chk of Checks/C03Hold.v and by the correspondence): file systems that break
   the representation invariants (symlinks or unreadable directories inside the layer's env
   directories, a process name equal to a launch file name). *)

Example c03_nonvacuous :
  let d := dinsert Append [65; 46; 66] [1] (dinsert Override [255] [0; 10] (dinsert Delim [65; 46; 66] [58] delta_empty)) in
  delta_wf d /\ delta_names_nonempty d /\
  delta_files beh_order writer_suffix d =
    [ ([65; 46; 66; 46; 97; 112; 112; 101; 110; 100], [1]); ([65; 46; 66; 46; 100; 101; 108; 105; 109], [58]);
      ([255; 46; 111; 118; 101; 114; 114; 105; 100; 101], [0; 10]) ].
Proof.
  cbn zeta. split; [repeat apply dinsert_wf; apply delta_empty_wf|]. split.
  - repeat split; intros k v I; cbn in I; intuition congruence.
  - reflexivity.
Qed.

(* ---------- reading back, at file-system level ---------- *)
Lemma gen_tables_inverse : tables_inverse writer_suffix reader_suffix.
Proof. exact spec_tables_inverse. Qed.

(* one env directory that holds what the writer leaves for d reads back as d -- the listing comes
   back sorted by file name, unrelated to the order of writing; parse_files is shown to depend on
   the SET of files only *)
Theorem c03_read_env_dir_exact :
  forall d p s,
    simple_dir s p -> delta_wf d -> delta_names_nonempty d -> files_ok beh_order writer_suffix d ->
    delta_is_empty d = false ->
    (forall q, is_prefix p q = true -> pget q s = env_dir_spec beh_order writer_suffix d p q) ->
    read_from_env_dir reader_suffix reader_no_ext reads_process p s = (s, Ok d).
Proof. exact (read_env_dir_exact writer_suffix reader_suffix reader_no_ext reads_process gen_tables_inverse). Qed.
Print Assumptions c03_read_env_dir_exact.

(* the whole layer, environments without per-process entries: from any state satisfying the
   representation invariants, write_to_layer_dir succeeds and read_from_layer_dir on the result
   returns the three deltas exactly as written, no process deltas, and the implicit layer paths of
   the layer's bin/lib/include/pkgconfig (C10) -- hence it applies identically for every scope and
   starting environment *)
Theorem c03_write_then_read :
  forall e dir s,
    fs_inv s dir -> env_ok writer_suffix e ->
    root_ok s (dir ++ [n_env]) -> root_ok s (dir ++ [n_env_build]) -> root_ok s (dir ++ [n_env_launch]) ->
    exists s', write_to_layer_dir beh_order writer_suffix e dir s = (s', Ok tt) /\ fs_inv s' dir /\
               layer_written writer_suffix e dir s' /\
               read_from_layer_dir reader_suffix reader_no_ext layer_path_specs path_list_separator reads_process dir s' =
                 (s', Ok (read_result layer_path_specs path_list_separator e dir s')).
Proof. exact (write_then_read writer_suffix reader_suffix reader_no_ext layer_path_specs path_list_separator reads_process gen_tables_inverse). Qed.
Print Assumptions c03_write_then_read.

(* one per-process directory env.launch/<process>: written after env.launch; when the launch delta
   was empty env.launch does not exist and std::fs::create_dir_all creates it on the way (two
   levels).  The effect on EVERY path is proc_step: nothing for an empty delta; otherwise the
   process directory holds exactly the CNB layout of the delta, env.launch is a directory, and
   everything else is as before. *)
Theorem c03_proc_dir_exact :
  forall dir pn pd s,
    let L := dir ++ [n_env_launch] in
    fs_inv s dir -> valid_name pn = true -> files_ok beh_order writer_suffix pd ->
    launch_state s L -> pget (L ++ [pn]) s = None ->
    exists s', write_env_dir beh_order writer_suffix pd (dir ++ [n_env_launch; pn]) s = (s', Ok tt) /\ fs_inv s' dir /\
               launch_state s' L /\
               forall q, pget q s' = proc_step beh_order writer_suffix L (fun q => pget q s) (pn, pd) q.
Proof. exact (write_proc_dir beh_order writer_suffix). Qed.
Print Assumptions c03_proc_dir_exact.

(* EVERY environment, per-process entries included: after write_to_layer_dir every path of the
   file system is determined -- env and env.build as above; below env.launch the launch delta's
   files, one directory per process with a non-empty delta holding exactly that delta's files,
   env.launch itself present as soon as anything is below it (launch_spec); the rest unchanged.
   Hypotheses beyond the representation invariants: process names are valid path components,
   pairwise distinct, and differ from the launch delta's file names (a process called
   "X.override" beside a launch entry X/override shares one path; the real call then fails with
   ENOTDIR -- recorded as an observation in DESIGN.md). *)
Theorem c03_write_to_layer_dir_full :
  forall e dir s,
    let L := dir ++ [n_env_launch] in
    fs_inv s dir ->
    files_ok beh_order writer_suffix (le_all e) -> files_ok beh_order writer_suffix (le_build e) ->
    files_ok beh_order writer_suffix (le_launch e) ->
    procs_ok beh_order writer_suffix (le_launch e) (le_process e) ->
    root_ok s (dir ++ [n_env]) -> root_ok s (dir ++ [n_env_build]) -> root_ok s L ->
    exists s', write_to_layer_dir beh_order writer_suffix e dir s = (s', Ok tt) /\ fs_inv s' dir /\
      forall q,
        pget q s' =
        if is_prefix (dir ++ [n_env]) q then env_dir_spec beh_order writer_suffix (le_all e) (dir ++ [n_env]) q
        else if is_prefix (dir ++ [n_env_build]) q then env_dir_spec beh_order writer_suffix (le_build e) (dir ++ [n_env_build]) q
        else if is_prefix L q then launch_spec beh_order writer_suffix (le_launch e) (le_process e) L q
        else pget q s.
Proof. exact (write_to_layer_dir_full beh_order writer_suffix). Qed.
Print Assumptions c03_write_to_layer_dir_full.

(* ... and reads back: the three deltas and every non-empty per-process delta exactly as written
   (an empty process delta has no representation on disk and applies as the identity), plus the
   implicit layer paths *)
Theorem c03_write_then_read_full :
  forall e dir s,
    fs_inv s dir -> env_ok_full writer_suffix e ->
    root_ok s (dir ++ [n_env]) -> root_ok s (dir ++ [n_env_build]) -> root_ok s (dir ++ [n_env_launch]) ->
    exists s', write_to_layer_dir beh_order writer_suffix e dir s = (s', Ok tt) /\ fs_inv s' dir /\
               layer_written_full writer_suffix e dir s' /\
               read_from_layer_dir reader_suffix reader_no_ext layer_path_specs path_list_separator reads_process dir s' =
                 (s', Ok (read_result_full layer_path_specs path_list_separator e dir s')).
Proof. exact (write_then_read_full writer_suffix reader_suffix reader_no_ext layer_path_specs path_list_separator reads_process gen_tables_inverse eq_refl). Qed.
Print Assumptions c03_write_then_read_full.

(* "reads back unchanged" in the sense the property asks for: after write_to_layer_dir, the environment
   read_from_layer_dir returns APPLIES, for every scope and every starting environment, exactly as the
   written environment does (with the implicit layer paths of the directories now on disk).  The two
   values can differ in one respect only -- process deltas without entries have no representation
   on disk -- and apply cannot see it. *)
Theorem c03_roundtrip_applies_identically :
  forall e dir s,
    fs_inv s dir -> env_ok_full writer_suffix e ->
    root_ok s (dir ++ [n_env]) -> root_ok s (dir ++ [n_env_build]) -> root_ok s (dir ++ [n_env_launch]) ->
    exists s' e',
      write_to_layer_dir beh_order writer_suffix e dir s = (s', Ok tt) /\
      read_from_layer_dir reader_suffix reader_no_ext layer_path_specs path_list_separator reads_process dir s' = (s', Ok e') /\
      forall sc e0,
        le_apply beh_order scope_fields e' sc e0 =
        le_apply beh_order scope_fields
          (mkLE (le_all e) (le_build e) (le_launch e) (le_process e)
                (le_paths_build (read_layer_paths layer_path_specs path_list_separator dir s'))
                (le_paths_launch (read_layer_paths layer_path_specs path_list_separator dir s'))) sc e0.
Proof.
  intros e dir s I0 OK RA RB RL.
  destruct (c03_write_then_read_full e dir s I0 OK RA RB RL) as (s' & EW & _ & _ & ER).
  exists s', (read_result_full layer_path_specs path_list_separator e dir s').
  split; [exact EW|]. split; [exact ER|]. intros sc e0.
  destruct OK as (_ & _ & _ & (PND & _) & _ & _).
  exact (filter_empty_procs_invisible beh_order scope_fields _ _ _ (le_process e) _ _ sc e0 PND).
Qed.
Print Assumptions c03_roundtrip_applies_identically.

(* std::fs::read_dir lists a directory in no particular order (FS.readdir lists sorted): with the
   listing order as an explicit oracle -- ANY function giving some permutation of each directory's
   entries -- the reader returns the same environment on a written layer.  The listing order is
   thereby not part of the trusted base for writer-shaped layers. *)
Theorem c03_read_any_listing_order :
  forall e dir s ord,
    simple_dir s dir -> parent_closed s -> env_ok_full writer_suffix e -> layer_written_full writer_suffix e dir s ->
    listing_ok ord s ->
    read_from_layer_dir_ord reader_suffix reader_no_ext layer_path_specs path_list_separator reads_process ord dir s =
      (s, Ok (read_result_full layer_path_specs path_list_separator e dir s)).
Proof. exact (read_any_order writer_suffix reader_suffix reader_no_ext layer_path_specs path_list_separator reads_process gen_tables_inverse eq_refl). Qed.
Print Assumptions c03_read_any_listing_order.

(* the hypotheses are satisfiable: a layer directory /l, an environment with entries in all three
   scopes (dotted and non-UTF-8 names), written and read back *)
Definition ex_fs : fs := [([], Dir mode_dir_default); ([[108]], Dir mode_dir_default)].
Definition ex_env : layer_env :=
  mkLE (dinsert Append [65; 46; 66] [1] (dinsert Delim [65; 46; 66] [58] delta_empty))
       (dinsert Override [255] [0; 10] delta_empty)
       (dinsert Default [80] [] delta_empty) [] delta_empty delta_empty.

Lemma ex_fs_inv : fs_inv ex_fs [[108]].
Proof.
  constructor.
  - constructor.
    + repeat constructor.
    + intros k Hk. destruct k as [|[|k]]; cbn in Hk; [| |lia]; exists mode_dir_default; split; reflexivity.
    + exists mode_dir_default. repeat split; reflexivity.
  - intros q n H. apply in_keys_pget in H. cbn in H. destruct H as [H|[H|[]]].
    + destruct q; discriminate.
    + destruct q as [|a [|b q]]; try discriminate. exists mode_dir_default. reflexivity.
  - unfold fs_nodup. cbn. repeat constructor; cbn; intuition discriminate.
Qed.

Lemma ex_env_ok : env_ok writer_suffix ex_env.
Proof.
  split; [reflexivity|].
  assert (K : forall d, delta_wf d -> delta_names_nonempty d ->
              NoDup (map fst (delta_files spec_beh_order writer_suffix d)) ->
              Forall (fun f => valid_name (fst f) = true) (delta_files spec_beh_order writer_suffix d) ->
              delta_ok writer_suffix d).
  { intros d W N A B. split; [exact W|]. split; [exact N|]. split; assumption. }
  split; [|split]; apply K.
  - repeat apply dinsert_wf; apply delta_empty_wf.
  - repeat split; intros k v I; cbn in I; intuition congruence.
  - cbn. repeat constructor; cbn; intuition discriminate.
  - cbn. repeat constructor.
  - repeat apply dinsert_wf; apply delta_empty_wf.
  - repeat split; intros k v I; cbn in I; intuition congruence.
  - cbn. repeat constructor; cbn; intuition discriminate.
  - cbn. repeat constructor.
  - repeat apply dinsert_wf; apply delta_empty_wf.
  - repeat split; intros k v I; cbn in I; intuition congruence.
  - cbn. repeat constructor; cbn; intuition discriminate.
  - cbn. repeat constructor.
Qed.

Definition ex_env_proc : layer_env :=
  mkLE (le_all ex_env) (le_build ex_env) delta_empty
       [([119; 101; 98], dinsert Override [80] [56; 48] delta_empty)] delta_empty delta_empty.   (* process "web": P=80 *)

Lemma ex_env_proc_ok : env_ok_full writer_suffix ex_env_proc.
Proof.
  destruct ex_env_ok as (_ & OA & OB & _).
  set (pd0 := dinsert Override [80] [56; 48] delta_empty).
  assert (Wf : delta_wf pd0) by (apply dinsert_wf, delta_empty_wf).
  assert (Nn : delta_names_nonempty pd0) by (repeat split; intros k v I; cbn in I; intuition congruence).
  assert (Fo : files_ok beh_order writer_suffix pd0) by (split; cbn; repeat constructor; cbn; intuition discriminate).
  split; [exact OA|]. split; [exact OB|]. split.
  { split; [apply delta_empty_wf|]. split; [repeat split; intros k v []|]. split; [constructor|constructor]. }
  split.
  { split; [cbn; repeat constructor; cbn; intuition|].
    intros pn pd [E|[]]. inversion E; subst pn pd. split; [reflexivity|]. split; [exact Fo|]. intros f []. }
  split.
  { intros pn pd [E|[]]. inversion E; subst pn pd. split; [exact Wf|exact Nn]. }
  cbn. split; [intros ? ? []|exact I].
Qed.

(* env.launch does not exist before (empty launch delta): create_dir_all creates it for the process *)
Example c03_proc_nonvacuous :
  exists s', write_to_layer_dir beh_order writer_suffix ex_env_proc [[108]] ex_fs = (s', Ok tt) /\
             layer_written_full writer_suffix ex_env_proc [[108]] s' /\
             pget [[108]; n_env_launch] s' = Some (Dir mode_dir_default) /\
             pget [[108]; n_env_launch; [119; 101; 98]; [80; 46; 111; 118; 101; 114; 114; 105; 100; 101]] s' =
               Some (File mode_file_default (Raw [56; 48])).
Proof.
  destruct (c03_write_then_read_full ex_env_proc [[108]] ex_fs ex_fs_inv ex_env_proc_ok) as (s' & E & _ & W & _); try (left; reflexivity).
  exists s'. split; [exact E|]. split; [exact W|].
  vm_compute in E. inversion E; subst s'. split; reflexivity.
Qed.

Example c03_fs_nonvacuous :
  exists s', write_to_layer_dir beh_order writer_suffix ex_env [[108]] ex_fs = (s', Ok tt) /\
             layer_written writer_suffix ex_env [[108]] s' /\
             pget [[108]; n_env; [65; 46; 66; 46; 97; 112; 112; 101; 110; 100]] s' = Some (File mode_file_default (Raw [1])) /\
             pget [[108]; n_env_build; [255; 46; 111; 118; 101; 114; 114; 105; 100; 101]] s' = Some (File mode_file_default (Raw [0; 10])).
Proof.
  destruct (c03_write_then_read ex_env [[108]] ex_fs ex_fs_inv ex_env_ok) as (s' & E & _ & W & _); try (left; reflexivity).
  exists s'. split; [exact E|]. split; [exact W|].
  vm_compute in E. inversion E; subst s'. split; reflexivity.
Qed.
