(* Props/C13.v -- property theorems for C13 only. *)
From LV Require Import DepGraph DepGraphFacts.
From LVGen Require Import GenDepGraph.
From LV.Checks Require Import C13Hold C13LtHold.
From LV Require Import C13LtFacts.

(* structural facts the translator reads off dependency_graph.rs *)
Theorem c13_tables :
  traversal_is_dfs_post_order = true /\ dfs_shared_across_roots = true /\ root_loop_shape_ok = true /\
  missing_dependency_is_error = true /\ edge_from_node_to_dependency = true /\
  dependency_lookup_first_match = true.
Proof. repeat split; reflexivity. Qed.
Print Assumptions c13_tables.

(* exact set, no duplicates, every buildpack after all its dependencies *)
Theorem c13_deps_first :
  forall (g : graph) (roots out : list nat),
    acyclic g -> get_dependencies g roots = Some out ->
    NoDup out /\ (forall x, In x out <-> reachable_from g roots x) /\
    (forall u v, In u out -> edge g u v -> before v u out).
Proof. exact deps_first. Qed.
Print Assumptions c13_deps_first.

(* the fuel of the model is never exhausted on a well-formed graph: the [Some] hypothesis above
   is not vacuous and the traversal terminates *)
Theorem c13_fuel_enough :
  forall g roots, graph_valid g -> (forall r, In r roots -> r < length g) ->
    get_dependencies g roots <> None.
Proof. exact fuel_enough. Qed.
Print Assumptions c13_fuel_enough.

Theorem c13_missing_is_error :
  forall nodes,
    (exists d, create_graph nodes = CgMissing d) <->
    (exists n deps d, In (n, deps) nodes /\ In d deps /\ ~ In d (map fst nodes)).
Proof. exact missing_is_error. Qed.
Print Assumptions c13_missing_is_error.

Theorem c13_graph_edges :
  forall nodes g, create_graph nodes = CgOk g ->
    length g = length nodes /\
    forall i n deps, nth_error nodes i = Some (n, deps) ->
      forall j, edge g i j <-> exists d, In d deps /\ find_index (map fst nodes) d 0 = Some j.
Proof. exact create_graph_edges. Qed.
Print Assumptions c13_graph_edges.

Theorem c13_oracle_correct :
  forall g roots o, chk_order g roots o = true <-> order_spec g roots o.
Proof. exact chk_order_correct. Qed.
Print Assumptions c13_oracle_correct.

(* Non-vacuity: a diamond with a shared dependency and two roots. *)
Example c13_nonvacuous :
  let g := [[1; 2]; [3]; [3]; []] in
  acyclic g /\ graph_valid g /\
  get_dependencies g [1; 0] = Some [3; 1; 2; 0] /\ chk_order g [1; 0] [3; 1; 2; 0] = true.
Proof.
  cbn zeta. split; [|split].
  - exists (fun n => 4 - n). intros u v E. unfold edge, succs in E.
    do 4 (destruct u as [|u]; [cbn in E; intuition lia|]). destruct u; destruct E.
  - intros u v E. unfold edge, succs in E.
    do 4 (destruct u as [|u]; [cbn in E; cbn; intuition lia|]). destruct u; destruct E.
  - split; reflexivity.
Qed.

(* the libcnb-test route (TestRunner::build with WorkspaceBuildpack / CurrentCrate): an observation the
   C13LT stream accepts reached `pack build` with the selected buildpack, and what was packaged is
   exactly what is reachable from the selection *)
Theorem c13_lt_oracle_sound :
  forall c g rs out,
    create_graph (l_nodes c) = CgOk g ->
    resolve_roots (map fst (l_nodes c)) [l_root c] = Some rs ->
    acyclic g -> get_dependencies g rs = Some out ->
    C13LtHold.holds c = true ->
    l_ok c = true /\ l_chosen c = Some (l_root c) /\
    forall x, In x (l_packaged c) <->
              exists i, reachable_from g rs i /\ nth i (map fst (l_nodes c)) 0 = x.
Proof. exact lt_oracle_sound. Qed.
Print Assumptions c13_lt_oracle_sound.

Theorem c13_lt_oracle_error :
  forall c, C13LtHold.holds c = true -> l_ok c = false ->
    (exists d, create_graph (l_nodes c) = CgMissing d) \/
    resolve_roots (map fst (l_nodes c)) [l_root c] = None \/
    (exists g rs, create_graph (l_nodes c) = CgOk g /\ resolve_roots (map fst (l_nodes c)) [l_root c] = Some rs /\
                  get_dependencies g rs = None).
Proof. exact lt_oracle_error. Qed.
Print Assumptions c13_lt_oracle_error.
