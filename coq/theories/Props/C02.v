(* Props/C02.v -- property theorems for C02 only. *)
From LV Require Import Base Toml FS LayerEnv LayerShared LayerEnvFS SpecDocs LayerStore LayerStoreSpec LayerStoreFacts LayerTrait LayerTraitFacts.
From LV.Checks Require C02Hold.
From LVGen Require Import GenLayerShared GenLayerEnv.
From Coq Require Import String.
Open Scope string_scope.
Open Scope N_scope.
Open Scope list_scope.

Definition g_handle :=
  t_handle delete_layer_removes_sboms trait_keep_refreshes_only sbom_suffixes beh_order writer_suffix reader_suffix reader_no_ext layer_path_specs
           path_list_separator reads_process.

(* the judgement's callback specification is the theorem's *)
Theorem c02_tables : trait_keep_refreshes_only = true /\ trait_dispatch_shape_ok = true /\ trait_keep_rereads = true /\ delete_layer_removes_sboms = true.
Proof. repeat split; reflexivity. Qed.
Print Assumptions c02_tables.

Theorem c02_spec_same : forall L cls, C02Hold.spec_tcalls L cls = spec_tcalls L cls.
Proof. intros L [|x|gx|]; reflexivity. Qed.
Print Assumptions c02_spec_same.

(* which callbacks run, from every state of the layers directory: exactly those the classification
   of the layer and the decisions call for *)
Theorem c02_callbacks_exact :
  forall f L n st st' calls r, mig_valid L -> g_handle (S f) L n st = (st', calls, r) -> ok_or_bp r ->
    calls = spec_tcalls L (classify_pre (tl_m L) (lget n st)).
Proof. intros f L n st st' calls r. apply t_handle_calls. Qed.
Print Assumptions c02_callbacks_exact.

Theorem c02_once_and_from_empty :
  forall f L n st st' calls r, mig_valid L -> g_handle (S f) L n st = (st', calls, r) -> ok_or_bp r ->
    (count_create calls <= 1)%nat /\ (count_update calls <= 1)%nat /\ (forall fl, In (TCreate fl) calls -> fl = true).
Proof. intros f L n st st' calls r. apply callbacks_at_most_once. Qed.
Print Assumptions c02_once_and_from_empty.

(* the returned layer data is what is on disk, and the content metadata declares the layer's types *)
Theorem c02_returned_is_on_disk :
  forall fuel L n st st' calls data, g_handle fuel L n st = (st', calls, Ok data) ->
    on_disk reader_suffix reader_no_ext layer_path_specs path_list_separator reads_process L n st' data.
Proof. intros fuel L n st st' calls data. apply t_handle_on_disk. Qed.
Print Assumptions c02_returned_is_on_disk.

(* other layers are untouched, whatever happens *)
Theorem c02_frame :
  forall fuel L n st st' calls r, g_handle fuel L n st = (st', calls, r) -> forall n', n' <> n -> lget n' st' = lget n' st.
Proof. intros fuel L n st st' calls r H. exact (t_handle_frame _ _ _ _ _ _ _ _ _ _ fuel L n st st' calls r H). Qed.
Print Assumptions c02_frame.

(* Keep: directory, SBOMs and metadata (also the keys the metadata type does not know) stay as they are *)
Theorem c02_keep_is_identity :
  forall fuel L n st st' calls data x,
    tl_strategy L = DKeep -> classify_pre (tl_m L) (lget n st) = PValid x -> g_handle fuel L n st = (st', calls, Ok data) ->
    d_md data = x /\ l_dir (lget n st') = l_dir (lget n st) /\ l_sboms (lget n st') = l_sboms (lget n st).
Proof. intros fuel L n st st' calls data x. apply keep_is_identity. reflexivity. Qed.
Print Assumptions c02_keep_is_identity.

(* F9: re-serialising the metadata through the typed value loses unknown keys *)
Theorem c02_legacy_keep_refuted :
  let run ko := t_handle true ko spec_sbom_suffixes spec_beh_order spec_writer_table spec_reader_table spec_no_ext
                         spec_layer_paths spec_sep true 3 f9_layer [97] f9_store in
  (match run false with (_, _, Ok d) => d_md d = Some [(k_version, TStr [49])] | _ => False end) /\
  (match run true with (_, _, Ok d) => d_md d = Some [(k_version, TStr [49]); ([107], TStr [118])] | _ => False end).
Proof. exact legacy_keep_drops_keys. Qed.
Print Assumptions c02_legacy_keep_refuted.

(* the metadata after create / update is the callback's *)
Theorem c02_create_persists :
  forall L n st st' calls data,
    t_create sbom_suffixes beh_order writer_suffix reader_suffix reader_no_ext layer_path_specs path_list_separator reads_process
             L n st = (st', calls, Ok data) ->
    exists r, tl_create L = COk r /\ d_md data = r_md r.
Proof. intros L n st st' calls data H. eapply t_create_on_disk. exact H. Qed.
Print Assumptions c02_create_persists.

Theorem c02_update_persists :
  forall L n x st st' calls data,
    t_update sbom_suffixes beh_order writer_suffix reader_suffix reader_no_ext layer_path_specs path_list_separator reads_process
             L n x st = (st', calls, Ok data) ->
    exists r, tl_update L = COk r /\ d_md data = r_md r.
Proof. intros L n x st st' calls data H. eapply t_update_on_disk. exact H. Qed.
Print Assumptions c02_update_persists.

(* non-vacuity: create, restore, keep *)
Example c02_nonvacuous :
  let res := mkRes (Some [(k_version, TStr [49])]) (Some [(SAll, Override, b "X", b "1")]) [] [(0%nat, [1])] [([b "f"], [2])] in
  let L := mkTL (mkT true false true) MV DKeep GRecreate (COk res) CErr in
  let '(st1, c1, r1) := g_handle 3 L (b "a") [] in
  let '(st2, c2, r2) := g_handle 3 L (b "a") (restore st1) in
  c1 = [TCreate true] /\ c2 = [TStrategy (Some [(k_version, TStr [49])])] /\
  match r2 with Ok d => d_md d = Some [(k_version, TStr [49])] | Err _ => False end /\
  l_sboms (lget (b "a") st2) = [(b "cdx.json", [1])].
Proof. vm_compute. repeat split. Qed.
