(* Props/C07.v -- property theorems for C07 only. *)
From LV Require Import Base Toml Serde SerdeFacts SpecDocs Builders BuildersFacts.
From LVGen Require Import GenSerde.
From Coq Require Import String.
Open Scope string_scope.
Open Scope list_scope.

Theorem c07_tables :
  s_BuildPlan = ser_BuildPlan /\ s_Launch = spec_Launch /\
  s_LayerContentMetadata (TyOption TyTable) = spec_LayerContentMetadata spec_metadata /\
  s_Store = spec_Store /\ s_PackageDescriptor = spec_PackageDescriptor /\ working_directory_shape_ok = true.
Proof. repeat split; reflexivity. Qed.
Print Assumptions c07_tables.

(* BuildPlanBuilder: for EVERY call sequence the text decodes, under an independent reader, to the
   call sequence split at each `or` -- first group top level, the rest under `or`, empty groups
   preserved, metadata tables intact *)
Theorem c07_build_plan :
  forall calls,
    exists t, encode s_BuildPlan (v_build_plan (bp_build calls)) = Some t /\
              read_build_plan t = Some (intended_groups calls).
Proof.
  intros calls. rewrite bp_build_intended. exists (t_build_plan (intended_groups calls)).
  split; [apply enc_build_plan|apply read_written_build_plan]; apply split_or_nonempty.
Qed.
Print Assumptions c07_build_plan.

(* LaunchBuilder / ProcessBuilder: the built value is the declaratively intended one *)
Theorem c07_launch_builder : forall calls, build_launch calls = intended_launch calls.
Proof. exact build_launch_intended. Qed.
Print Assumptions c07_launch_builder.

(* Serialize then Deserialize is the identity -- generic over every round-trippable schema and
   every well-typed value; instantiated below for the types libcnb can read back *)
Theorem c07_roundtrip_generic :
  forall vf sq t x v, rt_ok t = true -> has_type vf t x = true -> encode t x = Some v -> decode vf sq t v = Some x.
Proof. exact roundtrip. Qed.
Print Assumptions c07_roundtrip_generic.

Theorem c07_roundtrip_types :
  rt_ok s_Launch = true /\ rt_ok (s_LayerContentMetadata (TyOption TyTable)) = true /\
  rt_ok s_Store = true /\ rt_ok s_PackageDescriptor = true /\
  skip_consistent s_Launch = true /\ skip_consistent s_PackageDescriptor = true.
Proof. repeat split; reflexivity. Qed.
Print Assumptions c07_roundtrip_types.

(* launch.toml: whatever was built reads back, by the spec's reader, as exactly the intended
   processes (type, command, args, default flag, working directory), labels and slices *)
Theorem c07_launch :
  forall calls t, has_type spec_vf s_Launch (v_launch (build_launch calls)) = true ->
    encode s_Launch (v_launch (build_launch calls)) = Some t ->
    decode spec_vf false spec_Launch t = Some (v_launch (intended_launch calls)).
Proof.
  intros calls t HT E. rewrite <- build_launch_intended.
  change spec_Launch with s_Launch. apply roundtrip; [reflexivity|exact HT|exact E].
Qed.
Print Assumptions c07_launch.

Example c07_nonvacuous :
  bp_build [CProvides [97]; COr; COr; CRequires [98] [(b "k", TInt 1)]] =
    [([[97]], []); ([], []); ([], [([98], [(b "k", TInt 1)])])] /\
  encode s_BuildPlan (v_build_plan (bp_build [CProvides [97]; COr; COr; CRequires [98] []])) =
    Some (TTbl [(b "provides", TArr [TTbl [(b "name", TStr [97])]]);
                (b "or", TArr [TTbl []; TTbl [(b "requires", TArr [TTbl [(b "name", TStr [98]); (b "metadata", TTbl [])]])]])]).
Proof. vm_compute. split; reflexivity. Qed.
