(* Props/C20.v -- property theorems for C20 only. *)
From LV Require Import Base FS FSFacts LayerShared Determinism LayerEnv LayerEnvFS LayerEnvFSExact FSInv LayerEnvFSCompose LayerEnvFSProc LayerEnvFSFull LayerEnvFSDet.
From LVGen Require Import GenLayerEnv.
From LV.Checks Require Import C20Hold C20Agree.
From Coq Require Import Permutation.
Open Scope N_scope.

(* the order-, time- and randomness-sensitive constructs of libcnb / libcnb-data / libcnb-common
   are exactly the reviewed ones: two loops over HashMaps, no clock, no random source *)
Theorem c20_inventory : C20Agree.inventory_ok = true.
Proof. vm_compute. reflexivity. Qed.
Print Assumptions c20_inventory.

(* writes to pairwise distinct paths commute: any iteration order leaves the same file system
   (per-process env directories, SBOM files per format, exec.d entries) *)
Theorem c20_writes_order_irrelevant :
  forall l l' s, NoDup (map fst l) -> Permutation l l' -> fs_equiv (apply_writes l s) (apply_writes l' s).
Proof. exact writes_order_irrelevant. Qed.
Print Assumptions c20_writes_order_irrelevant.

(* the exec.d copy loop on FS.v's fs::write / chmod: for every permutation of the programs *)
Theorem c20_copy_loop_order_irrelevant :
  forall d progs progs' s,
    simple_dir s d -> NoDup (map fst progs) -> Forall (fun p => valid_name (fst p) = true) progs ->
    (forall p, In p progs -> pget (d ++ [fst p]) s = None) -> Permutation progs progs' ->
    exists s1 s2, iterM (copy_into d) progs s = (s1, Ok tt) /\ iterM (copy_into d) progs' s = (s2, Ok tt) /\ fs_equiv s1 s2.
Proof. exact copy_loop_order_irrelevant. Qed.
Print Assumptions c20_copy_loop_order_irrelevant.

Theorem c20_copy_loop_is_writes :
  forall d progs s,
    simple_dir s d -> NoDup (map fst progs) -> Forall (fun p => valid_name (fst p) = true) progs ->
    (forall p, In p progs -> pget (d ++ [fst p]) s = None) ->
    exists s', iterM (copy_into d) progs s = (s', Ok tt) /\ fs_equiv s' (apply_writes (copy_writes d progs) s).
Proof. exact copy_loop_is_writes. Qed.
Print Assumptions c20_copy_loop_is_writes.

(* environment files: the per-process deltas of a LayerEnv live in a HashMap; whatever order they are
   written in, LayerEnv::write_to_layer_dir leaves the same file system (every path equal) *)
Theorem c20_env_process_order_irrelevant :
  forall e e' dir s,
    le_all e' = le_all e -> le_build e' = le_build e -> le_launch e' = le_launch e ->
    Permutation (le_process e) (le_process e') ->
    fs_inv s dir ->
    files_ok beh_order writer_suffix (le_all e) -> files_ok beh_order writer_suffix (le_build e) ->
    files_ok beh_order writer_suffix (le_launch e) ->
    procs_ok beh_order writer_suffix (le_launch e) (le_process e) ->
    root_ok s (dir ++ [n_env]) -> root_ok s (dir ++ [n_env_build]) -> root_ok s (dir ++ [n_env_launch]) ->
    exists s1 s2, write_to_layer_dir beh_order writer_suffix e dir s = (s1, Ok tt) /\
                  write_to_layer_dir beh_order writer_suffix e' dir s = (s2, Ok tt) /\
                  forall q, pget q s1 = pget q s2.
Proof. exact (write_process_order_irrelevant beh_order writer_suffix). Qed.
Print Assumptions c20_env_process_order_irrelevant.

(* non-vacuity: an exec.d directory and two programs meet the hypotheses *)
Example c20_nonvacuous :
  let s : fs := [([], Dir 493); ([[101]], Dir 493)] in
  simple_dir s [[101]] /\ pget [[101]; [97]] s = None /\ valid_name [97] = true.
Proof.
  cbv zeta. split; [|split; reflexivity].
  constructor.
  - constructor; [reflexivity|constructor].
  - intros k Hk. destruct k as [|[|k]]; cbn in *; [exists 493|exists 493|exfalso; inversion Hk as [|? H1]; inversion H1]; split; reflexivity.
  - exists 493. repeat split; reflexivity.
Qed.
