(* Props/C09.v -- property theorems for C09 only. *)
From LV Require Import Base Regex RegexFacts Version VersionFacts.
From LVGen Require Import GenRegex GenVersion.

(* what the code says now: pattern ASTs have the two modelled shapes with the spec's reserved
   words; the macro plumbing uses the same literal and is_match at run time and compile time;
   version components are parsed as plain digits (F1 repaired) *)
Theorem c09_tables :
  layer_name_re = shape_reserved [w_build; w_launch; w_store] cls_dot /\
  process_type_re = shape_plain [(48, 57); (65, 90); (97, 122); (46, 46); (95, 95); (45, 45)] /\
  buildpack_id_re = shape_reserved [w_app; w_config; w_sbom] [(48, 57); (65, 90); (97, 122); (46, 46); (47, 47); (45, 45)] /\
  execd_key_re = shape_plain [(65, 90); (97, 122); (48, 57); (95, 95); (45, 45)] /\
  newtype_runtime_uses_is_match = true /\ newtype_macro_uses_same_regex = true /\
  newtype_deserialize_via_parse = true /\ newtype_display_is_inner = true /\
  proc_macro_uses_is_match = true /\
  version_splits_on_dot = true /\ version_leading_zero_rule = true /\ version_exactly_three = true /\
  version_display_shape_ok = true /\ api_split_once_default_minor_zero = true /\ api_display_shape_ok = true.
Proof. repeat split; reflexivity. Qed.
Print Assumptions c09_tables.

Theorem c09_component_parsers :
  version_component_parser = parse_u64_strict /\ api_component_parser = parse_u64_strict.
Proof. split; reflexivity. Qed.
Print Assumptions c09_component_parsers.

(* the four identifier grammars, for ALL strings of Unicode scalar values *)
Theorem c09_layer_name : forall s, valid_scalars s -> is_match layer_name_re s = spec_layer_name s.
Proof. exact layer_name_correct. Qed.
Print Assumptions c09_layer_name.

Theorem c09_process_type : forall s, is_match process_type_re s = spec_process_type s.
Proof. exact process_type_correct. Qed.
Print Assumptions c09_process_type.

Theorem c09_buildpack_id : forall s, is_match buildpack_id_re s = spec_buildpack_id s.
Proof. exact buildpack_id_correct. Qed.
Print Assumptions c09_buildpack_id.

Theorem c09_execd_key : forall s, is_match execd_key_re s = spec_execd_key s.
Proof. exact execd_key_correct. Qed.
Print Assumptions c09_execd_key.

(* versions: accepted exactly for X.Y.Z in canonical decimal below 2^64; display/parse inverse *)
Theorem c09_version_grammar :
  forall s x y z,
    parse_version version_component_parser s = Some (x, y, z) <->
    s = show_version (x, y, z) /\ x < u64_max_plus_1 /\ y < u64_max_plus_1 /\ z < u64_max_plus_1.
Proof. exact version_grammar. Qed.
Print Assumptions c09_version_grammar.

Theorem c09_show_parse :
  forall x y z, x < u64_max_plus_1 -> y < u64_max_plus_1 -> z < u64_max_plus_1 ->
    parse_version version_component_parser (show_version (x, y, z)) = Some (x, y, z).
Proof. exact version_show_parse. Qed.
Print Assumptions c09_show_parse.

Theorem c09_parse_show :
  forall s v, parse_version version_component_parser s = Some v -> show_version v = s.
Proof. exact version_parse_show. Qed.
Print Assumptions c09_parse_show.

Theorem c09_component_grammar :
  forall s n,
    parse_u64_strict s = Some n <->
    s <> [] /\ forallb is_digit s = true /\
    (exists u, uint_of_bytes s = Some u /\ N.of_uint u = n) /\ n < u64_max_plus_1.
Proof. exact parse_u64_strict_spec. Qed.
Print Assumptions c09_component_grammar.

Theorem c09_api_grammar :
  forall s a b,
    parse_api api_component_parser s = Some (a, b) <->
    (no_dot s /\ parse_u64_strict s = Some a /\ b = 0) \/
    (exists da db, s = da ++ 46 :: db /\ no_dot da /\
                   parse_u64_strict da = Some a /\ parse_u64_strict db = Some b).
Proof. exact api_grammar. Qed.
Print Assumptions c09_api_grammar.

Theorem c09_api_show_parse :
  forall a b, a < u64_max_plus_1 -> b < u64_max_plus_1 ->
    parse_api api_component_parser (show_api (a, b)) = Some (a, b).
Proof. exact api_show_parse. Qed.
Print Assumptions c09_api_show_parse.

Theorem c09_api_parse_show_parse :
  forall s v, parse_api api_component_parser s = Some v ->
    parse_api api_component_parser (show_api v) = Some v.
Proof. exact api_parse_show_parse. Qed.
Print Assumptions c09_api_parse_show_parse.

(* finding F1: with u64::from_str as the component parser a sign is accepted *)
Theorem c09_version_sign_legacy_refuted :
  parse_version parse_u64_rust [43; 49; 46; 50; 46; 51] = Some (1, 2, 3) /\
  parse_version parse_u64_strict [43; 49; 46; 50; 46; 51] = None /\
  parse_api parse_u64_rust [43; 48; 46; 43; 49; 48] = Some (0, 10) /\
  parse_api parse_u64_strict [43; 48; 46; 43; 49; 48] = None.
Proof. exact version_sign_legacy_refuted. Qed.
Print Assumptions c09_version_sign_legacy_refuted.

Example c09_nonvacuous :
  is_match layer_name_re [98; 117; 105; 108; 100] = false /\
  is_match layer_name_re [98; 117; 105; 108; 100; 115] = true /\
  is_match buildpack_id_re [104; 47; 114; 117; 98; 121] = true /\
  parse_version version_component_parser [49; 46; 49; 48; 46; 48] = Some (1, 10, 0) /\
  parse_version version_component_parser [49; 46; 48; 49; 46; 48] = None /\
  parse_api api_component_parser [48; 49] = Some (1, 0) /\
  18446744073709551615 < u64_max_plus_1.
Proof. vm_compute. repeat split. Qed.
