(* Props/C04.v -- property theorems for C04 only.  Each is closed by [exact] of a lemma proved
   elsewhere and followed by Print Assumptions. *)
From LV Require Import Base ImpPrims LayerEnv LayerEnvFacts.
From LVGen Require Import GenLayerEnv.
From Coq Require Import Permutation.

(* generated-table obligations: what the code says now = what the CNB spec says *)
Theorem c04_tables :
  beh_order = spec_beh_order /\ scope_fields = spec_scope_table /\
  beh_index_distinct = true /\ beh_cmp_shape_ok = true /\ apply_fold_shape_ok = true.
Proof. repeat split; reflexivity. Qed.
Print Assumptions c04_tables.

(* The loop body of LayerEnvDelta::apply as the translator reads it from the source, statement by
   statement (translator/src/imp.rs -> GenLayerEnv.gen_delta_step), IS the model's delta_step: the
   theorems below are therefore about the code's own arms, re-derived from /repo on every run.  (The
   proof is kept here, not in a library file, because it is about a generated definition.) *)
Theorem c04_step_regenerated :
  apply_loop_frame_ok = true /\
  forall (d : delta) (b : beh) (e : env) (n v : bytes), gen_delta_step d b e n v = delta_step d b e (n, v).
Proof.
  split; [reflexivity|]. intros d b e n v. unfold gen_delta_step, delta_step, opt_default, env_contains.
  destruct b.
  - (* Append *) destruct (bget n e) as [[|c p]|]; cbn [is_empty negb app]; try reflexivity.
    now rewrite <- app_assoc.
  - (* Default *) destruct (bget n e); reflexivity.
  - reflexivity.
  - reflexivity.
  - (* Prepend *) destruct (bget n e) as [[|c p]|]; cbn [is_empty negb app]; try (now rewrite ?app_nil_r).
    now rewrite <- app_assoc.
Qed.
Print Assumptions c04_step_regenerated.

Theorem c04_per_variable :
  forall (e : layer_env) (s : scope) (env0 : env) (n : bytes), le_wf e ->
    bget n (le_apply beh_order scope_fields e s env0)
    = fold_left (fun v d => var_spec d n v) (deltas_for scope_fields e s) (bget n env0).
Proof. exact (per_variable scope_fields). Qed.
Print Assumptions c04_per_variable.

Theorem c04_other_scopes_inert :
  forall e s s' b n v env0, scope_relevant s' s = false ->
    le_apply beh_order scope_fields (le_insert s' b n v e) s env0 = le_apply beh_order scope_fields e s env0.
Proof. exact (other_scopes_inert beh_order). Qed.
Print Assumptions c04_other_scopes_inert.

Theorem c04_frame :
  forall e s env0 n, le_wf e ->
    (forall d, In d (deltas_for scope_fields e s) -> delta_mentions d n = false) ->
    bget n (le_apply beh_order scope_fields e s env0) = bget n env0.
Proof. exact (frame scope_fields). Qed.
Print Assumptions c04_frame.

Theorem c04_insert_order :
  forall l1 l2, Permutation l1 l2 -> NoDup (map ikey l1) ->
    le_of_inserts l1 = le_of_inserts l2.
Proof. intros l1 l2 P ND. exact (insert_order l1 l2 P ND le_empty le_empty_wf). Qed.
Print Assumptions c04_insert_order.

Theorem c04_insert_last_wins :
  forall s b n v1 v2 e, le_wf e ->
    le_insert s b n v2 (le_insert s b n v1 e) = le_insert s b n v2 e.
Proof. exact insert_last_wins. Qed.
Print Assumptions c04_insert_last_wins.

Theorem c04_inserts_wf : forall l, le_wf (le_of_inserts l).
Proof. exact le_of_inserts_wf. Qed.
Print Assumptions c04_inserts_wf.

Theorem c04_oracle_correct :
  forall e s e0 out, le_wf e -> bsorted e0 ->
    chk_apply e s e0 out = true <-> apply_spec e s e0 out.
Proof. exact chk_apply_correct. Qed.
Print Assumptions c04_oracle_correct.

(* Non-vacuity: several behaviours on one name, previous value empty vs unset vs non-empty. *)
Example c04_nonvacuous :
  let e := le_of_inserts
    [ (SAll, Append, [65], [1]); (SAll, Delim, [65], [58]); (SAll, Default, [65], [9]);
      (SBuild, Prepend, [65], [2]); (SBuild, Override, [66], [3]); (SLaunch, Override, [65], [7]) ] in
  le_wf e /\
  bget [65] (le_apply beh_order scope_fields e SBuild []) = Some [2; 1] /\
  bget [65] (le_apply beh_order scope_fields e SBuild [([65], [])]) = Some [2; 1] /\
  bget [65] (le_apply beh_order scope_fields e SBuild [([65], [5])]) = Some [2; 5; 58; 1] /\
  bget [66] (le_apply beh_order scope_fields e SBuild []) = Some [3] /\
  bget [65] (le_apply beh_order scope_fields e SLaunch []) = Some [7].
Proof. split; [apply le_of_inserts_wf|]. vm_compute. repeat split. Qed.
