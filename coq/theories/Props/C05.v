(* Props/C05.v -- property theorems for C05 only. *)
From LV Require Import Base Runtime RuntimeFacts.
From LVGen Require Import GenRuntime.
From Coq Require Import ZArith.

Theorem c05_tables :
  exit_codes = spec_codes /\ supported_api = (0, 10) /\
  rt_api_checked_first = true /\ rt_dispatch_by_name = true /\ rt_on_error_once_then_exit = true /\
  rt_usage_errors_exit_unspecified = true /\ rt_detect_result_shape_ok = true /\
  rt_build_outputs_shape_ok = true /\ rt_missing_store_tolerated = true /\ rt_target_mandatory_vars_ok = true.
Proof. repeat split; reflexivity. Qed.
Print Assumptions c05_tables.

Theorem c05_codes_distinct : codes_ok exit_codes.
Proof. exact spec_codes_ok. Qed.
Print Assumptions c05_codes_distinct.

Theorem c05_gate :
  forall c, (dispatched c && inputs_ok c) = false ->
    o_entered (runtime exit_codes c) = false /\ o_exit (runtime exit_codes c) <> 0%Z /\
    o_exit (runtime exit_codes c) <> 100%Z /\
    o_plan (runtime exit_codes c) = false /\ o_launch (runtime exit_codes c) = false /\
    o_store (runtime exit_codes c) = false /\ o_bsboms (runtime exit_codes c) = [] /\ o_lsboms (runtime exit_codes c) = [].
Proof. intros c. exact (gate exit_codes c spec_codes_ok). Qed.
Print Assumptions c05_gate.

Theorem c05_detect_table :
  forall c, c_exe c = ExDetect -> (dispatched c && inputs_ok c) = true ->
    let o := runtime exit_codes c in
    o_entered o = true /\ o_launch o = false /\ o_store o = false /\ o_bsboms o = [] /\ o_lsboms o = [] /\
    match c_det c with
    | BFail => o_exit o = 100%Z /\ o_plan o = false /\ o_on_error o = 0%nat
    | BPass => o_exit o = 0%Z /\ o_plan o = false /\ o_on_error o = 0%nat
    | BPassPlan => if c_writable c then o_exit o = 0%Z /\ o_plan o = true /\ o_on_error o = 0%nat
                   else o_exit o = k_unspecified exit_codes /\ o_plan o = false /\ o_on_error o = 1%nat
    | BErr => o_exit o = k_unspecified exit_codes /\ o_plan o = false /\ o_on_error o = 1%nat
    end.
Proof. intros c. exact (detect_table exit_codes c spec_codes_ok). Qed.
Print Assumptions c05_detect_table.

Theorem c05_build_table :
  forall c, c_exe c = ExBuild -> (dispatched c && inputs_ok c) = true ->
    let o := runtime exit_codes c in let b := c_build c in
    o_entered o = true /\ o_plan o = false /\
    if bb_error b then o_exit o = k_unspecified exit_codes /\ o_on_error o = 1%nat /\ o_launch o = false /\ o_store o = false /\
                       o_bsboms o = [] /\ o_lsboms o = []
    else if c_writable c || negb (bb_launch b || bb_store b || negb (is_empty (bb_bsboms b)) || negb (is_empty (bb_lsboms b)))
         then o_exit o = 0%Z /\ o_on_error o = 0%nat /\ o_launch o = bb_launch b /\ o_store o = bb_store b /\
              o_bsboms o = bb_bsboms b /\ o_lsboms o = bb_lsboms b
         else o_exit o = k_unspecified exit_codes /\ o_on_error o = 1%nat /\ o_launch o = false /\ o_store o = false /\
              o_bsboms o = [] /\ o_lsboms o = [].
Proof. intros c. exact (build_table exit_codes c spec_codes_ok). Qed.
Print Assumptions c05_build_table.

Theorem c05_error_handler_once :
  forall c,
    (o_on_error (runtime exit_codes c) <= 1)%nat /\
    (o_on_error (runtime exit_codes c) = 1%nat <->
     dispatched c = true /\ o_exit (runtime exit_codes c) = k_unspecified exit_codes).
Proof. intros c. exact (error_handler_once exit_codes c spec_codes_ok). Qed.
Print Assumptions c05_error_handler_once.

Example c05_nonvacuous :
  let ok := mkCfg ExBuild 3 true DOk true true false true true PlatOk InOk InMissing BPass
                  (mkBB false true false [FCdx] []) true in
  (dispatched ok && inputs_ok ok) = true /\
  runtime exit_codes ok = mkOut 0 true 0 false true false [FCdx] [] /\
  o_exit (runtime exit_codes (mkCfg ExDetect 2 true DApiOther true true true true true PlatOk InOk InOk BPass
                                    (mkBB false false false [] []) true)) = 254%Z.
Proof. vm_compute. repeat split. Qed.
