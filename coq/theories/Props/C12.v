(* Props/C12.v -- property theorems for C12 only. *)
From LV Require Import Base FaultProp.
From LV.Checks Require Import C12Hold C12Agree.
From LVGen Require Import GenIoSites.
Open Scope N_scope.

(* every fallible file-system call site of the anchored files hands its error on *)
Theorem c12_sites : C12Agree.sites_ok = true.
Proof. vm_compute. reflexivity. Qed.
Print Assumptions c12_sites.

(* for every execution (any sequence of site executions), every position and every errno *)
Theorem c12_fail_fast :
  forall pre c e post,
    Forall (fun x : consume * option N => snd x = None) pre -> swallows c e = false ->
    run (pre ++ (c, Some e) :: post) = (S (length pre), Some e).
Proof. exact fail_fast. Qed.
Print Assumptions c12_fail_fast.

Theorem c12_no_silent_success :
  forall tr n, Forall (fun x : consume * option N => propagates (fst x) = true) tr -> run tr = (n, None) ->
    forall c e, In (c, Some e) tr -> c = NotFoundTry /\ e = ENOENT_code.
Proof. exact no_silent_success. Qed.
Print Assumptions c12_no_silent_success.

(* the sites of the table never swallow EIO / EACCES / ENOSPC *)
Theorem c12_table_never_swallows :
  forall s e, In s io_sites -> e <> ENOENT_code -> swallows (site_kind s) e = false.
Proof.
  intros s e Hin He. pose proof c12_sites as H. unfold C12Agree.sites_ok in H.
  apply andb_prop in H. destruct H as [H _]. apply andb_prop in H. destruct H as [H _].
  unfold all_propagate in H. rewrite forallb_forall in H. specialize (H s Hin).
  destruct (site_kind s); cbn in *; try reflexivity; try discriminate.
  apply N.eqb_neq. exact He.
Qed.
Print Assumptions c12_table_never_swallows.

Theorem c12_discarded_refuted : run [(Discarded, Some 5); (Try, None)] = (2%nat, None).
Proof. exact discarded_refuted. Qed.
Print Assumptions c12_discarded_refuted.

Example c12_nonvacuous :
  run (repeat (Try, None) 4 ++ (Chained, Some 28) :: repeat (Try, None) 9) = (5%nat, Some 28) /\
  run [(NotFoundTry, Some 2); (Try, None)] = (2%nat, None).
Proof. split; reflexivity. Qed.
