(* Props/C15.v -- property theorems for C15 only. *)
From LV Require Import Base SpecDocs FS FSFacts Determinism PackageCmd PackageCmdFacts.
From LV.Checks Require Import C15Hold C15Agree.
From Coq Require Import Permutation.
Open Scope N_scope.
Open Scope list_scope.

Theorem c15_tables : C15Agree.shape_ok = true.
Proof. vm_compute. reflexivity. Qed.
Print Assumptions c15_tables.

(* the packaged set is exactly what the invocation's roots reach through libcnb: dependencies *)
Theorem c15_selected_exact :
  forall ws rootids res,
    (forall r, In r rootids -> find_bp r ws <> None) ->
    (forall a x c, In a res -> find_bp a ws = Some x -> In c (lib_deps x) -> find_bp c ws <> None) ->
    close (close_fuel ws rootids) ws rootids [] = Some res ->
    forall x, In x res <-> exists r, In r rootids /\ reach ws r x.
Proof. exact selected_exact. Qed.
Print Assumptions c15_selected_exact.

(* main binary and additional binaries: every bin target is accounted for exactly once *)
Theorem c15_main_bin :
  forall pkg bins m, main_bin pkg bins = Some m ->
    In m bins /\ ((2 <= List.length bins)%nat -> m = pkg) /\
    (forall x, In x bins <-> x = m \/ In x (additional_bins m bins)) /\ ~ In m (additional_bins m bins).
Proof. exact main_bin_spec. Qed.
Print Assumptions c15_main_bin.

Theorem c15_main_bin_error :
  forall pkg bins, main_bin pkg bins = None <-> bins = [] \/ ((2 <= List.length bins)%nat /\ ~ In pkg bins).
Proof. exact main_bin_none. Qed.
Print Assumptions c15_main_bin_error.

(* distinct buildpack ids never share an output directory (ids cannot contain '_') *)
Theorem c15_dir_name_injective : forall a c, ~ In 95 a -> ~ In 95 c -> dir_name a = dir_name c -> a = c.
Proof. exact dir_name_injective. Qed.
Print Assumptions c15_dir_name_injective.

(* stale output: whatever the destination held before, after the wipe the writes decide alone *)
Theorem c15_stale_irrelevant :
  forall d l s1 s2 q, is_prefix d q = true ->
    pget q (apply_writes l (premove_under d s1)) = pget q (apply_writes l (premove_under d s2)).
Proof. exact wipe_then_write_independent. Qed.
Print Assumptions c15_stale_irrelevant.

Theorem c15_no_wipe_refuted :
  exists d l (s1 s2 : fs) q, is_prefix d q = true /\ pget q (apply_writes l s1) <> pget q (apply_writes l s2).
Proof. exact no_wipe_refuted. Qed.
Print Assumptions c15_no_wipe_refuted.

(* stdout: the roots' directories, each once, in BuildpackId order *)
Theorem c15_stdout_sorted_perm : forall l, Permutation (sort_ids l) l /\ sorted_ids (sort_ids l).
Proof. intros l. split; [apply sort_ids_perm|apply sort_ids_sorted]. Qed.
Print Assumptions c15_stdout_sorted_perm.

Example c15_nonvacuous :
  main_bin [111; 110; 101] [[104]; [111; 110; 101]] = Some [111; 110; 101] /\
  additional_bins [111; 110; 101] [[104]; [111; 110; 101]] = [[104]].
Proof. split; reflexivity. Qed.
