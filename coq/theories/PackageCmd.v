(* PackageCmd.v -- executable model of `cargo libcnb package` (libcnb-cargo/src/package/command.rs)
   and of the assembly code in libcnb-package (package.rs, lib.rs assemble_buildpack_directory,
   cargo.rs main-target selection, output.rs directory naming): which buildpacks of a workspace are
   packaged for an invocation, where, what each output directory holds, what is printed. *)
From LV Require Import Base SpecDocs FS FSFacts Determinism.
From Coq Require Import String.
Open Scope string_scope.
Open Scope N_scope.
Open Scope list_scope.

Inductive dep := DLib (id : bytes) | DRel (p : bytes) | DUri (u : bytes).
Inductive kind :=
| KLib (pkg : bytes) (bins : list bytes) (pdeps : list bytes)   (* component buildpack with a Cargo.toml: root package name, bin targets,
                                                                  ids its own package.toml (if any) names as libcnb: dependencies *)
| KComp (uri os : bytes) (deps : list dep)    (* composite buildpack: its package.toml's buildpack uri, platform os, dependencies *)
| KOther.                                    (* component buildpack that is not a Rust project *)
Record bp := mkBp { b_dir : bytes; b_id : bytes; b_kind : kind }.     (* b_dir: relative to the workspace root *)

Record inv := mkInv { i_cwd : bytes (* relative to the workspace root, [] = the root *); i_release : bool;
                      i_pkgdir : bytes (* absolute *); i_target : bytes }.

(* output.rs: default_buildpack_directory_name *)
Definition dir_name (id : bytes) : bytes := map (fun c => if c =? 47 then 95 else c) id.

Definition dest (i : inv) (id : bytes) : bytes :=
  i_pkgdir i ++ [47] ++ i_target i ++ [47] ++ (if i_release i then b "release" else b "debug") ++ [47] ++ dir_name id.

(* cargo.rs: determine_buildpack_cargo_target_name *)
Definition main_bin (pkg : bytes) (bins : list bytes) : option bytes :=
  match bins with
  | [] => None
  | [x] => Some x
  | _ => if existsb (beq pkg) bins then Some pkg else None
  end.

Definition additional_bins (m : bytes) (bins : list bytes) : list bytes := filter (fun x => negb (beq x m)) bins.

Definition packable (x : bp) : bool := match b_kind x with KOther => false | _ => true end.

Definition lib_deps (x : bp) : list bytes :=
  match b_kind x with
  | KComp _ _ deps => flat_map (fun d => match d with DLib id => [id] | _ => [] end) deps
  | KLib _ _ pdeps => pdeps
  | _ => []
  end.

Fixpoint find_bp (id : bytes) (l : list bp) : option bp :=
  match l with [] => None | x :: r => if beq id (b_id x) then Some x else find_bp id r end.

Definition mem_id (id : bytes) (l : list bytes) : bool := existsb (beq id) l.

(* command.rs: root_nodes *)
Definition roots (i : inv) (ws : list bp) : list bp :=
  let nodes := filter packable ws in
  match filter (fun x => beq (b_dir x) (i_cwd i)) nodes with
  | x :: _ => [x]
  | [] => match i_cwd i with [] => nodes | _ => [] end
  end.

(* dependency closure over libcnb: dependencies (the set get_dependencies returns) *)
Fixpoint close (fuel : nat) (ws : list bp) (todo : list bytes) (acc : list bytes) : option (list bytes) :=
  match todo with
  | [] => Some acc
  | id :: rest =>
      match fuel with
      | O => None                              (* out of fuel: excluded by the theorems' statements *)
      | S f =>
          if mem_id id acc then close f ws rest acc
          else match find_bp id ws with
               | Some x => close f ws (lib_deps x ++ rest) (id :: acc)
               | None => close f ws rest acc
               end
      end
  end.

Definition all_dep_edges (ws : list bp) : nat := list_sum (map (fun x => List.length (lib_deps x)) ws).
Definition close_fuel (ws : list bp) (todo : list bytes) : nat := S (List.length todo + List.length ws + all_dep_edges ws).

Definition selected_opt (i : inv) (ws : list bp) : option (list bytes) :=
  let nodes := filter packable ws in
  close (close_fuel nodes (map b_id (roots i ws))) nodes (map b_id (roots i ws)) [].
Definition selected (i : inv) (ws : list bp) : list bytes := match selected_opt i ws with Some l => l | None => [] end.

(* a missing libcnb: dependency anywhere in the workspace is an error (create_dependency_graph) *)
Definition missing_dep (ws : list bp) : bool :=
  let nodes := filter packable ws in
  existsb (fun x => existsb (fun d => negb (mem_id d (map b_id nodes))) (lib_deps x)) nodes.

Definition bins_ok (x : bp) : bool :=
  match b_kind x with KLib pkg bins _ => match main_bin pkg bins with Some _ => true | None => false end | _ => true end.

(* ---------- what a packaged directory holds ---------- *)
Inductive entry :=
| EDir
| ESameToml                        (* byte-identical copy of the buildpack's buildpack.toml *)
| EBin (name : bytes)              (* the compiled binary of that cargo target *)
| ELink (target : bytes)
| EText (t : bytes)
| EPackageToml (buildpack_uri os : bytes) (deps : list bytes).  (* package.toml as a document: uri, platform os, dependency uris *)

Definition libcnb_package_toml : bytes := b "[buildpack]
uri = "".""
".

(* Path::join + normalisation of a scheme-less relative dependency against the buildpack's
   directory is C14's subject; here the observed value is compared with the C14 model's result
   computed by the harness side from PkgDesc -- kept abstract as a parameter *)
Section Tree.
  Variable norm_rel : bytes -> bytes -> bytes.     (* source dir of the composite, relative uri -> absolute path *)
  Variable root : bytes.                           (* absolute workspace root *)

  Definition src_dir (x : bp) : bytes := root ++ [47] ++ b_dir x.

  Definition dep_uri (i : inv) (x : bp) (d : dep) : bytes :=
    match d with
    | DLib id => dest i id
    | DRel p => norm_rel (src_dir x) p
    | DUri u => u
    end.

  Definition tree (i : inv) (x : bp) : list (bytes * entry) :=
    match b_kind x with
    | KLib pkg bins _ =>
        match main_bin pkg bins with
        | Some m =>
            [(b "buildpack.toml", ESameToml); (b "bin", EDir); (b "bin/build", EBin m); (b "bin/detect", ELink (b "build"));
             (b "package.toml", EText libcnb_package_toml)] ++
            match additional_bins m bins with
            | [] => []
            | l => [(b ".libcnb-cargo", EDir); (b ".libcnb-cargo/additional-bin", EDir)] ++
                   map (fun n => (b ".libcnb-cargo/additional-bin/" ++ n, EBin n)) l
            end
        | None => []
        end
    | KComp u o deps => [(b "buildpack.toml", ESameToml); (b "package.toml", EPackageToml u o (map (dep_uri i x) deps))]
    | KOther => []
    end.
End Tree.

(* stdout: the selected roots' directories in BuildpackId order *)
Fixpoint insert_by (x : bytes) (l : list bytes) : list bytes :=
  match l with
  | [] => [x]
  | y :: r => match bcmp x y with Gt => y :: insert_by x r | _ => x :: l end
  end.
Definition sort_ids (l : list bytes) : list bytes := fold_right insert_by [] l.

Definition stdout_lines (i : inv) (ws : list bp) : list bytes :=
  map (dest i) (sort_ids (map b_id (roots i ws))).

Definition run_ok (i : inv) (ws : list bp) : bool :=
  negb (missing_dep ws) && match selected_opt i ws with Some _ => true | None => false end &&
  match roots i ws with [] => false | _ => true end &&
  forallb (fun id => match find_bp id (filter packable ws) with Some x => bins_ok x | None => false end) (selected i ws).
