(* PkgDesc.v -- executable model of libcnb-package/src/package_descriptor.rs and util.rs:
   normalisation of a composite buildpack's package.toml.  uriparse's split of a reference into
   scheme / authority / path and Rust's Path::components / PathBuf::push / pop are environment
   models. *)
From LV Require Import Base FS Regex.

(* ---------- URI references (RFC 3986 section 3 / 4.1) ---------- *)
Definition is_alpha (c : N) : bool := ((65 <=? c) && (c <=? 90)) || ((97 <=? c) && (c <=? 122)).
Definition scheme_char (c : N) : bool := is_alnum c || (c =? 43) || (c =? 45) || (c =? 46).

(* the prefix before the first of ':' '/' '?' '#', and what ended it *)
Fixpoint take_scheme (s acc : bytes) : option (bytes * bytes) :=
  match s with
  | [] => None
  | c :: r =>
      if c =? 58 then Some (acc, r)
      else if (c =? 47) || (c =? 63) || (c =? 35) then None
      else take_scheme r (acc ++ [c])
  end.

Definition scheme_of (s : bytes) : option (bytes * bytes) :=
  match take_scheme s [] with
  | Some (sch, rest) =>
      match sch with
      | c :: _ => if is_alpha c && forallb scheme_char sch then Some (sch, rest) else None
      | [] => None
      end
  | None => None
  end.

(* path part of what follows the scheme (or of the whole reference): up to '?' or '#' *)
Fixpoint path_part (s : bytes) : bytes :=
  match s with
  | [] => []
  | c :: r => if (c =? 63) || (c =? 35) then [] else c :: path_part r
  end.

Definition lower (c : N) : N := if (65 <=? c) && (c <=? 90) then c + 32 else c.
Definition s_libcnb : bytes := [108; 105; 98; 99; 110; 98].

Inductive uri_class :=
| ULibcnb (id : bytes)
| UPath (p : bytes)           (* no scheme, no authority *)
| UOther.                     (* any other scheme *)

Definition classify (s : bytes) : uri_class :=
  match scheme_of s with
  | Some (sch, rest) => if beq (map lower sch) s_libcnb then ULibcnb (path_part rest) else UOther
  | None => UPath (path_part s)
  end.

(* ---------- Rust paths ---------- *)
(* Path::components of an absolute path: empty components and "." vanish *)
Definition components (s : bytes) : list bytes :=
  filter (fun c => negb (is_empty c) && negb (beq c dot)) (split_slash s).

(* util::normalize_path: RootDir / Normal push, ParentDir pop (the root is its own parent) *)
Definition norm_step (st : list bytes) (c : bytes) : list bytes :=
  if beq c dotdot then drop_last st else st ++ [c].
Definition normalize_comps (cs : list bytes) : list bytes := fold_left norm_step cs [].

Definition render_abs (cs : list bytes) : bytes :=
  match cs with [] => [47] | _ => flat_map (fun n => 47 :: n) cs end.

(* util::absolutize_path on strings; parent is absolute *)
Definition absolutize (parent p : bytes) : bytes :=
  if is_abs p then p else render_abs (normalize_comps (components (parent ++ [47] ++ p))).

(* ---------- normalize_package_descriptor ---------- *)
Inductive nerr := EMissingPath (id : bytes) | EInvalidId (id : bytes).

Section Normalize.
  Variable id_ok : bytes -> bool.                 (* BuildpackId validation *)
  Variable paths : list (bytes * bytes).          (* buildpack id -> packaged location *)
  Variable parent : bytes.                        (* directory of the original package.toml *)

  Fixpoint lookup_path (id : bytes) (l : list (bytes * bytes)) : option bytes :=
    match l with [] => None | (k, v) :: l' => if beq id k then Some v else lookup_path id l' end.

  (* replace_libcnb_uri then the absolutize step, for one dependency *)
  Definition normalize_dep (u : bytes) : result nerr bytes :=
    match classify u with
    | ULibcnb id =>
        if negb (id_ok id) then Err (EInvalidId id)
        else match lookup_path id paths with
             | None => Err (EMissingPath id)
             | Some p => Ok (match classify p with UPath q => absolutize parent q | _ => p end)
             end
    | UPath p => Ok (absolutize parent p)
    | UOther => Ok u
    end.

  Fixpoint normalize_deps (l : list bytes) : result nerr (list bytes) :=
    match l with
    | [] => Ok []
    | u :: l' =>
        match normalize_dep u with
        | Err e => Err e
        | Ok v => match normalize_deps l' with Err e => Err e | Ok r => Ok (v :: r) end
        end
    end.
End Normalize.

(* ---------- an independent lexical denotation: cancel from the right ---------- *)
(* reading the components right to left, each ".." cancels the nearest name to its left that is not
   already cancelled; ".." that find nothing are dropped (the root is its own parent) *)
Fixpoint from_right (rev_comps : list bytes) (skip : nat) : list bytes :=
  match rev_comps with
  | [] => []
  | c :: r =>
      if beq c dotdot then from_right r (S skip)
      else match skip with
           | O => c :: from_right r 0
           | S k => from_right r k
           end
  end.
Definition denote (cs : list bytes) : list bytes := rev (from_right (rev cs) 0).
