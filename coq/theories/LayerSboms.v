(* LayerSboms.v -- executable model of shared::replace_layer_sboms (behind LayerRef::write_sboms and
   the trait API's write_layer). *)
From LV Require Import Base FS LayerShared.

Section Sboms.
  Variable sbom_suffixes : list bytes.      (* generated: cnb_sbom_path suffix per SBOM_FORMATS entry *)

  Definition sbom_path (layers : path) (n : name) (sx : bytes) : path := layers ++ [sbom_name n sx].

  (* MissingLayer is reported as EINVAL *)
  Definition replace_layer_sboms (layers : path) (n : name) (sboms : list (bytes * bytes)) : M unit :=
    fun s =>
      if negb (is_dir (layers ++ [n]) s) then (s, Err EINVAL)
      else (iterM (fun sx => default_on_not_found (unlink (sbom_path layers n sx))) sbom_suffixes ;;;
            iterM (fun fd => write_file (sbom_path layers n (fst fd)) (Raw (snd fd))) sboms) s.
End Sboms.

(* the data the layer's SBOM file of suffix [sx] ends up with: the last write of that format *)
Fixpoint last_data (sx : bytes) (sboms : list (bytes * bytes)) : option bytes :=
  match sboms with
  | [] => None
  | fd :: r => match last_data sx r with
               | Some d => Some d
               | None => if beq (fst fd) sx then Some (snd fd) else None
               end
  end.
