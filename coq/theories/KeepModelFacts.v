(* KeepModelFacts.v -- the composed model the C11 stream compares a keeping BuildContext::cached_layer with
   (C11Agree.keep_model: read_layer, then replace_layer_types, each regenerated from the source). *)
From Coq Require Import List Lia NArith Bool.
Import ListNotations.
From LV Require Import Base Toml FS FSFacts LayerShared LayerSharedFacts Determinism LayerEnvFSExact.
From LV Require Import ImpPrims ImpTypes ImpFacts WriteLayerFacts ReplaceMetaFacts WriteReadFacts RecreateModelFacts.
From LV.Checks Require Import C11Hold C11Agree.
From LVGen Require Import GenLayerSharedImp.

(* an existing layer with a regular readable and writable content-metadata file: the request ends Ok and the only
   change in the whole file system is that document (same mode, new contents) *)
Theorem keep_model_exact layers n s md m c res post :
  valid_name n = true -> simple_dir s layers ->
  pget (layers ++ [n]) s = Some (Dir md) ->
  pget (layers ++ [toml_name n]) s = Some (File m c) -> has_r m = true -> has_w m = true ->
  keep_model (mkCase s layers n OpKeep res post) =
    (pset (layers ++ [toml_name n]) (File m (Doc (TTbl []))) s, Ok tt).
Proof.
  intros Vn SD Hd Ht Hr Hw.
  assert (Vt : valid_name (n ++ [46; 116; 111; 109; 108]) = true) by (apply valid_name_app; [exact Vn|cbn; lia|reflexivity]).
  set (parse := fun _ : bytes => Some tt).
  assert (R1 : gen_read_layer parse layers n s = (s, Ok (Some (layers ++ [n], tt))))
    by exact (read_layer_present parse layers n Vn Vt s md m c SD Hd Ht Hr).
  pose proof (replace_layer_types_exact (Ty:=unit) (Md:=unit) (fun _ : bytes => Some (None, tt)) (fun _ => TTbl [])
                layers n Vt s m c None tt tt SD Ht Hr Hw eq_refl) as K.
  unfold keep_model. cbn [c_pre c_layers c_name]. fold parse.
  etransitivity; [apply (bindM_ok _ _ s s (Some (layers ++ [n], tt))); exact R1|]. cbv beta iota.
  exact K.
Qed.
