(* KeepModelFacts.v -- the composed model the C11 stream compares a keeping BuildContext::cached_layer with
   (C11Agree.keep_model: read_layer, then replace_layer_types, each regenerated from the source). *)
From Coq Require Import List Lia NArith Bool.
Import ListNotations.
From LV Require Import Base Toml FS FSFacts LayerShared LayerSharedFacts Determinism LayerEnvFSExact.
From LV Require Import ImpPrims ImpTypes ImpFacts WriteLayerFacts ReplaceMetaFacts WriteReadFacts RecreateModelFacts.
From LV.Checks Require Import C11Hold C11Agree.
From LVGen Require Import GenLayerSharedImp.

(* an existing layer with a regular readable and writable content-metadata file: the request ends Ok and the only
   change in the whole file system is that document (same mode, new contents) *)
Theorem keep_model_exact layers n s md m c res post :
  valid_name n = true -> simple_dir s layers ->
  pget (layers ++ [n]) s = Some (Dir md) ->
  pget (layers ++ [toml_name n]) s = Some (File m c) -> has_r m = true -> has_w m = true ->
  keep_model (mkCase s layers n OpKeep res post) =
    (pset (layers ++ [toml_name n]) (File m (Doc (TTbl []))) s, Ok tt).
Proof.
  intros Vn SD Hd Ht Hr Hw.
  assert (Vt : valid_name (n ++ [46; 116; 111; 109; 108]) = true) by (apply valid_name_app; [exact Vn|cbn; lia|reflexivity]).
  set (parse := fun _ : bytes => Some tt).
  assert (R1 : gen_read_layer parse layers n s = (s, Ok (Some (layers ++ [n], tt))))
    by exact (read_layer_present parse layers n Vn Vt s md m c SD Hd Ht Hr).
  pose proof (replace_layer_types_exact (Ty:=unit) (Md:=unit) (fun _ : bytes => Some (None, tt)) (fun _ => TTbl [])
                layers n Vt s m c None tt tt SD Ht Hr Hw eq_refl) as K.
  unfold keep_model. cbn [c_pre c_layers c_name]. fold parse.
  etransitivity; [apply (bindM_ok _ _ s s (Some (layers ++ [n], tt))); exact R1|]. cbv beta iota.
  exact K.
Qed.

Lemma exists_absent_in_dir s d nm : simple_dir s d -> valid_name nm = true ->
  pget (d ++ [nm]) s = None -> exists_ (d ++ [nm]) s = false.
Proof.
  intros SD Hv Hn. unfold exists_, stat, stat_gen.
  assert (NL : not_link (pget (d ++ [nm]) s)) by (rewrite Hn; intros t; discriminate).
  rewrite (resolve_in_dir s d nm true SD Hv NL), Hn. reflexivity.
Qed.

(* a layer that does not exist yet: the request creates exactly a fresh directory and a fresh document *)
Theorem keep_model_fresh layers n s res post :
  valid_name n = true -> simple_dir s layers ->
  pget (layers ++ [n]) s = None -> pget (layers ++ [toml_name n]) s = None ->
  keep_model (mkCase s layers n OpKeep res post) =
    (pset (layers ++ [toml_name n]) (File mode_file_default (Doc (TTbl []))) (pset (layers ++ [n]) (Dir mode_dir_default) s), Ok tt).
Proof.
  intros Vn SD Hd Ht.
  assert (Vt : valid_name (n ++ [46; 116; 111; 109; 108]) = true) by (apply valid_name_app; [exact Vn|cbn; lia|reflexivity]).
  set (parse := fun _ : bytes => Some tt).
  pose proof (exists_absent_in_dir s layers n SD Vn Hd) as X1.
  pose proof (exists_absent_in_dir s layers _ SD Vt Ht) as X2.
  assert (R1 : gen_read_layer parse layers n s = (s, Ok None)).
  { unfold gen_read_layer. cbv beta zeta.
    match goal with |- context [exists_ ?p s] => replace (exists_ p s) with false by (symmetry; exact X1) end.
    match goal with |- context [exists_ ?p s] => replace (exists_ p s) with false by (symmetry; exact X2) end.
    reflexivity. }
  destruct (write_then_read_layer (fun _ : unit => TTbl []) parse layers n Vn Vt s tt SD Hd Ht) as (s2 & W2 & R2).
  pose proof (write_layer_fresh (fun _ : unit => TTbl []) layers n tt Vn Vt s SD Hd Ht) as W.
  assert (Es2 : s2 = pset (layers ++ [toml_name n]) (File mode_file_default (Doc (TTbl []))) (pset (layers ++ [n]) (Dir mode_dir_default) s)).
  { rewrite W2 in W. injection W as W. exact W. }
  unfold keep_model. cbn [c_pre c_layers c_name]. fold parse.
  etransitivity; [apply (bindM_ok _ _ s s None); exact R1|]. cbv beta iota.
  etransitivity; [apply (bindM_ok _ _ s s2 tt); exact W2|]. cbv beta.
  etransitivity; [apply (bindM_ok _ _ s2 s2 (Some (layers ++ [n], tt))); exact R2|]. cbv beta.
  unfold ret. rewrite Es2. reflexivity.
Qed.
