(* BuildersFacts.v -- the builders build the intended document (C07). *)
From LV Require Import Base Toml Serde SerdeFacts SpecDocs Builders.
From Coq Require Import String.
Open Scope string_scope.
Open Scope list_scope.

(* ---------- BuildPlanBuilder: accumulate/flush state machine = split at every `or` ---------- *)
Lemma bp_fold calls : forall s,
  acc (bp_step (fold_left bp_step calls s) COr) = acc s ++ split_or calls (cur_p s) (cur_r s).
Proof.
  induction calls as [|c cs IH]; intros s; cbn [fold_left split_or].
  - reflexivity.
  - rewrite IH. destruct c; cbn [bp_step acc cur_p cur_r split_or]; try reflexivity.
    now rewrite <- app_assoc.
Qed.

Theorem bp_build_intended calls : bp_build calls = intended_groups calls.
Proof. unfold bp_build, intended_groups. now rewrite bp_fold. Qed.

Lemma split_or_nonempty calls p r : split_or calls p r <> [].
Proof. revert p r. induction calls as [|[n|n m|] cs IH]; intros p r; cbn [split_or]; try apply IH; discriminate. Qed.

(* ---------- ProcessBuilder / LaunchBuilder ---------- *)
Lemma proc_fold calls : forall p,
  fold_left proc_step calls p =
  mkProc (p_type p) (p_command p) (p_args p ++ all_args calls)
         (fold_left (fun acc c => match c with PDefault v => v | _ => acc end) calls (p_default p))
         (fold_left (fun acc c => match c with PWorkDir d => d | _ => acc end) calls (p_wd p)).
Proof.
  induction calls as [|c cs IH]; intros p; cbn [fold_left all_args flat_map].
  - rewrite app_nil_r. now destruct p.
  - rewrite IH. destruct c; cbn [proc_step p_type p_command p_args p_default p_wd app]; try reflexivity.
    now rewrite <- app_assoc.
Qed.

Theorem build_process_intended ty cmd calls :
  build_process ty cmd calls = mkProc ty cmd (all_args calls) (last_default calls) (last_wd calls).
Proof. unfold build_process. now rewrite proc_fold. Qed.

Lemma launch_fold calls : forall l,
  fold_left launch_step calls l =
  mkLaunch (l_labels l ++ l_labels (intended_launch calls))
           (l_processes l ++ l_processes (intended_launch calls))
           (l_slices l ++ l_slices (intended_launch calls)).
Proof.
  induction calls as [|c cs IH]; intros l; cbn [fold_left intended_launch flat_map l_labels l_processes l_slices].
  - rewrite !app_nil_r. now destruct l.
  - rewrite IH. destruct c; cbn [launch_step l_labels l_processes l_slices app intended_launch flat_map];
      rewrite <- ?app_assoc; cbn [app]; try reflexivity.
    now rewrite build_process_intended.
Qed.

(* processes, labels and slices come out in call order, each process with all its args in order
   and the last default / working-directory setting *)
Theorem build_launch_intended calls : build_launch calls = intended_launch calls.
Proof. unfold build_launch. rewrite launch_fold. now destruct (intended_launch calls). Qed.

(* ---------- an independent reader for the build plan document ---------- *)
Definition read_name (t : tv) : option bytes :=
  match t with TTbl kv => match tget (b "name") kv with Some (TStr n) => Some n | _ => None end | _ => None end.

Definition read_require (t : tv) : option (bytes * list (bytes * tv)) :=
  match t with
  | TTbl kv =>
      match tget (b "name") kv, tget (b "metadata") kv with
      | Some (TStr n), Some (TTbl m) => Some (n, m)
      | Some (TStr n), None => Some (n, [])
      | _, _ => None
      end
  | _ => None
  end.

Definition read_list {A} (f : tv -> option A) (o : option tv) : option (list A) :=
  match o with
  | None => Some []
  | Some (TArr l) => map_opt f l
  | Some _ => None
  end.

Definition read_group (kv : list (bytes * tv)) : option group :=
  match read_list read_name (tget (b "provides") kv), read_list read_require (tget (b "requires") kv) with
  | Some p, Some r => Some (p, r)
  | _, _ => None
  end.

(* CNB build plan: top-level provides/requires are the first alternative, each [[or]] another *)
Definition read_build_plan (t : tv) : option (list group) :=
  match t with
  | TTbl kv =>
      match read_group kv,
            read_list (fun x => match x with TTbl g => read_group g | _ => None end) (tget (b "or") kv) with
      | Some g, Some rest => Some (g :: rest)
      | _, _ => None
      end
  | _ => None
  end.

(* what Serialize produces, spelled out *)
Definition t_provide (n : bytes) : tv := TTbl [(b "name", TStr n)].
Definition t_require (r : bytes * list (bytes * tv)) : tv := TTbl [(b "name", TStr (fst r)); (b "metadata", TTbl (snd r))].
Definition opt_entry (k : string) (l : list tv) : list (bytes * tv) :=
  match l with [] => [] | _ => [(b k, TArr l)] end.
Definition t_group_entries (g : group) : list (bytes * tv) :=
  opt_entry "provides" (map t_provide (fst g)) ++ opt_entry "requires" (map t_require (snd g)).
Definition t_build_plan (gs : list group) : tv :=
  match gs with
  | [] => TTbl []
  | g :: rest => TTbl (t_group_entries g ++ opt_entry "or" (map (fun g => TTbl (t_group_entries g)) rest))
  end.

Lemma map_opt_map {A B C} (f : B -> option C) (g : A -> B) (h : A -> C) (l : list A) :
  (forall a, f (g a) = Some (h a)) -> map_opt f (map g l) = Some (map h l).
Proof. intros H. induction l as [|a l IH]; [reflexivity|]. cbn [map map_opt]. now rewrite H, IH. Qed.

(* ---------- Serialize of a build plan, then the independent reader ---------- *)
Lemma enc_provide n : encode ser_Provide (v_provide n) = Some (t_provide n).
Proof. reflexivity. Qed.
Lemma enc_require r : encode ser_Require (v_require r) = Some (t_require r).
Proof. destruct r. reflexivity. Qed.

Lemma enc_provides ps : encode (TyVec ser_Provide) (VList (map v_provide ps)) = Some (TArr (map t_provide ps)).
Proof. cbn [encode]. now rewrite (map_opt_map (encode ser_Provide) v_provide t_provide ps enc_provide). Qed.
Lemma enc_requires rs : encode (TyVec ser_Require) (VList (map v_require rs)) = Some (TArr (map t_require rs)).
Proof. cbn [encode]. now rewrite (map_opt_map (encode ser_Require) v_require t_require rs enc_require). Qed.

Lemma encode_field_vec vals k t l e :
  rec_get k vals = Some (VList l) -> encode (TyVec t) (VList l) = Some e ->
  encode_field vals (k, TyVec t, None, SkIfEmptyList) = Some (match l with [] => None | _ => Some (k, e) end).
Proof.
  intros R E. unfold encode_field. cbn [f_key f_ty f_skip fst snd]. rewrite R.
  destruct l as [|x l]; [reflexivity|]. cbn [should_skip]. now rewrite E.
Qed.

Lemma enc_group g : encode ser_Or (v_group g) = Some (TTbl (t_group_entries g)).
Proof.
  destruct g as [ps rs]. unfold ser_Or, v_group. rewrite encode_struct_unfold. cbn [encode_fields].
  erewrite encode_field_vec; [|reflexivity|apply enc_provides].
  erewrite encode_field_vec; [|reflexivity|apply enc_requires].
  unfold t_group_entries. cbn [fst snd]. destruct ps, rs; reflexivity.
Qed.

Lemma enc_groups gs : encode (TyVec ser_Or) (VList (map v_group gs)) = Some (TArr (map (fun g => TTbl (t_group_entries g)) gs)).
Proof. cbn [encode]. now rewrite (map_opt_map (encode ser_Or) v_group (fun g => TTbl (t_group_entries g)) gs enc_group). Qed.

Theorem enc_build_plan gs : gs <> [] -> encode ser_BuildPlan (v_build_plan gs) = Some (t_build_plan gs).
Proof.
  destruct gs as [|[ps rs] rest]; [congruence|]. intros _. unfold ser_BuildPlan, v_build_plan. rewrite encode_struct_unfold.
  cbn [encode_fields fst snd].
  erewrite encode_field_vec; [|reflexivity|apply enc_provides].
  erewrite encode_field_vec; [|reflexivity|apply enc_requires].
  erewrite encode_field_vec; [|reflexivity|apply enc_groups].
  unfold t_build_plan, t_group_entries. cbn [fst snd]. destruct ps, rs, rest; reflexivity.
Qed.

Lemma read_names ps : map_opt read_name (map t_provide ps) = Some ps.
Proof. rewrite (map_opt_map read_name t_provide (fun n => n)); [now rewrite map_id|reflexivity]. Qed.
Lemma read_requires rs : map_opt read_require (map t_require rs) = Some rs.
Proof. rewrite (map_opt_map read_require t_require (fun r => r)); [now rewrite map_id|]. intros [n m]. reflexivity. Qed.

Lemma tget_app_l k (l1 l2 : list (bytes * tv)) v : tget k l1 = Some v -> tget k (l1 ++ l2) = Some v.
Proof.
  induction l1 as [|[k' v'] l1 IH]; cbn [tget app]; [discriminate|]. destruct (beq k k'); auto.
Qed.
Lemma tget_app_r k (l1 l2 : list (bytes * tv)) : tget k l1 = None -> tget k (l1 ++ l2) = tget k l2.
Proof.
  induction l1 as [|[k' v'] l1 IH]; cbn [tget app]; [reflexivity|]. destruct (beq k k'); [discriminate|auto].
Qed.

Lemma read_group_entries g extra :
  tget (b "provides") extra = None -> tget (b "requires") extra = None ->
  read_group (t_group_entries g ++ extra) = Some g.
Proof.
  intros E1 E2. destruct g as [ps rs]. unfold read_group, t_group_entries. cbn [fst snd].
  destruct ps as [|p ps], rs as [|r rs]; cbn [map opt_entry app tget];
    try change (beq (b "provides") (b "provides")) with true;
    try change (beq (b "requires") (b "provides")) with false;
    try change (beq (b "requires") (b "requires")) with true;
    try change (beq (b "provides") (b "requires")) with false; cbn iota;
    rewrite ?E1, ?E2; cbn [read_list].
  - reflexivity.
  - change (map_opt read_require (t_require r :: map t_require rs)) with (map_opt read_require (map t_require (r :: rs))).
    now rewrite read_requires.
  - change (map_opt read_name (t_provide p :: map t_provide ps)) with (map_opt read_name (map t_provide (p :: ps))).
    now rewrite read_names.
  - change (map_opt read_name (t_provide p :: map t_provide ps)) with (map_opt read_name (map t_provide (p :: ps))).
    change (map_opt read_require (t_require r :: map t_require rs)) with (map_opt read_require (map t_require (r :: rs))).
    now rewrite read_names, read_requires.
Qed.

Lemma tget_group_entries_or g : tget (b "or") (t_group_entries g) = None.
Proof.
  destruct g as [[|p ps] [|r rs]]; unfold t_group_entries; cbn [fst snd map opt_entry app tget]; try reflexivity.
Qed.

(* whatever was built: the independent reader recovers exactly the groups, in order, empty
   groups included, metadata tables intact *)
Theorem read_written_build_plan gs : gs <> [] -> read_build_plan (t_build_plan gs) = Some gs.
Proof.
  destruct gs as [|g rest]; [congruence|]. intros _. unfold t_build_plan, read_build_plan.
  rewrite read_group_entries.
  2,3: destruct rest; reflexivity.
  rewrite tget_app_r by apply tget_group_entries_or.
  destruct rest as [|g2 rest]; [reflexivity|]. cbn [opt_entry map tget].
  change (beq (b "or") (b "or")) with true. cbn iota. cbn [read_list].
  assert (H : map_opt (fun x => match x with TTbl g => read_group g | _ => None end)
                      (map (fun g => TTbl (t_group_entries g)) (g2 :: rest)) = Some (g2 :: rest)).
  { rewrite (map_opt_map _ (fun g => TTbl (t_group_entries g)) (fun g => g)); [now rewrite map_id|].
    intros g0. rewrite <- (app_nil_r (t_group_entries g0)). now apply read_group_entries. }
  cbn [map] in H. now rewrite H.
Qed.
