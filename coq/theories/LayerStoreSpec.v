(* LayerStoreSpec.v -- the specification side of C01: how the state of a layer before a request
   is classified, which result and callback log the decisions then determine, and the judgement
   of an observed step (used by Checks/C01Hold.v). *)
From LV Require Import Base Toml FS LayerEnv SpecDocs LayerStore.
Open Scope N_scope.
Open Scope list_scope.

Inductive pre_class := PAbsent | PValid (x : md) | PInvalid (gx : md) | PBroken.

Definition eff_content (l : lay) : content := match l_toml l with Some c => c | None => doc_empty end.

Definition classify_pre (m : mty) (l : lay) : pre_class :=
  match l_dir l with
  | None => PAbsent
  | Some _ =>
      match classify_content (eff_content l) with
      | CLcm _ x => if md_ok m x then PValid x else PInvalid x
      | _ => PBroken
      end
  end.

Definition spec_valid (res : res_dec) (x : md) : result herr lstate * list call :=
  (match res with RKeep c => Ok (SRestored c) | RDelete c => Ok (SEmptyRestored c) | RErr => Err EBuildpack end,
   [CallRestored x]).

Definition spec_outcome (m : mty) (inv : inv_dec) (res : res_dec) (cls : pre_class) : result herr lstate * list call :=
  match cls with
  | PAbsent => (Ok SEmptyNew, [])
  | PValid x => spec_valid res x
  | PInvalid gx =>
      match inv with
      | IErr => (Err EBuildpack, [CallInvalid gx])
      | IDelete c => (Ok (SEmptyInvalid c), [CallInvalid gx])
      | IReplace x c => let '(r, calls) := spec_valid res x in (r, CallInvalid gx :: calls)
      end
  | PBroken => (Err EGenericMeta, [])
  end.

Definition req_mty (q : request) : mty := match q with QCached _ _ m _ _ => m | QUncached _ _ => MG end.

Definition spec_request (q : request) (cls : pre_class) : result herr lstate * list call :=
  match q with
  | QCached _ _ m inv res => spec_outcome m inv res cls
  | QUncached _ _ => (fst (spec_outcome MG (IDelete 0) (RDelete 0) cls), [])
  end.

(* the replacement metadata a callback hands back deserialises as the layer's metadata type *)
Definition inv_valid (q : request) : bool :=
  match q with
  | QCached _ _ m (IReplace x _) _ => md_ok m x
  | _ => true
  end.

(* the metadata a Restored layer must end up with *)
Definition kept_metadata (q : request) (cls : pre_class) : md :=
  match cls, q with
  | PValid x, _ => x
  | PInvalid _, QCached _ _ _ (IReplace x _) _ => x
  | _, _ => None
  end.

Definition is_restored (s : lstate) : bool := match s with SRestored _ => true | _ => false end.

(* ---------- boolean equalities for the judgement ---------- *)
Definition omd_same (x y : md) : bool :=
  match x, y with
  | None, None => true
  | Some p, Some q => tv_same (TTbl p) (TTbl q)
  | _, _ => false
  end.
Definition call_same (x y : call) : bool :=
  match x, y with
  | CallRestored p, CallRestored q | CallInvalid p, CallInvalid q => omd_same p q
  | _, _ => false
  end.
Fixpoint calls_same (x y : list call) : bool :=
  match x, y with [], [] => true | a :: x', c :: y' => call_same a c && calls_same x' y' | _, _ => false end.
Definition herr_eqb (x y : herr) : bool :=
  match x, y with
  | EBuildpack, EBuildpack | EReadLayer, EReadLayer | EGenericMeta, EGenericMeta | EWriteMeta, EWriteMeta
  | EWriteIo, EWriteIo | EMissingLayer, EMissingLayer | EMissingExecd, EMissingExecd | EDelete, EDelete
  | EAfterCreate, EAfterCreate | EFuelH, EFuelH => true
  | _, _ => false
  end.
Definition lstate_eqb (x y : lstate) : bool :=
  match x, y with
  | SRestored a, SRestored c | SEmptyInvalid a, SEmptyInvalid c | SEmptyRestored a, SEmptyRestored c => Nat.eqb a c
  | SEmptyNew, SEmptyNew => true
  | _, _ => false
  end.
Definition res_same (x y : result herr lstate) : bool :=
  match x, y with Ok a, Ok c => lstate_eqb a c | Err a, Err c => herr_eqb a c | _, _ => false end.

(* ---------- the judgement of one observed request ---------- *)
Definition request_ok (names : list bytes) (n : bytes) (q : request) (pre post : store)
           (r : result herr lstate) (calls : list call) : bool :=
  let cls := classify_pre (req_mty q) (lget n pre) in
  let '(er, ecalls) := spec_request q cls in
  (* other layers untouched *)
  forallb (fun n' => beq n' n || lay_same (lget n' pre) (lget n' post)) names &&
  (* reported state and callback log = what the decisions determine *)
  res_same r er && calls_same calls ecalls &&
  match r with
  | Err _ => true
  | Ok s =>
      let l' := lget n post in
      match l_dir l', (match l_toml l' with Some c => classify_content c | None => CSyntax end) with
      | Some d', CLcm (Some ty) x =>
          ltypes_eqb ty (req_types q) &&
          if is_restored s
          then ofs_eqb (Some d') (l_dir (lget n pre)) && sboms_same (l_sboms l') (l_sboms (lget n pre)) &&
               omd_same x (kept_metadata q cls)
          else fs_eqb d' fresh_dir && match l_sboms l' with [] => true | _ => false end && omd_same x None
      | _, _ => false
      end
  end.
