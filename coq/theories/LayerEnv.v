(* LayerEnv.v -- executable model of libcnb/src/layer_env.rs (in-memory part) and
   libcnb/src/env.rs.  Definitions only; proofs are in LayerEnvFacts.v. *)
From LV Require Import Base.

(* Env = HashMap<OsString, OsString>; iteration order is never observable in the
   modelled code, so the canonical sorted map is used. *)
Definition env := bmap bytes.

Inductive beh := Append | Default | Delim | Override | Prepend.

Definition beh_eqb (a b : beh) : bool :=
  match a, b with
  | Append, Append | Default, Default | Delim, Delim
  | Override, Override | Prepend, Prepend => true
  | _, _ => false
  end.

Inductive scope := SAll | SBuild | SLaunch | SProcess (p : bytes).

Inductive scope_kind := KAll | KBuild | KLaunch | KProcess.
Definition kind_of (s : scope) : scope_kind :=
  match s with SAll => KAll | SBuild => KBuild | SLaunch => KLaunch | SProcess _ => KProcess end.
Definition kind_eqb (a b : scope_kind) : bool :=
  match a, b with
  | KAll, KAll | KBuild, KBuild | KLaunch, KLaunch | KProcess, KProcess => true
  | _, _ => false
  end.

(* LayerEnvDelta: BTreeMap<(ModificationBehavior, OsString), OsString>.  The key order is
   lexicographic (behaviour index, name), i.e. the concatenation of one name-sorted map per
   behaviour in index order.  The index order is a generated table (beh_order). *)
Record delta := mkDelta {
  d_append : bmap bytes;
  d_default : bmap bytes;
  d_delim : bmap bytes;
  d_override : bmap bytes;
  d_prepend : bmap bytes
}.

Definition delta_empty : delta := mkDelta [] [] [] [] [].

Definition dget (d : delta) (b : beh) : bmap bytes :=
  match b with
  | Append => d_append d | Default => d_default d | Delim => d_delim d
  | Override => d_override d | Prepend => d_prepend d
  end.

Definition dinsert (b : beh) (n v : bytes) (d : delta) : delta :=
  match b with
  | Append => mkDelta (bset n v (d_append d)) (d_default d) (d_delim d) (d_override d) (d_prepend d)
  | Default => mkDelta (d_append d) (bset n v (d_default d)) (d_delim d) (d_override d) (d_prepend d)
  | Delim => mkDelta (d_append d) (d_default d) (bset n v (d_delim d)) (d_override d) (d_prepend d)
  | Override => mkDelta (d_append d) (d_default d) (d_delim d) (bset n v (d_override d)) (d_prepend d)
  | Prepend => mkDelta (d_append d) (d_default d) (d_delim d) (d_override d) (bset n v (d_prepend d))
  end.

Definition delta_is_empty (d : delta) : bool :=
  match d with mkDelta [] [] [] [] [] => true | _ => false end.

(* delimiter_for: lookup of (Delimiter, name), default empty *)
Definition delimiter_for (d : delta) (n : bytes) : bytes :=
  match bget n (d_delim d) with Some x => x | None => [] end.


(* one entry of LayerEnvDelta::apply's loop body *)
Definition delta_step (d : delta) (b : beh) (e : env) (kv : bytes * bytes) : env :=
  let '(n, v) := kv in
  match b with
  | Override => bset n v e
  | Default => match bget n e with Some _ => e | None => bset n v e end
  | Append =>
      let prev := match bget n e with Some p => p | None => [] end in
      bset n (if is_empty prev then v else prev ++ delimiter_for d n ++ v) e
  | Prepend =>
      let prev := match bget n e with Some p => p | None => [] end in
      bset n (if is_empty prev then v else v ++ delimiter_for d n ++ prev) e
  | Delim => e
  end.

(* LayerEnvDelta::apply: iterate the BTreeMap in key order *)
Definition delta_apply (order : list beh) (d : delta) (e : env) : env :=
  fold_left (fun e b => fold_left (delta_step d b) (dget d b) e) order e.

Record layer_env := mkLE {
  le_all : delta;
  le_build : delta;
  le_launch : delta;
  le_process : bmap delta;
  le_paths_build : delta;
  le_paths_launch : delta
}.

Definition le_empty : layer_env :=
  mkLE delta_empty delta_empty delta_empty [] delta_empty delta_empty.

(* LayerEnv::insert *)
Definition le_insert (s : scope) (b : beh) (n v : bytes) (e : layer_env) : layer_env :=
  match s with
  | SAll => mkLE (dinsert b n v (le_all e)) (le_build e) (le_launch e) (le_process e)
                 (le_paths_build e) (le_paths_launch e)
  | SBuild => mkLE (le_all e) (dinsert b n v (le_build e)) (le_launch e) (le_process e)
                   (le_paths_build e) (le_paths_launch e)
  | SLaunch => mkLE (le_all e) (le_build e) (dinsert b n v (le_launch e)) (le_process e)
                    (le_paths_build e) (le_paths_launch e)
  | SProcess p =>
      let d := match bget p (le_process e) with Some d => d | None => delta_empty end in
      mkLE (le_all e) (le_build e) (le_launch e) (bset p (dinsert b n v d) (le_process e))
           (le_paths_build e) (le_paths_launch e)
  end.

Definition ins := (scope * beh * bytes * bytes)%type.
Definition le_of_inserts (l : list ins) : layer_env :=
  fold_left (fun e i => let '(s, b, n, v) := i in le_insert s b n v e) l le_empty.

(* which struct fields LayerEnv::apply folds over for each query scope: generated table *)
Inductive field := FAll | FBuild | FLaunch | FProcessOf | FPathsBuild | FPathsLaunch.
Definition scope_table := list (scope_kind * list field).

Definition field_deltas (e : layer_env) (s : scope) (f : field) : list delta :=
  match f with
  | FAll => [le_all e]
  | FBuild => [le_build e]
  | FLaunch => [le_launch e]
  | FPathsBuild => [le_paths_build e]
  | FPathsLaunch => [le_paths_launch e]
  | FProcessOf =>
      match s with
      | SProcess p => match bget p (le_process e) with Some d => [d] | None => [] end
      | _ => []
      end
  end.

Fixpoint fields_for (t : scope_table) (k : scope_kind) : list field :=
  match t with
  | [] => []
  | (k', fs) :: t' => if kind_eqb k k' then fs else fields_for t' k
  end.

Definition deltas_for (t : scope_table) (e : layer_env) (s : scope) : list delta :=
  flat_map (field_deltas e s) (fields_for t (kind_of s)).

(* LayerEnv::apply *)
Definition le_apply (order : list beh) (t : scope_table) (e : layer_env) (s : scope) (e0 : env) : env :=
  fold_left (fun acc d => delta_apply order d acc) (deltas_for t e s) e0.

(* ------------------------------------------------------------------ *)
(* Specification side: tables transcribed from the CNB buildpack spec
   ("Environment Variable Modification Rules", "Layer Paths"), not from the code. *)

Definition spec_beh_order : list beh := [Append; Default; Delim; Override; Prepend].

Definition spec_scope_table : scope_table :=
  [ (KAll, [FAll]);
    (KBuild, [FAll; FBuild; FPathsBuild]);
    (KLaunch, [FAll; FLaunch; FPathsLaunch]);
    (KProcess, [FAll; FProcessOf]) ].

(* Declarative per-variable rule for one delta: append, then default, then override, then
   prepend; the delimiter is the one the same delta defines for the variable; a variable that is
   set to the empty string counts as set (for default) but as empty (for joining). *)
Definition join_append (prev : option bytes) (dl v : bytes) : bytes :=
  match prev with
  | Some ((_ :: _) as p) => p ++ dl ++ v
  | _ => v
  end.
Definition join_prepend (prev : option bytes) (dl v : bytes) : bytes :=
  match prev with
  | Some ((_ :: _) as p) => v ++ dl ++ p
  | _ => v
  end.

Definition var_spec (d : delta) (n : bytes) (v0 : option bytes) : option bytes :=
  let dl := delimiter_for d n in
  let v1 := match bget n (d_append d) with Some a => Some (join_append v0 dl a) | None => v0 end in
  let v2 := match bget n (d_default d) with
            | Some x => match v1 with None => Some x | Some _ => v1 end
            | None => v1 end in
  let v3 := match bget n (d_override d) with Some x => Some x | None => v2 end in
  let v4 := match bget n (d_prepend d) with Some p => Some (join_prepend v3 dl p) | None => v3 end in
  v4.

(* well-formedness: every component map is in BTreeMap/HashMap canonical (sorted) form *)
Definition delta_wf (d : delta) : Prop :=
  bsorted (d_append d) /\ bsorted (d_default d) /\ bsorted (d_delim d) /\
  bsorted (d_override d) /\ bsorted (d_prepend d).

Definition le_wf (e : layer_env) : Prop :=
  delta_wf (le_all e) /\ delta_wf (le_build e) /\ delta_wf (le_launch e) /\
  bsorted (le_process e) /\ (forall p d, In (p, d) (le_process e) -> delta_wf d) /\
  delta_wf (le_paths_build e) /\ delta_wf (le_paths_launch e).

(* boolean equalities for case evaluation *)
Definition bytes_map_eqb : bmap bytes -> bmap bytes -> bool := bmap_eqb beq.
Definition delta_eqb (a b : delta) : bool :=
  bytes_map_eqb (d_append a) (d_append b) && bytes_map_eqb (d_default a) (d_default b) &&
  bytes_map_eqb (d_delim a) (d_delim b) && bytes_map_eqb (d_override a) (d_override b) &&
  bytes_map_eqb (d_prepend a) (d_prepend b).
Definition le_eqb (a b : layer_env) : bool :=
  delta_eqb (le_all a) (le_all b) && delta_eqb (le_build a) (le_build b) &&
  delta_eqb (le_launch a) (le_launch b) && bmap_eqb delta_eqb (le_process a) (le_process b) &&
  delta_eqb (le_paths_build a) (le_paths_build b) && delta_eqb (le_paths_launch a) (le_paths_launch b).
