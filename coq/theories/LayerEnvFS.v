(* LayerEnvFS.v -- executable model of the file-system half of libcnb/src/layer_env.rs:
   LayerEnv::write_to_layer_dir / read_from_layer_dir and LayerEnvDelta::write_to_env_dir /
   read_from_env_dir, over FS.v, with the suffix tables and layer-path rows as parameters
   (generated).  Path::file_stem / Path::extension are modelled by [split_ext].
   [reads_process] selects the reader after the fix for finding F2 (sub-directories of env.launch
   are process-specific deltas, directories inside an env directory are skipped). *)
From LV Require Import Base FS LayerEnv LayerShared.

(* ---------- Path::file_stem / Path::extension on a file name ---------- *)
(* position-independent formulation: split at the LAST '.', unless there is none or it is the
   first byte, or the name is ".." *)
Fixpoint split_last_dot (s : bytes) : option (bytes * bytes) :=
  match s with
  | [] => None
  | c :: s' =>
      match split_last_dot s' with
      | Some (a, b) => Some (c :: a, b)
      | None => if c =? 46 then Some ([], s') else None
      end
  end.

Definition split_ext (nm : bytes) : bytes * option bytes :=
  if beq nm dotdot then (nm, None)
  else match split_last_dot nm with
       | Some ([], _) => (nm, None)          (* ".foo": no extension *)
       | Some (a, b) => (a, Some b)
       | None => (nm, None)
       end.

(* ---------- tables ---------- *)
Definition writer_table := list (beh * bytes).      (* behaviour -> ".suffix" *)
Definition reader_table := list (bytes * beh).      (* "suffix" -> behaviour *)

Fixpoint writer_suffix_of (t : writer_table) (b : beh) : bytes :=
  match t with
  | [] => []
  | (b', s) :: t' => if beh_eqb b b' then s else writer_suffix_of t' b
  end.

Fixpoint reader_beh_of (t : reader_table) (ext : bytes) : option beh :=
  match t with
  | [] => None
  | (s, b) :: t' => if beq ext s then Some b else reader_beh_of t' ext
  end.

Definition n_env : name := [101; 110; 118].                                  (* env *)
Definition n_env_build : name := [101; 110; 118; 46; 98; 117; 105; 108; 100].  (* env.build *)
Definition n_env_launch : name := [101; 110; 118; 46; 108; 97; 117; 110; 99; 104]. (* env.launch *)

(* OS path string of a model path *)
Definition render (p : path) : bytes := flat_map (fun n => 47 :: n) p.

Section LayerEnvFS.
  Variable order : list beh.            (* BTreeMap iteration: behaviours by index *)
  Variable wtab : writer_table.
  Variable rtab : reader_table.
  Variable no_ext : option beh.         (* behaviour of a file without extension *)
  Variable path_rows : list (bytes * scope_kind * bytes).   (* (variable, scope, sub-directory) *)
  Variable sep : bytes.                 (* PATH_LIST_SEPARATOR *)
  Variable reads_process : bool.        (* F2 repaired *)

  (* entries of a delta in BTreeMap order as (file name, contents) *)
  Definition delta_files (d : delta) : list (name * bytes) :=
    flat_map (fun b => map (fun kv => (fst kv ++ writer_suffix_of wtab b, snd kv)) (dget d b)) order.

  (* LayerEnvDelta::write_to_env_dir *)
  Definition write_env_dir (d : delta) (p : path) : M unit :=
    fun s =>
      ((if exists_ p s then remove_dir_all p else ret tt) ;;;
       (if delta_is_empty d then ret tt
        else create_dir_all (S (length p)) p ;;;
             iterM (fun f => write_file (p ++ [fst f]) (Raw (snd f))) (delta_files d))) s.

  (* LayerEnv::write_to_layer_dir; process deltas in map order (HashMap order is unobservable:
     each process has its own directory) *)
  Definition write_to_layer_dir (e : layer_env) (dir : path) : M unit :=
    write_env_dir (le_all e) (dir ++ [n_env]) ;;;
    write_env_dir (le_build e) (dir ++ [n_env_build]) ;;;
    write_env_dir (le_launch e) (dir ++ [n_env_launch]) ;;;
    iterM (fun pd => write_env_dir (snd pd) (dir ++ [n_env_launch; fst pd])) (le_process e).

  Definition entry_behaviour (nm : name) : name * option beh :=
    let '(stem, ext) := split_ext nm in
    (stem, match ext with None => no_ext | Some x => reader_beh_of rtab x end).

  (* LayerEnvDelta::read_from_env_dir *)
  Definition read_from_env_dir (p : path) : M delta :=
    pl <- readdir p ;;
    fold_left (fun (acc : M delta) (nm : name) =>
                 d <- acc ;;
                 skip <- (fun s => (s, Ok (reads_process && is_dir (p ++ [nm]) s))) ;;
                 if skip : bool then ret d
                 else
                   mc <- read_file (p ++ [nm]) ;;
                   let '(stem, ob) := entry_behaviour nm in
                   ret (match ob with Some b => dinsert b stem (content_bytes (snd mc)) d | None => d end))
              (snd pl) (ret delta_empty).

  Definition delta_for_field (e : layer_env) (f : field) : delta :=
    match f with
    | FPathsBuild => le_paths_build e | FPathsLaunch => le_paths_launch e
    | FAll => le_all e | FBuild => le_build e | FLaunch => le_launch e | FProcessOf => delta_empty
    end.

  Definition set_paths (k : scope_kind) (f : delta -> delta) (e : layer_env) : layer_env :=
    match k with
    | KBuild => mkLE (le_all e) (le_build e) (le_launch e) (le_process e) (f (le_paths_build e)) (le_paths_launch e)
    | KLaunch => mkLE (le_all e) (le_build e) (le_launch e) (le_process e) (le_paths_build e) (f (le_paths_launch e))
    | _ => e
    end.

  (* the layer_path_specs loop *)
  Definition read_layer_paths (dir : path) (s : fs) : layer_env :=
    fold_left (fun e row =>
                 let '(var, k, sub) := row in
                 if is_dir (dir ++ [sub]) s
                 then set_paths k (fun d => dinsert Delim var sep (dinsert Prepend var (render (dir ++ [sub])) d)) e
                 else e)
              path_rows le_empty.

  Definition read_dir_if_dir (p : path) : M delta :=
    fun s => if is_dir p s then read_from_env_dir p s else (s, Ok delta_empty).

  (* LayerEnv::read_from_layer_dir *)
  Definition read_from_layer_dir (dir : path) : M layer_env :=
    fun s =>
      (let e0 := read_layer_paths dir s in
       a <- read_dir_if_dir (dir ++ [n_env]) ;;
       b <- read_dir_if_dir (dir ++ [n_env_build]) ;;
       l <- read_dir_if_dir (dir ++ [n_env_launch]) ;;
       procs <- (if reads_process
                 then fun s1 =>
                        if is_dir (dir ++ [n_env_launch]) s1 then
                          (pl <- readdir (dir ++ [n_env_launch]) ;;
                           fold_left (fun (acc : M (bmap delta)) (nm : name) =>
                                        m <- acc ;;
                                        isd <- (fun s2 => (s2, Ok (is_dir (dir ++ [n_env_launch; nm]) s2))) ;;
                                        if isd : bool
                                        then d <- read_from_env_dir (dir ++ [n_env_launch; nm]) ;; ret (bset nm d m)
                                        else ret m)
                                     (snd pl) (ret [])) s1
                        else (s1, Ok [])
                 else ret []) ;;
       ret (mkLE a b l procs (le_paths_build e0) (le_paths_launch e0))) s.
End LayerEnvFS.

(* ---------- specification side ---------- *)
Definition spec_writer_table : writer_table :=
  [ (Append, [46; 97; 112; 112; 101; 110; 100]); (Default, [46; 100; 101; 102; 97; 117; 108; 116]);
    (Delim, [46; 100; 101; 108; 105; 109]); (Override, [46; 111; 118; 101; 114; 114; 105; 100; 101]);
    (Prepend, [46; 112; 114; 101; 112; 101; 110; 100]) ].
Definition spec_reader_table : reader_table :=
  [ ([97; 112; 112; 101; 110; 100], Append); ([100; 101; 102; 97; 117; 108; 116], Default);
    ([100; 101; 108; 105; 109], Delim); ([111; 118; 101; 114; 114; 105; 100; 101], Override);
    ([112; 114; 101; 112; 101; 110; 100], Prepend) ].
Definition spec_no_ext : option beh := Some Override.

(* CNB "Layer Paths": <layer>/bin -> PATH (build, launch); <layer>/lib -> LD_LIBRARY_PATH (build,
   launch) and LIBRARY_PATH (build); <layer>/include -> CPATH (build); <layer>/pkgconfig ->
   PKG_CONFIG_PATH (build) *)
Definition v_PATH := [80; 65; 84; 72].
Definition v_LIBRARY_PATH := [76; 73; 66; 82; 65; 82; 89; 95; 80; 65; 84; 72].
Definition v_LD_LIBRARY_PATH := [76; 68; 95; 76; 73; 66; 82; 65; 82; 89; 95; 80; 65; 84; 72].
Definition v_CPATH := [67; 80; 65; 84; 72].
Definition v_PKG_CONFIG_PATH := [80; 75; 71; 95; 67; 79; 78; 70; 73; 71; 95; 80; 65; 84; 72].
Definition d_bin := [98; 105; 110].
Definition d_lib := [108; 105; 98].
Definition d_include := [105; 110; 99; 108; 117; 100; 101].
Definition d_pkgconfig := [112; 107; 103; 99; 111; 110; 102; 105; 103].

(* as a set of rows: order is irrelevant because no two rows share (variable, scope) *)
Definition spec_layer_paths : list (bytes * scope_kind * bytes) :=
  [ (v_PATH, KBuild, d_bin); (v_LIBRARY_PATH, KBuild, d_lib); (v_LD_LIBRARY_PATH, KBuild, d_lib);
    (v_CPATH, KBuild, d_include); (v_PKG_CONFIG_PATH, KBuild, d_pkgconfig);
    (v_PATH, KLaunch, d_bin); (v_LD_LIBRARY_PATH, KLaunch, d_lib) ].
Definition spec_sep : bytes := [58].
