(* FS.v -- environment model of the POSIX file system as seen through Rust std::fs by the
   layer, runtime and platform code (DESIGN.md Appendix A).  Single owner = the caller, only the
   owner rwx bits are consulted, umask 022, no hard links / mounts / ACLs.  Validated by its own
   correspondence stream (random primitive-op sequences on a real directory as an unprivileged
   uid).  Definitions only; frame lemmas in FSFacts.v. *)
From LV Require Import Base Toml.

Definition name := bytes.
Definition path := list name.          (* absolute from the sandbox root; [] = the root directory *)

(* file contents: raw bytes, or -- for the designated TOML paths of a stream -- the parsed document
   in canonical form (the harness parses with an independent TOML reader; text that is not valid
   TOML stays Raw).  The empty file is the empty document. *)
Inductive content := Raw (b : bytes) | Doc (t : tv).

Inductive node :=
| File (mode : N) (c : content)
| Dir (mode : N)
| Link (target : bytes).               (* raw target string, '/'-separated, absolute iff it starts with '/' *)

Definition fs := list (path * node).

Definition path_eqb : path -> path -> bool := list_eqb beq.

Fixpoint is_prefix (d q : path) : bool :=
  match d, q with
  | [], _ => true
  | x :: d', y :: q' => beq x y && is_prefix d' q'
  | _ :: _, [] => false
  end.

Fixpoint pget (p : path) (s : fs) : option node :=
  match s with
  | [] => None
  | (k, v) :: s' => if path_eqb p k then Some v else pget p s'
  end.

Fixpoint pset (p : path) (v : node) (s : fs) : fs :=
  match s with
  | [] => [(p, v)]
  | (k, v') :: s' => if path_eqb p k then (k, v) :: s' else (k, v') :: pset p v s'
  end.

Definition pdel (p : path) (s : fs) : fs := filter (fun kv => negb (path_eqb p (fst kv))) s.
Definition premove_under (d : path) (s : fs) : fs := filter (fun kv => negb (is_prefix d (fst kv))) s.

(* ---------- errno ---------- *)
Inductive errno := ENOENT | ENOTDIR | EACCES | ELOOP | EEXIST | EISDIR | ENOTEMPTY | EINVAL | EFUEL.

Definition errno_eqb (a b : errno) : bool :=
  match a, b with
  | ENOENT, ENOENT | ENOTDIR, ENOTDIR | EACCES, EACCES | ELOOP, ELOOP | EEXIST, EEXIST
  | EISDIR, EISDIR | ENOTEMPTY, ENOTEMPTY | EINVAL, EINVAL | EFUEL, EFUEL => true
  | _, _ => false
  end.

(* ---------- permissions (owner bits) ---------- *)
Definition has_r (m : N) : bool := N.testbit m 8.
Definition has_w (m : N) : bool := N.testbit m 7.
Definition has_x (m : N) : bool := N.testbit m 6.
Definition mode_file_default : N := 420.   (* 0644 *)
Definition mode_dir_default : N := 493.    (* 0755 *)

(* ---------- path strings ---------- *)
(* split a raw path string on '/' *)
Fixpoint split_slash (s : bytes) : list bytes :=
  match s with
  | [] => [[]]
  | c :: s' =>
      if c =? 47 then [] :: split_slash s'
      else match split_slash s' with
           | [] => [[c]]
           | h :: t => (c :: h) :: t
           end
  end.

Definition is_abs (s : bytes) : bool := match s with 47 :: _ => true | _ => false end.
Definition dot : bytes := [46].
Definition dotdot : bytes := [46; 46].

Fixpoint drop_last {A} (l : list A) : list A :=
  match l with [] => [] | [_] => [] | x :: l' => x :: drop_last l' end.

(* ---------- resolution ---------- *)
(* walk components from the real directory [cur]; result: the real path (which may or may not
   exist when [want_exist] is false and it is the final component) *)
Fixpoint walk (s : fs) (fuel : nat) (cur : path) (comps : list bytes) (follow_last : bool)
  : result errno path :=
  match fuel with
  | O => Err ELOOP
  | S f =>
      match comps with
      | [] => Ok cur
      | c :: rest =>
          match pget cur s with
          | Some (Dir m) =>
              if negb (has_x m) then Err EACCES
              else if is_empty c || beq c dot then walk s f cur rest follow_last
              else if beq c dotdot then walk s f (drop_last cur) rest follow_last
              else
                let p := cur ++ [c] in
                match pget p s with
                | Some (Link t) =>
                    if is_empty rest && negb follow_last then Ok p
                    else walk s f (if is_abs t then [] else cur) (split_slash t ++ rest) follow_last
                | Some (Dir _) => walk s f p rest follow_last
                | Some (File _ _) => if is_empty rest then Ok p else Err ENOTDIR
                | None => if is_empty rest then Ok p else Err ENOENT
                end
          | Some _ => Err ENOTDIR
          | None => Err ENOENT
          end
      end
  end.

(* kernel limit on nested symlink expansion (40) plus the path's own length *)
Definition walk_fuel (p : path) : nat := length p + 41.

(* real location a path names: the final component need not exist *)
Definition resolve (s : fs) (p : path) (follow_last : bool) : result errno path :=
  walk s (walk_fuel p) [] p follow_last.

(* ---------- primitives: fs -> fs * result ---------- *)
Definition M (A : Type) := fs -> fs * result errno A.
Definition ret {A} (a : A) : M A := fun s => (s, Ok a).
Definition fail {A} (e : errno) : M A := fun s => (s, Err e).
Definition bindM {A B} (m : M A) (f : A -> M B) : M B :=
  fun s => match m s with (s', Ok a) => f a s' | (s', Err e) => (s', Err e) end.
Notation "x <- m ;; k" := (bindM m (fun x => k)) (at level 61, m at next level, right associativity).
Notation "m ;;; k" := (bindM m (fun _ => k)) (at level 61, right associativity).

Definition lift {A} (r : fs -> result errno A) : M A := fun s => (s, r s).

Inductive kind := KFile | KDir | KLink.
Definition kind_of_node (n : node) : kind :=
  match n with File _ _ => KFile | Dir _ => KDir | Link _ => KLink end.

(* lstat / stat *)
Definition stat_gen (follow : bool) (p : path) : M node :=
  fun s => match resolve s p follow with
           | Err e => (s, Err e)
           | Ok rp => match pget rp s with Some n => (s, Ok n) | None => (s, Err ENOENT) end
           end.
Definition lstat := stat_gen false.
Definition stat := stat_gen true.

(* Path::exists / is_dir / is_file: every error is "false" *)
Definition exists_ (p : path) (s : fs) : bool :=
  match stat p s with (_, Ok _) => true | _ => false end.
Definition is_dir (p : path) (s : fs) : bool :=
  match stat p s with (_, Ok (Dir _)) => true | _ => false end.
Definition is_file (p : path) (s : fs) : bool :=
  match stat p s with (_, Ok (File _ _)) => true | _ => false end.

Definition parent_writable (s : fs) (rp : path) : result errno unit :=
  match pget (drop_last rp) s with
  | Some (Dir m) => if has_w m && has_x m then Ok tt else Err EACCES
  | Some _ => Err ENOTDIR
  | None => Err ENOENT
  end.

(* names directly inside directory d *)
Fixpoint child_of (d : path) (k : path) : option name :=
  match d, k with
  | [], [n] => Some n
  | x :: d', y :: k' => if beq x y then child_of d' k' else None
  | _, _ => None
  end.

Fixpoint insert_sorted (x : bytes) (l : list bytes) : list bytes :=
  match l with
  | [] => [x]
  | y :: l' => match bcmp x y with Lt => x :: l | Eq => l | Gt => y :: insert_sorted x l' end
  end.

Definition children (d : path) (s : fs) : list name :=
  fold_left (fun acc kv => match child_of d (fst kv) with Some n => insert_sorted n acc | None => acc end) s [].

(* fs::read_dir: names in sorted order *)
Definition readdir (p : path) : M (path * list name) :=
  fun s => match resolve s p true with
           | Err e => (s, Err e)
           | Ok rp => match pget rp s with
                      | Some (Dir m) => if has_r m then (s, Ok (rp, children rp s)) else (s, Err EACCES)
                      | Some _ => (s, Err ENOTDIR)
                      | None => (s, Err ENOENT)
                      end
           end.

(* fs::create_dir *)
Definition mkdir (p : path) : M unit :=
  fun s => match resolve s p false with
           | Err e => (s, Err e)
           | Ok rp =>
               match pget rp s with
               | Some _ => (s, Err EEXIST)
               | None => match rp with
                         | [] => (s, Err EEXIST)
                         | _ => match parent_writable s rp with
                                | Err e => (s, Err e)
                                | Ok _ => (pset rp (Dir mode_dir_default) s, Ok tt)
                                end
                         end
               end
           end.

(* fs::write: create/truncate, following a final symlink *)
Definition write_file_mode (mode_new : N) (keep_mode : bool) (p : path) (data : content) : M unit :=
  fun s => match resolve s p true with
           | Err e => (s, Err e)
           | Ok rp =>
               match pget rp s with
               | Some (Dir _) => (s, Err EISDIR)
               | Some (File m _) =>
                   if has_w m then (pset rp (File (if keep_mode then m else mode_new) data) s, Ok tt)
                   else (s, Err EACCES)
               | Some (Link _) => (s, Err ELOOP)
               | None => match rp with
                         | [] => (s, Err EISDIR)
                         | _ => match parent_writable s rp with
                                | Err e => (s, Err e)
                                | Ok _ => (pset rp (File mode_new data) s, Ok tt)
                                end
                         end
               end
           end.
Definition write_file := write_file_mode mode_file_default true.

(* fs::read *)
Definition read_file (p : path) : M (N * content) :=
  fun s => match resolve s p true with
           | Err e => (s, Err e)
           | Ok rp =>
               match pget rp s with
               | Some (File m c) => if has_r m then (s, Ok (m, c)) else (s, Err EACCES)
               | Some (Dir m) => if has_r m then (s, Err EISDIR) else (s, Err EACCES)
               | Some (Link _) => (s, Err ELOOP)
               | None => (s, Err ENOENT)
               end
           end.

(* fs::remove_file *)
Definition unlink (p : path) : M unit :=
  fun s => match resolve s p false with
           | Err e => (s, Err e)
           | Ok rp =>
               match pget rp s with
               | None => (s, Err ENOENT)
               | Some (Dir _) => match parent_writable s rp with Err e => (s, Err e) | Ok _ => (s, Err EISDIR) end
               | Some _ => match rp with
                           | [] => (s, Err EISDIR)
                           | _ => match parent_writable s rp with
                                  | Err e => (s, Err e)
                                  | Ok _ => (pdel rp s, Ok tt)
                                  end
                           end
               end
           end.

(* fs::remove_dir *)
Definition rmdir (p : path) : M unit :=
  fun s => match resolve s p false with
           | Err e => (s, Err e)
           | Ok rp =>
               match pget rp s with
               | None => (s, Err ENOENT)
               | Some (Dir _) =>
                   match rp with
                   | [] => (s, Err EINVAL)
                   | _ => match parent_writable s rp with
                          | Err e => (s, Err e)
                          | Ok _ => match children rp s with
                                    | [] => (pdel rp s, Ok tt)
                                    | _ => (s, Err ENOTEMPTY)
                                    end
                          end
                   end
               | Some _ => match parent_writable s rp with Err e => (s, Err e) | Ok _ => (s, Err ENOTDIR) end
               end
           end.

(* fs::set_permissions: chmod follows symlinks *)
Definition chmod (p : path) (m : N) : M unit :=
  fun s => match resolve s p true with
           | Err e => (s, Err e)
           | Ok rp =>
               match pget rp s with
               | Some (File _ c) => (pset rp (File m c) s, Ok tt)
               | Some (Dir _) => (pset rp (Dir m) s, Ok tt)
               | Some (Link _) => (s, Err ELOOP)
               | None => (s, Err ENOENT)
               end
           end.

(* std::os::unix::fs::symlink *)
Definition symlink (target : bytes) (p : path) : M unit :=
  fun s => match resolve s p false with
           | Err e => (s, Err e)
           | Ok rp =>
               match pget rp s with
               | Some _ => (s, Err EEXIST)
               | None => match rp with
                         | [] => (s, Err EEXIST)
                         | _ => match parent_writable s rp with
                                | Err e => (s, Err e)
                                | Ok _ => (pset rp (Link target) s, Ok tt)
                                end
                         end
               end
           end.

(* every directory in the subtree rooted at d can be listed, and emptied when it has entries *)
Definition subtree_rwx (d : path) (s : fs) : bool :=
  forallb (fun kv => negb (is_prefix d (fst kv)) ||
                     match snd kv with
                     | Dir m => has_r m && (is_empty (children (fst kv) s) || (has_w m && has_x m))
                     | _ => true
                     end) s.

(* std::fs::remove_dir_all: a symlink is unlinked; otherwise descend without changing permissions.
   When some directory of the subtree lacks rwx the real call fails part-way; the model reports
   EACCES and leaves the tree unchanged (generated states never contain such env/exec.d trees). *)
Definition remove_dir_all (p : path) : M unit :=
  fun s => match resolve s p false with
           | Err e => (s, Err e)
           | Ok rp =>
               match pget rp s with
               | None => (s, Err ENOENT)
               | Some (Link _) => unlink p s
               | Some (File _ _) => (s, Err ENOTDIR)
               | Some (Dir _) =>
                   match rp with
                   | [] => (s, Err EINVAL)
                   | _ => match parent_writable s rp with
                          | Err e => (s, Err e)
                          | Ok _ => if subtree_rwx rp s then (premove_under rp s, Ok tt) else (s, Err EACCES)
                          end
                   end
               end
           end.

(* std::fs::create_dir_all *)
Fixpoint create_dir_all (fuel : nat) (p : path) : M unit :=
  fun s =>
    match p with
    | [] => (s, Ok tt)
    | _ =>
        match mkdir p s with
        | (s', Ok _) => (s', Ok tt)
        | (_, Err ENOENT) =>
            match fuel with
            | O => (s, Err EFUEL)
            | S f =>
                match create_dir_all f (drop_last p) s with
                | (s1, Ok _) =>
                    match mkdir p s1 with
                    | (s2, Ok _) => (s2, Ok tt)
                    | (_, Err e) => if is_dir p s1 then (s1, Ok tt) else (s1, Err e)
                    end
                | (s1, Err e) => (s1, Err e)
                end
            end
        | (_, Err e) => if is_dir p s then (s, Ok tt) else (s, Err e)
        end
    end.

(* std::fs::copy: contents and permission bits *)
Definition copy_file (src dst : path) : M unit :=
  mc <- read_file src ;;
  write_file_mode (fst mc) false dst (snd mc) ;;;
  chmod dst (fst mc).

(* ---------- boolean equality for case evaluation ---------- *)
Definition content_eqb (a b : content) : bool :=
  match a, b with
  | Raw x, Raw y => beq x y
  | Doc x, Doc y => tv_eqb x y
  | _, _ => false
  end.

Definition content_bytes (c : content) : bytes := match c with Raw b => b | Doc _ => [] end.

Definition node_eqb (a b : node) : bool :=
  match a, b with
  | File m c, File m' c' => (m =? m') && content_eqb c c'
  | Dir m, Dir m' => m =? m'
  | Link t, Link t' => beq t t'
  | _, _ => false
  end.

Definition fs_sub (a b : fs) : bool :=
  forallb (fun kv => match pget (fst kv) b with Some n => node_eqb n (snd kv) | None => false end) a.
(* same finite map (both sides free of duplicate keys by construction) *)
Definition fs_eqb (a b : fs) : bool := fs_sub a b && fs_sub b a.
