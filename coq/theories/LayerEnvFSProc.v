(* LayerEnvFSProc.v -- the per-process directories of LayerEnv::write_to_layer_dir (C03):
   env.launch/<process>/ is written AFTER env.launch, one write_env_dir per process, and
   std::fs::create_dir_all creates env.launch itself when the launch delta was empty.  The exact
   result for every path of the file system, for every environment. *)
From LV Require Import Base FS FSFacts LayerShared LayerSharedFacts LayerSharedGone LayerEnv LayerEnvFS
  Determinism LayerEnvFSExact FSInv LayerEnvFSCompose.
From Coq Require Import Lia.
Open Scope N_scope.

Lemma valid_name_flags c : valid_name c = true -> is_empty c = false /\ beq c dot = false /\ beq c dotdot = false.
Proof.
  unfold valid_name. intros V. repeat (apply andb_true_iff in V as [V ?]). rewrite negb_true_iff in *. auto.
Qed.

(* resolving a path whose last-but-one component does not exist *)
Lemma walk_enoent s : forall comps fuel cur nm x follow,
  (length comps + 2 < fuel)%nat ->
  Forall (fun n => valid_name n = true) comps -> valid_name nm = true ->
  (forall k, (k <= length comps)%nat -> exists m, pget (cur ++ firstn k comps) s = Some (Dir m) /\ has_x m = true) ->
  pget (cur ++ comps ++ [nm]) s = None ->
  walk s fuel cur (comps ++ [nm; x]) follow = Err ENOENT.
Proof.
  induction comps as [|c cs IH]; intros fuel cur nm x follow Hf V Hv R Hn.
  - destruct fuel as [|f]; [cbn in Hf; lia|]. cbn [List.app walk].
    destruct (R 0%nat (le_n _)) as (m & Hm & Hx). cbn [firstn] in Hm. rewrite app_nil_r in Hm. rewrite Hm, Hx. cbn [negb].
    destruct (valid_name_flags nm Hv) as (E1 & E2 & E3). rewrite E1, E2, E3. cbn [orb]. cbv zeta.
    cbn [List.app] in Hn.
    match goal with |- match ?tm with _ => _ end = _ => replace tm with (@None node) by (symmetry; exact Hn) end. reflexivity.
  - destruct fuel as [|f]; [cbn in Hf; lia|]. inversion V as [|? ? Vc Vr]; subst. cbn [List.app walk].
    destruct (R 0%nat ltac:(cbn; lia)) as (m & Hm & Hx). cbn [firstn] in Hm. rewrite app_nil_r in Hm. rewrite Hm, Hx. cbn [negb].
    destruct (valid_name_flags c Vc) as (E1 & E2 & E3). rewrite E1, E2, E3. cbn [orb]. cbv zeta.
    destruct (R 1%nat ltac:(cbn; lia)) as (m1 & Hm1 & Hx1). cbn [firstn] in Hm1.
    match goal with |- match ?tm with _ => _ end = _ => replace tm with (Some (Dir m1)) by (symmetry; exact Hm1) end.
    apply IH.
    + cbn in Hf. lia.
    + exact Vr.
    + exact Hv.
    + intros k Hk. destruct (R (S k) ltac:(cbn; lia)) as (mk & Hmk & Hxk). cbn [firstn] in Hmk.
      exists mk. rewrite <- app_assoc. cbn [List.app]. auto.
    + rewrite <- app_assoc. cbn [List.app]. exact Hn.
Qed.

Lemma resolve_missing_parent s d a b follow :
  simple_dir s d -> valid_name a = true -> pget (d ++ [a]) s = None ->
  resolve s (d ++ [a; b]) follow = Err ENOENT.
Proof.
  intros [Vn Dd _] Ha Hn. unfold resolve.
  apply (walk_enoent s d (walk_fuel (d ++ [a; b])) [] a b follow).
  - unfold walk_fuel. rewrite app_length. cbn. lia.
  - exact Vn.
  - exact Ha.
  - intros k Hk. cbn [List.app]. apply Dd, Hk.
  - cbn [List.app]. exact Hn.
Qed.

Lemma simple_dir_pointwise s s' d :
  (forall k, (k <= length d)%nat -> pget (firstn k d) s' = pget (firstn k d) s) -> simple_dir s d -> simple_dir s' d.
Proof.
  intros H [Vn Dd Dw]. constructor.
  - exact Vn.
  - intros k Hk. rewrite (H k Hk). apply Dd, Hk.
  - specialize (H (length d) (le_n _)). rewrite firstn_all in H. rewrite H. exact Dw.
Qed.

Lemma delta_files_empty order wtab d : delta_is_empty d = true -> delta_files order wtab d = [].
Proof.
  intros E. destruct d as [[|] [|] [|] [|] [|]]; try discriminate. unfold delta_files.
  induction order as [|b order IH]; [reflexivity|]. cbn [flat_map]. rewrite IH. destruct b; reflexivity.
Qed.

Lemma create_dir_all_two f (L : path) pn s s1 s2 :
  L <> [] -> mkdir (L ++ [pn]) s = (s, Err ENOENT) -> mkdir L s = (s1, Ok tt) -> mkdir (L ++ [pn]) s1 = (s2, Ok tt) ->
  create_dir_all (S (S f)) (L ++ [pn]) s = (s2, Ok tt).
Proof.
  intros HL M0 M1 M2.
  assert (DL : drop_last (L ++ [pn]) = L) by apply drop_last_app.
  destruct (L ++ [pn]) as [|x r] eqn:Ep; [exfalso; eapply snoc_not_nil; exact Ep|].
  remember (S f) as g eqn:Eg. cbn [create_dir_all]. rewrite M0, DL. subst g. rewrite (create_dir_all_first f L s s1 HL M1). rewrite M2. reflexivity.
Qed.

Section Proc.
  Variable order : list beh.
  Variable wtab : writer_table.

  (* the effect of one per-process write on the lookup function *)
  Definition proc_step (L : path) (look : path -> option node) (pd : name * delta) (q : path) : option node :=
    if delta_is_empty (snd pd) then look q
    else if is_prefix (L ++ [fst pd]) q then env_dir_spec order wtab (snd pd) (L ++ [fst pd]) q
    else if path_eqb q L then Some (Dir mode_dir_default)
    else look q.

  Definition launch_state (s : fs) (L : path) : Prop :=
    pget L s = None \/ pget L s = Some (Dir mode_dir_default).

  (* one process directory *)
  Theorem write_proc_dir dir pn pd s :
    let L := dir ++ [n_env_launch] in
    fs_inv s dir -> valid_name pn = true -> files_ok order wtab pd ->
    launch_state s L -> pget (L ++ [pn]) s = None ->
    exists s', write_env_dir order wtab pd (dir ++ [n_env_launch; pn]) s = (s', Ok tt) /\ fs_inv s' dir /\
               launch_state s' L /\
               forall q, pget q s' = proc_step L (fun q => pget q s) (pn, pd) q.
  Proof.
    intros L I0 Hv FO LS Hn. pose proof I0 as [SD PC NDs]. unfold proc_step. cbn [fst snd].
    assert (Hvl : valid_name n_env_launch = true) by reflexivity.
    assert (EP : dir ++ [n_env_launch; pn] = L ++ [pn]) by (unfold L; rewrite <- app_assoc; reflexivity).
    destruct LS as [LN|LD].
    - (* env.launch does not exist *)
      assert (EX : exists_ (dir ++ [n_env_launch; pn]) s = false).
      { unfold exists_, stat, stat_gen. rewrite (resolve_missing_parent s dir n_env_launch pn true SD Hvl LN). reflexivity. }
      unfold write_env_dir. rewrite EX. unfold bindM at 1. cbn [ret].
      destruct (delta_is_empty pd) eqn:Ee.
      { exists s. split; [reflexivity|]. split; [exact I0|]. split; [left; exact LN|reflexivity]. }
      destruct FO as [ND VF].
      (* create_dir_all: env.launch first, then the process directory *)
      pose proof (mkdir_in_dir s dir n_env_launch SD Hvl LN) as M1. fold L in M1.
      set (s1 := pset L (Dir mode_dir_default) s) in *.
      assert (SD1 : simple_dir s1 dir) by (apply simple_dir_pset_child; exact SD).
      assert (SDL : simple_dir s1 L) by (apply simple_dir_child; [exact SD1|exact Hvl|unfold s1; apply pget_pset_same]).
      assert (PC1 : parent_closed s1).
      { apply pc_pset_new; [exact PC| |exact LN]. destruct SD as [_ _ (m & Hm & _)]. exists m. exact Hm. }
      assert (Hn1 : pget (L ++ [pn]) s1 = None).
      { unfold s1. rewrite pget_pset_other by apply snoc_neq_self. exact Hn. }
      pose proof (mkdir_in_dir s1 L pn SDL Hv Hn1) as M2.
      set (p := L ++ [pn]) in *.
      set (s2 := pset p (Dir mode_dir_default) s1) in *.
      assert (HC : create_dir_all (S (length (dir ++ [n_env_launch; pn]))) (dir ++ [n_env_launch; pn]) s = (s2, Ok tt)).
      { rewrite EP. fold p. unfold p. rewrite app_length. cbn [length]. rewrite Nat.add_1_r.
        apply (create_dir_all_two (length L) L pn s s1 s2); [unfold L; apply snoc_not_nil| |exact M1|exact M2].
        unfold mkdir, L. rewrite <- app_assoc. cbn [List.app].
        rewrite (resolve_missing_parent s dir n_env_launch pn false SD Hvl LN). reflexivity. }
      unfold bindM at 1. rewrite HC. rewrite EP. fold p.
      assert (SD2 : simple_dir s2 dir).
      { unfold s2. apply simple_dir_pset_deeper; [|exact SD1]. unfold p, L. rewrite !app_length. cbn. lia. }
      assert (SDL2 : simple_dir s2 L) by (apply simple_dir_pset_child; exact SDL).
      assert (SDp : simple_dir s2 p) by (apply simple_dir_child; [exact SDL2|exact Hv|unfold s2; apply pget_pset_same]).
      assert (PC2 : parent_closed s2).
      { apply pc_pset_new; [exact PC1| |exact Hn1]. exists mode_dir_default. unfold s1. apply pget_pset_same. }
      assert (Below1 : forall r, pget (p ++ r) s = None).
      { intros r. unfold p. rewrite <- app_assoc. apply pc_absent_below; assumption. }
      assert (Hnone : forall f, In f (delta_files order wtab pd) -> pget (p ++ [fst f]) s2 = None).
      { intros f Hf. unfold s2, s1. rewrite pget_pset_other by apply snoc_neq_self.
        rewrite pget_pset_other; [apply Below1|].
        unfold p. rewrite <- app_assoc. intros X. apply (f_equal (@length name)) in X. rewrite !app_length in X. cbn in X. lia. }
      rewrite (write_loop p (delta_files order wtab pd) s2 SDp ND VF Hnone).
      eexists. split; [reflexivity|]. split; [|split].
      + constructor.
        * apply simple_dir_apply_writes_deeper; [|exact SD2].
          intros kv Hkv. unfold file_writes in Hkv. apply in_map_iff in Hkv as (f & <- & Hf). cbn [fst].
          unfold p, L. rewrite !app_length. cbn. lia.
        * apply pc_file_writes; [exact PC2| |exact ND|exact Hnone]. exists mode_dir_default. unfold s2. apply pget_pset_same.
        * apply nodup_apply_writes, nodup_pset, nodup_pset, NDs.
      + right. rewrite pget_apply_writes_notin.
        * unfold s2. rewrite pget_pset_other by (intros X; symmetry in X; exact (snoc_neq_self _ _ X)).
          unfold s1. apply pget_pset_same.
        * intros Hin. apply file_writes_keys in Hin as (f & Hf & E). unfold p in E. rewrite <- app_assoc in E.
          apply (f_equal (@length name)) in E. rewrite !app_length in E. cbn in E. lia.
      + intros q. destruct (is_prefix p q) eqn:Pq.
        * (* at or below the process directory *)
          unfold env_dir_spec. rewrite Ee. destruct (path_eqb q p) eqn:Eqp.
          -- apply path_eqb_spec in Eqp. subst q. rewrite pget_apply_writes_notin; [unfold s2; apply pget_pset_same|].
             intros Hin. apply file_writes_keys in Hin as (f & Hf & E). symmetry in E. exact (snoc_neq_self _ _ E).
          -- apply path_eqb_neq in Eqp.
             destruct (find (fun f => path_eqb q (p ++ [fst f])) (delta_files order wtab pd)) as [f|] eqn:Ef.
             ++ apply find_some in Ef as [Hf Ek]. apply path_eqb_spec in Ek. subst q.
                apply pget_apply_writes_in; [apply file_writes_nodup; exact ND|].
                unfold file_writes. apply in_map_iff. exists f. split; [reflexivity|exact Hf].
             ++ rewrite pget_apply_writes_notin.
                ** unfold s2. rewrite pget_pset_other by exact Eqp.
                   apply is_prefix_spec in Pq as [r ->].
                   unfold s1. rewrite pget_pset_other; [apply Below1|].
                   unfold p. rewrite <- app_assoc. intros X. apply (f_equal (@length name)) in X. rewrite !app_length in X. cbn in X. lia.
                ** intros Hin. apply file_writes_keys in Hin as (f & Hf & ->).
                   pose proof (find_none _ _ Ef f Hf) as X. cbn in X. rewrite path_eqb_refl in X. discriminate.
        * rewrite pget_apply_writes_notin.
          2:{ intros Hin. apply file_writes_keys in Hin as (f & Hf & ->). rewrite is_prefix_app in Pq. discriminate. }
          unfold s2. rewrite pget_pset_other by (intros ->; rewrite is_prefix_refl in Pq; discriminate).
          destruct (path_eqb q L) eqn:EqL.
          -- apply path_eqb_spec in EqL. subst q. unfold s1. apply pget_pset_same.
          -- apply path_eqb_neq in EqL. unfold s1. apply pget_pset_other. exact EqL.
    - (* env.launch exists: an ordinary write_env_dir inside it *)
      assert (SDL : simple_dir s L) by (apply simple_dir_child; assumption).
      assert (IL : fs_inv s L) by (constructor; assumption).
      rewrite EP.
      destruct (write_env_dir_step order wtab pd L pn s IL Hv FO (or_introl Hn)) as (s' & E & IL' & F & G).
      exists s'. split; [exact E|].
      assert (NotUnder : forall k, (k <= length dir)%nat -> is_prefix (L ++ [pn]) (firstn k dir) = false).
      { intros k Hk. destruct (is_prefix (L ++ [pn]) (firstn k dir)) eqn:X; [|reflexivity].
        apply is_prefix_spec in X as [r X]. apply (f_equal (@length name)) in X. unfold L in X.
        rewrite firstn_length, !app_length in X. cbn in X. lia. }
      assert (LNot : is_prefix (L ++ [pn]) L = false).
      { destruct (is_prefix (L ++ [pn]) L) eqn:X; [|reflexivity].
        apply is_prefix_spec in X as [r X]. apply (f_equal (@length name)) in X. rewrite !app_length in X. cbn in X. lia. }
      split; [|split].
      + constructor; [|apply IL'|apply IL'].
        apply (simple_dir_pointwise s s' dir); [|exact SD]. intros k Hk. apply F, NotUnder, Hk.
      + right. rewrite (F L LNot). exact LD.
      + intros q. destruct (delta_is_empty pd) eqn:Ee.
        * destruct (is_prefix (L ++ [pn]) q) eqn:Pq; [|apply F, Pq].
          rewrite (G q Pq). unfold env_dir_spec. rewrite Ee.
          apply is_prefix_spec in Pq as [r ->]. symmetry. apply pc_absent_below; [exact PC|exact Hn].
        * destruct (is_prefix (L ++ [pn]) q) eqn:Pq; [apply G, Pq|].
          rewrite (F q Pq). destruct (path_eqb q L) eqn:EqL; [|reflexivity].
          apply path_eqb_spec in EqL. subst q. exact LD.
  Qed.

  (* ---------- all processes ---------- *)
  Lemma proc_step_ext L l1 l2 pd q : l1 q = l2 q -> proc_step L l1 pd q = proc_step L l2 pd q.
  Proof. intros H. unfold proc_step. rewrite H. reflexivity. Qed.

  Lemma fold_proc_step_ext L procs : forall l1 l2 q, l1 q = l2 q ->
    fold_left (proc_step L) procs l1 q = fold_left (proc_step L) procs l2 q.
  Proof.
    induction procs as [|pd procs IH]; intros l1 l2 q H; cbn [fold_left]; [exact H|].
    apply IH. apply proc_step_ext, H.
  Qed.

  Lemma is_prefix_trans_false (L : path) pn q : is_prefix L q = false -> is_prefix (L ++ [pn]) q = false.
  Proof.
    intros H. destruct (is_prefix (L ++ [pn]) q) eqn:E; [|reflexivity].
    apply is_prefix_spec in E as [r ->]. rewrite <- app_assoc, is_prefix_app in H. discriminate.
  Qed.

  Lemma fold_proc_step_outside L procs : forall look q, is_prefix L q = false ->
    fold_left (proc_step L) procs look q = look q.
  Proof.
    induction procs as [|pd procs IH]; intros look q H; cbn [fold_left]; [reflexivity|].
    rewrite (IH _ q H). unfold proc_step. rewrite (is_prefix_trans_false L (fst pd) q H).
    replace (path_eqb q L) with false; [destruct (delta_is_empty (snd pd)); reflexivity|].
    symmetry. apply path_eqb_neq. intros ->. rewrite is_prefix_refl in H. discriminate.
  Qed.

  Lemma sibling_dirs (L : path) a c r : a <> c -> is_prefix (L ++ [a]) ((L ++ [c]) ++ r) = false.
  Proof.
    intros Hac. destruct (is_prefix (L ++ [a]) ((L ++ [c]) ++ r)) eqn:E; [|reflexivity]. exfalso.
    apply is_prefix_spec in E as [r2 E]. rewrite <- !app_assoc in E. apply app_inv_head in E. cbn in E. inversion E. congruence.
  Qed.

  Theorem write_procs dir : forall procs s,
    let L := dir ++ [n_env_launch] in
    fs_inv s dir -> launch_state s L -> NoDup (map fst procs) ->
    (forall pn pd, In (pn, pd) procs -> valid_name pn = true /\ files_ok order wtab pd /\ pget (L ++ [pn]) s = None) ->
    exists s', iterM (fun pd => write_env_dir order wtab (snd pd) (dir ++ [n_env_launch; fst pd])) procs s = (s', Ok tt) /\
               fs_inv s' dir /\ launch_state s' L /\
               forall q, pget q s' = fold_left (proc_step L) procs (fun q => pget q s) q.
  Proof.
    induction procs as [|[pn pd] procs IH]; intros s L I0 LS ND Hall.
    - exists s. split; [reflexivity|]. split; [exact I0|]. split; [exact LS|reflexivity].
    - cbn [map fst] in ND. inversion ND as [|a b Ha Hb]; subst.
      destruct (Hall pn pd (or_introl eq_refl)) as (Hv & FO & Hn).
      destruct (write_proc_dir dir pn pd s I0 Hv FO LS Hn) as (s1 & E1 & I1 & LS1 & G1). fold L in LS1, G1.
      destruct (IH s1 I1 LS1 Hb) as (s' & E' & I' & LS' & G').
      { intros pn' pd' Hin. destruct (Hall pn' pd' (or_intror Hin)) as (Hv' & FO' & Hn'). split; [exact Hv'|]. split; [exact FO'|].
        fold L. rewrite G1. unfold proc_step. cbn [fst snd].
        assert (Hne : pn <> pn') by (intros ->; apply Ha; change pn' with (fst (pn', pd')); apply in_map, Hin).
        destruct (delta_is_empty pd); [exact Hn'|].
        replace (L ++ [pn']) with ((L ++ [pn']) ++ []) at 1 by apply app_nil_r. rewrite (sibling_dirs L pn pn' [] Hne).
        replace (path_eqb (L ++ [pn']) L) with false by (symmetry; apply path_eqb_neq, snoc_neq_self). exact Hn'. }
      exists s'. split; [|split; [exact I'|split; [exact LS'|]]].
      + cbn [iterM]. unfold bindM at 1. cbn [fst snd]. rewrite E1. exact E'.
      + intros q. rewrite G'. cbn [fold_left]. apply fold_proc_step_ext. apply G1.
  Qed.

  (* the find form: which process directory (if any) a path lies in *)
  Definition nonempty_proc (pd : name * delta) : bool := negb (delta_is_empty (snd pd)).

  Definition launch_spec (dl : delta) (procs : list (name * delta)) (L q : path) : option node :=
    match find (fun pd => nonempty_proc pd && is_prefix (L ++ [fst pd]) q) procs with
    | Some pd => env_dir_spec order wtab (snd pd) (L ++ [fst pd]) q
    | None => if path_eqb q L && existsb nonempty_proc procs then Some (Dir mode_dir_default)
              else env_dir_spec order wtab dl L q
    end.

  Lemma fold_proc_step_find L procs : forall look q,
    NoDup (map fst procs) ->
    fold_left (proc_step L) procs look q =
    match find (fun pd => nonempty_proc pd && is_prefix (L ++ [fst pd]) q) procs with
    | Some pd => env_dir_spec order wtab (snd pd) (L ++ [fst pd]) q
    | None => if path_eqb q L && existsb nonempty_proc procs then Some (Dir mode_dir_default) else look q
    end.
  Proof.
    induction procs as [|[pn pd] procs IH]; intros look q ND; cbn [fold_left find existsb].
    - rewrite andb_false_r. reflexivity.
    - cbn [map fst] in ND. inversion ND as [|a b Ha Hb]; subst. rewrite (IH _ q Hb).
      destruct (find _ procs) as [[pn' pd']|] eqn:Ef.
      + (* a later process directory contains q: then this one does not *)
        apply find_some in Ef as [Hin Hm]. cbn [fst snd] in Hm. apply andb_true_iff in Hm as [_ Hp].
        assert (Hne : pn <> pn') by (intros ->; apply Ha; change pn' with (fst (pn', pd')); apply in_map, Hin).
        cbn [fst snd]. apply is_prefix_spec in Hp as [r ->]. rewrite (sibling_dirs L pn pn' r Hne). rewrite andb_false_r. reflexivity.
      + unfold proc_step, nonempty_proc. cbn [fst snd].
        destruct (delta_is_empty pd); cbn [negb andb orb]; [reflexivity|].
        destruct (is_prefix (L ++ [pn]) q) eqn:Pq.
        * replace (path_eqb q L) with false; [reflexivity|]. symmetry. apply path_eqb_neq. intros ->.
          apply is_prefix_spec in Pq as [r Pq]. apply (f_equal (@length name)) in Pq. rewrite !app_length in Pq. cbn in Pq. lia.
        * destruct (path_eqb q L); cbn [andb]; [destruct (existsb _ procs); reflexivity|reflexivity].
  Qed.
End Proc.
