(* Stream.v -- executable models of libherokubuildpack::write (MappedWrite, TeeWrite) and of the
   two-pipe streaming of libherokubuildpack::command (child process, two bounded pipes, two copier
   threads).  Pipes, blocking reads/writes and the scheduler are an environment model. *)
From LV Require Import Base.

(* ---------- MappedWrite ---------- *)
Section Mapped.
  Variable f : bytes -> bytes.       (* mapping_fn *)
  Variable m : N.                    (* marker byte *)
  Variable skip_empty : bool.        (* F5 repaired: an empty buffer is not mapped at the end *)

  Record mw := mkMW { mw_buf : bytes; mw_out : bytes }.

  Definition mw_byte (s : mw) (x : N) : mw :=
    let buf := mw_buf s ++ [x] in
    if x =? m then mkMW [] (mw_out s ++ f buf) else mkMW buf (mw_out s).

  Definition mw_write (s : mw) (chunk : bytes) : mw := fold_left mw_byte chunk s.

  (* drop / unwrap *)
  Definition mw_finish (s : mw) : bytes :=
    if skip_empty && is_empty (mw_buf s) then mw_out s else mw_out s ++ f (mw_buf s).

  Definition mw_run (chunks : list bytes) : bytes := mw_finish (fold_left mw_write chunks (mkMW [] [])).

  (* the marker-terminated segments of an input, then the non-empty remainder *)
  Fixpoint segments (input cur : bytes) : list bytes :=
    match input with
    | [] => match cur with [] => [] | _ => [cur] end
    | x :: r => if x =? m then (cur ++ [x]) :: segments r [] else segments r (cur ++ [x])
    end.

  Definition mapped_spec (input : bytes) : bytes := concat (map f (segments input [])).
End Mapped.

(* TeeWrite over two infallible sinks *)
Definition tee_run (chunks : list bytes) : bytes * bytes :=
  fold_left (fun ab c => (fst ab ++ c, snd ab ++ c)) chunks ([], []).

(* ---------- child process streaming ---------- *)
Inductive stream := SOut | SErr.
Definition stream_eqb (a b : stream) : bool := match a, b with SOut, SOut | SErr, SErr => true | _, _ => false end.

Record pstate := mkPS {
  script : list (stream * bytes);     (* the child's remaining writes, in program order *)
  closed : bool;                      (* the child has exited: both pipes closed for writing *)
  p_out : bytes; p_err : bytes;       (* pipe contents *)
  k_out : bytes; k_err : bytes        (* what the copier threads delivered to the sinks *)
}.

Inductive pstep := ChildWrite (k : nat) | ChildExit | CopyOut (k : nat) | CopyErr (k : nat).

Section Pipes.
  Variable cap : nat.                 (* pipe capacity, > 0 *)
  Variable parallel : bool.           (* true: two copier threads; false: stdout first, then stderr *)

  Definition pipe_of (s : pstate) (x : stream) : bytes := match x with SOut => p_out s | SErr => p_err s end.

  (* one transition; None = not enabled *)
  Definition do_step (s : pstate) (t : pstep) : option pstate :=
    match t with
    | ChildWrite k =>
        match script s with
        | (x, data) :: rest =>
            let room := (cap - length (pipe_of s x))%nat in
            match data with
            | [] => if Nat.eqb k 0 then Some (mkPS rest (closed s) (p_out s) (p_err s) (k_out s) (k_err s)) else None
            | _ =>
                if (Nat.ltb 0 k) && (Nat.leb k room) && (Nat.leb k (length data)) then
                  let w := firstn k data in
                  let data' := skipn k data in
                  let script' := match data' with [] => rest | _ => (x, data') :: rest end in
                  match x with
                  | SOut => Some (mkPS script' (closed s) (p_out s ++ w) (p_err s) (k_out s) (k_err s))
                  | SErr => Some (mkPS script' (closed s) (p_out s) (p_err s ++ w) (k_out s) (k_err s))
                  end
                else None
            end
        | [] => None
        end
    | ChildExit =>
        match script s with
        | [] => if closed s then None else Some (mkPS [] true (p_out s) (p_err s) (k_out s) (k_err s))
        | _ => None
        end
    | CopyOut k =>
        if (Nat.ltb 0 k) && (Nat.leb k (length (p_out s))) then
          Some (mkPS (script s) (closed s) (skipn k (p_out s)) (p_err s) (k_out s ++ firstn k (p_out s)) (k_err s))
        else None
    | CopyErr k =>
        (* the sequential variant reads stderr only after stdout reached end-of-file *)
        if (parallel || (closed s && is_empty (p_out s))) && (Nat.ltb 0 k) && (Nat.leb k (length (p_err s))) then
          Some (mkPS (script s) (closed s) (p_out s) (skipn k (p_err s)) (k_out s) (k_err s ++ firstn k (p_err s)))
        else None
    end.

  Definition final (s : pstate) : bool :=
    is_empty (script s) && closed s && is_empty (p_out s) && is_empty (p_err s).

  (* some transition is enabled *)
  Definition can_step (s : pstate) : bool :=
    match script s with
    | (x, []) :: _ => true
    | (x, _ :: _) :: _ => Nat.ltb (length (pipe_of s x)) cap
    | [] => negb (closed s)
    end
    || negb (is_empty (p_out s))
    || ((parallel || (closed s && is_empty (p_out s))) && negb (is_empty (p_err s))).

  Definition init (sc : list (stream * bytes)) : pstate := mkPS sc false [] [] [] [].

  Fixpoint run_steps (s : pstate) (ts : list pstep) : option pstate :=
    match ts with
    | [] => Some s
    | t :: ts' => match do_step s t with Some s' => run_steps s' ts' | None => None end
    end.

  (* everything the child writes to one stream, in order *)
  Definition written (sc : list (stream * bytes)) (x : stream) : bytes :=
    flat_map (fun w => if stream_eqb (fst w) x then snd w else []) sc.
End Pipes.
