(* Base.v -- byte strings, ordered finite maps keyed by byte strings, result monad.
   Stdlib only.  Models and their algebraic laws that every other file uses. *)
From Coq Require Export List NArith ZArith Bool Lia.
Export ListNotations.
Open Scope N_scope.
Arguments N.add : simpl never.
Arguments N.sub : simpl never.
Arguments N.mul : simpl never.
Arguments N.eqb : simpl never.
Arguments N.ltb : simpl never.
Arguments N.leb : simpl never.

Definition bytes := list N.

Definition is_empty {A} (b : list A) : bool := match b with [] => true | _ => false end.

(* ---------- equality and lexicographic order on byte strings ---------- *)

Fixpoint beq (a b : bytes) : bool :=
  match a, b with
  | [], [] => true
  | x :: a', y :: b' => N.eqb x y && beq a' b'
  | _, _ => false
  end.

Lemma beq_spec a b : beq a b = true <-> a = b.
Proof.
  revert b; induction a as [|x a IH]; intros [|y b]; cbn [beq]; split; intro H;
    try reflexivity; try discriminate.
  - apply andb_true_iff in H as [H1 H2]. apply N.eqb_eq in H1. apply IH in H2. congruence.
  - injection H as -> ->. apply andb_true_iff; split; [apply N.eqb_refl | now apply IH].
Qed.

Lemma beq_refl a : beq a a = true.
Proof. now apply beq_spec. Qed.

Lemma beq_neq a b : beq a b = false <-> a <> b.
Proof.
  split; intro H.
  - intro E. apply beq_spec in E. congruence.
  - destruct (beq a b) eqn:E; [|reflexivity]. apply beq_spec in E. contradiction.
Qed.

Lemma beq_sym a b : beq a b = beq b a.
Proof.
  destruct (beq a b) eqn:E.
  - apply beq_spec in E. subst. symmetry. apply beq_refl.
  - apply beq_neq in E. symmetry. apply beq_neq. congruence.
Qed.

Fixpoint bcmp (a b : bytes) : comparison :=
  match a, b with
  | [], [] => Eq
  | [], _ :: _ => Lt
  | _ :: _, [] => Gt
  | x :: a', y :: b' =>
      match N.compare x y with
      | Eq => bcmp a' b'
      | c => c
      end
  end.

Lemma bcmp_eq a b : bcmp a b = Eq <-> a = b.
Proof.
  revert b; induction a as [|x a IH]; intros [|y b]; cbn [bcmp]; split; intro H;
    try reflexivity; try discriminate.
  - destruct (N.compare x y) eqn:C; try discriminate.
    apply N.compare_eq_iff in C. apply IH in H. congruence.
  - injection H as -> ->. rewrite N.compare_refl. now apply IH.
Qed.

Lemma bcmp_refl a : bcmp a a = Eq.
Proof. now apply bcmp_eq. Qed.

Lemma bcmp_antisym a b : bcmp b a = CompOpp (bcmp a b).
Proof.
  revert b; induction a as [|x a IH]; intros [|y b]; cbn [bcmp]; try reflexivity.
  rewrite (N.compare_antisym x y).
  destruct (N.compare x y); cbn; auto.
Qed.

Lemma bcmp_lt_trans a b c : bcmp a b = Lt -> bcmp b c = Lt -> bcmp a c = Lt.
Proof.
  revert b c; induction a as [|x a IH]; intros [|y b] [|z c]; cbn [bcmp]; intros H1 H2;
    try reflexivity; try discriminate.
  destruct (N.compare x y) eqn:C1; try discriminate;
  destruct (N.compare y z) eqn:C2; try discriminate.
  - apply N.compare_eq_iff in C1, C2. subst. rewrite N.compare_refl. eapply IH; eauto.
  - apply N.compare_eq_iff in C1. subst. now rewrite C2.
  - apply N.compare_eq_iff in C2. subst. now rewrite C1.
  - rewrite N.compare_lt_iff in *. assert (x < z) by lia.
    apply N.compare_lt_iff in H. now rewrite H.
Qed.

Lemma bcmp_gt_lt a b : bcmp a b = Gt <-> bcmp b a = Lt.
Proof. rewrite (bcmp_antisym a b). destruct (bcmp a b); cbn; split; congruence. Qed.

Lemma bcmp_beq a b : beq a b = match bcmp a b with Eq => true | _ => false end.
Proof.
  destruct (bcmp a b) eqn:C.
  - apply bcmp_eq in C. subst. apply beq_refl.
  - apply beq_neq. intro E. subst. rewrite bcmp_refl in C. discriminate.
  - apply beq_neq. intro E. subst. rewrite bcmp_refl in C. discriminate.
Qed.

(* ---------- ordered finite maps keyed by byte strings ---------- *)

Section BMap.
  Context {V : Type}.
  Definition bmap := list (bytes * V).

  Fixpoint bget (k : bytes) (m : bmap) : option V :=
    match m with
    | [] => None
    | (k', v) :: m' => if beq k k' then Some v else bget k m'
    end.

  (* sorted insert; replaces an equal key (BTreeMap::insert / HashMap::insert) *)
  Fixpoint bset (k : bytes) (v : V) (m : bmap) : bmap :=
    match m with
    | [] => [(k, v)]
    | (k', v') :: m' =>
        match bcmp k k' with
        | Lt => (k, v) :: m
        | Eq => (k, v) :: m'
        | Gt => (k', v') :: bset k v m'
        end
    end.

  Fixpoint bdel (k : bytes) (m : bmap) : bmap :=
    match m with
    | [] => []
    | (k', v') :: m' => if beq k k' then bdel k m' else (k', v') :: bdel k m'
    end.

  Definition bkeys (m : bmap) : list bytes := map fst m.

  (* every key of m is strictly above k *)
  Definition above (k : bytes) (m : bmap) : Prop :=
    forall k' v', In (k', v') m -> bcmp k k' = Lt.

  Fixpoint bsorted (m : bmap) : Prop :=
    match m with
    | [] => True
    | (k, _) :: m' => above k m' /\ bsorted m'
    end.

  Fixpoint bsortedb (m : bmap) : bool :=
    match m with
    | [] => true
    | (k, _) :: m' =>
        match m' with
        | [] => true
        | (k', _) :: _ => match bcmp k k' with Lt => bsortedb m' | _ => false end
        end
    end.

  Lemma above_trans k k' m : bcmp k k' = Lt -> above k' m -> above k m.
  Proof. intros H A k2 v2 I. eapply bcmp_lt_trans; eauto. Qed.

  Lemma bsortedb_spec m : bsortedb m = true <-> bsorted m.
  Proof.
    induction m as [|[k v] m IH]; cbn [bsortedb bsorted]; [tauto|].
    destruct m as [|[k' v'] m'].
    - split; [|reflexivity]. intros _. split; [|exact I]. intros ? ? [].
    - destruct (bcmp k k') eqn:C.
      + split; [discriminate|]. intros [A _]. specialize (A k' v' (or_introl eq_refl)). congruence.
      + rewrite IH. split.
        * intros S. split; [|exact S]. intros k2 v2 [E|I2].
          -- injection E as <- <-. exact C.
          -- destruct S as [A _]. eapply bcmp_lt_trans; [exact C|]. eapply A; eauto.
        * tauto.
      + split; [discriminate|]. intros [A _]. specialize (A k' v' (or_introl eq_refl)). congruence.
  Qed.

  Lemma bget_above k m : above k m -> bget k m = None.
  Proof.
    induction m as [|[k' v'] m IH]; intros A; cbn [bget]; [reflexivity|].
    assert (C : bcmp k k' = Lt) by (eapply A; left; reflexivity).
    rewrite bcmp_beq, C. apply IH. intros k2 v2 I. eapply A; right; eauto.
  Qed.

  Lemma bget_above_lt k k' m : above k' m -> bcmp k k' = Lt -> bget k m = None.
  Proof. intros A C. apply bget_above. eapply above_trans; eauto. Qed.

  Lemma bget_set_same k v m : bget k (bset k v m) = Some v.
  Proof.
    induction m as [|[k' v'] m IH]; cbn [bset bget].
    - now rewrite beq_refl.
    - destruct (bcmp k k') eqn:C; cbn [bget].
      + now rewrite beq_refl.
      + now rewrite beq_refl.
      + rewrite bcmp_beq, C. exact IH.
  Qed.

  Lemma bget_set_other k k2 v m : k2 <> k -> bget k2 (bset k v m) = bget k2 m.
  Proof.
    intros NE. induction m as [|[k' v'] m IH]; cbn [bset bget].
    - apply beq_neq in NE. now rewrite NE.
    - destruct (bcmp k k') eqn:C; cbn [bget].
      + apply bcmp_eq in C. subst k'. apply beq_neq in NE. now rewrite NE.
      + apply beq_neq in NE. now rewrite NE.
      + now rewrite IH.
  Qed.

  Lemma bget_set k k2 v m : bget k2 (bset k v m) = if beq k2 k then Some v else bget k2 m.
  Proof.
    destruct (beq k2 k) eqn:E.
    - apply beq_spec in E. subst. apply bget_set_same.
    - apply beq_neq in E. now apply bget_set_other.
  Qed.

  Lemma in_bset k v m k2 v2 :
    In (k2, v2) (bset k v m) -> (k2 = k /\ v2 = v) \/ In (k2, v2) m.
  Proof.
    induction m as [|[k' v'] m IH]; cbn [bset].
    - intros [E|[]]. injection E as <- <-. now left.
    - destruct (bcmp k k') eqn:C.
      + intros [E|I2]; [injection E as <- <-; now left | right; right; exact I2].
      + intros [E|I2]; [injection E as <- <-; now left | right; exact I2].
      + intros [E|I2]; [right; now left|]. apply IH in I2 as [?|?]; [now left|right; now right].
  Qed.

  Lemma bset_sorted k v m : bsorted m -> bsorted (bset k v m).
  Proof.
    induction m as [|[k' v'] m IH]; cbn [bset bsorted].
    - intros _. split; [intros ? ? []|exact I].
    - intros [A S]. destruct (bcmp k k') eqn:C; cbn [bsorted].
      + apply bcmp_eq in C. subst k'. split; assumption.
      + split; [|split; assumption]. intros k2 v2 [E|I2].
        * injection E as <- <-. exact C.
        * eapply bcmp_lt_trans; [exact C|]. eapply A; eauto.
      + split; [|now apply IH]. intros k2 v2 I2. apply in_bset in I2 as [[-> ->]|I2].
        * now apply bcmp_gt_lt.
        * eapply A; eauto.
  Qed.

  Lemma bget_in k v m : bget k m = Some v -> In (k, v) m.
  Proof.
    induction m as [|[k' v'] m IH]; cbn [bget]; [discriminate|].
    destruct (beq k k') eqn:E.
    - apply beq_spec in E. subst. intros [= ->]. now left.
    - intros H. right. now apply IH.
  Qed.

  Lemma in_bget k v m : bsorted m -> In (k, v) m -> bget k m = Some v.
  Proof.
    induction m as [|[k' v'] m IH]; cbn [bget bsorted]; [intros _ []|].
    intros [A S] [E|I2].
    - injection E as -> ->. now rewrite beq_refl.
    - assert (C : bcmp k' k = Lt) by (eapply A; eauto).
      assert (NE : beq k k' = false).
      { apply beq_neq. intro; subst. rewrite bcmp_refl in C. discriminate. }
      rewrite NE. now apply IH.
  Qed.

  Lemma bmap_ext m1 m2 :
    bsorted m1 -> bsorted m2 -> (forall k, bget k m1 = bget k m2) -> m1 = m2.
  Proof.
    revert m2. induction m1 as [|[k1 v1] m1 IH]; intros [|[k2 v2] m2] S1 S2 H.
    - reflexivity.
    - specialize (H k2). cbn [bget] in H. rewrite beq_refl in H. discriminate.
    - specialize (H k1). cbn [bget] in H. rewrite beq_refl in H. discriminate.
    - destruct S1 as [A1 S1], S2 as [A2 S2].
      destruct (bcmp k1 k2) eqn:C.
      + apply bcmp_eq in C. subst k2.
        assert (v1 = v2).
        { specialize (H k1). cbn [bget] in H. rewrite beq_refl in H. congruence. }
        subst v2. f_equal. apply IH; try assumption.
        intros k. specialize (H k). cbn [bget] in H.
        destruct (beq k k1) eqn:E; [|exact H].
        apply beq_spec in E. subst k. now rewrite !bget_above.
      + exfalso. specialize (H k1). cbn [bget] in H. rewrite beq_refl in H.
        rewrite bcmp_beq, C in H. rewrite (bget_above_lt k1 k2 m2 A2 C) in H. discriminate.
      + exfalso. apply bcmp_gt_lt in C. specialize (H k2). cbn [bget] in H.
        rewrite beq_refl in H. rewrite bcmp_beq, C in H.
        rewrite (bget_above_lt k2 k1 m1 A1 C) in H. discriminate.
  Qed.

  Lemma bset_comm k1 v1 k2 v2 m :
    bsorted m -> k1 <> k2 -> bset k1 v1 (bset k2 v2 m) = bset k2 v2 (bset k1 v1 m).
  Proof.
    intros S NE. apply bmap_ext; try (repeat apply bset_sorted; assumption).
    intros k. rewrite !bget_set.
    destruct (beq k k1) eqn:E1, (beq k k2) eqn:E2; try reflexivity.
    apply beq_spec in E1, E2. congruence.
  Qed.

  Lemma bset_idem k v1 v2 m : bsorted m -> bset k v2 (bset k v1 m) = bset k v2 m.
  Proof.
    intros S. apply bmap_ext; try (repeat apply bset_sorted; assumption).
    intros k'. rewrite !bget_set. destruct (beq k' k); reflexivity.
  Qed.

  Lemma bget_del k k2 m : bget k2 (bdel k m) = if beq k2 k then None else bget k2 m.
  Proof.
    induction m as [|[k' v'] m IH]; cbn [bdel bget].
    - now destruct (beq k2 k).
    - destruct (beq k k') eqn:E.
      + apply beq_spec in E. subst k'. rewrite IH. destruct (beq k2 k); reflexivity.
      + cbn [bget]. rewrite IH. destruct (beq k2 k) eqn:E2; [|reflexivity].
        apply beq_spec in E2. subst k2. now rewrite E.
  Qed.

  Lemma in_bdel k m k2 v2 : In (k2, v2) (bdel k m) -> In (k2, v2) m.
  Proof.
    induction m as [|[k' v'] m IH]; cbn [bdel]; [tauto|].
    destruct (beq k k'); [intros; right; auto|].
    intros [E|I2]; [now left|right; auto].
  Qed.

  Lemma bdel_sorted k m : bsorted m -> bsorted (bdel k m).
  Proof.
    induction m as [|[k' v'] m IH]; cbn [bdel bsorted]; [tauto|].
    intros [A S]. destruct (beq k k'); [auto|]. cbn [bsorted]. split; [|auto].
    intros k2 v2 I2. apply in_bdel in I2. eapply A; eauto.
  Qed.

  Definition bof_list (l : list (bytes * V)) : bmap :=
    fold_left (fun m kv => bset (fst kv) (snd kv) m) l [].

  Lemma fold_bset_sorted l m : bsorted m ->
    bsorted (fold_left (fun m kv => bset (fst kv) (snd kv) m) l m).
  Proof.
    revert m; induction l as [|[k v] l IH]; intros m S; cbn [fold_left]; [exact S|].
    apply IH. now apply bset_sorted.
  Qed.

  Lemma bof_list_sorted l : bsorted (bof_list l).
  Proof. apply fold_bset_sorted. exact I. Qed.
End BMap.
Arguments bmap : clear implicits.

(* boolean equality on maps given a value equality *)
Fixpoint bmap_eqb {V} (veq : V -> V -> bool) (m1 m2 : bmap V) : bool :=
  match m1, m2 with
  | [], [] => true
  | (k1, v1) :: m1', (k2, v2) :: m2' => beq k1 k2 && veq v1 v2 && bmap_eqb veq m1' m2'
  | _, _ => false
  end.

Lemma bmap_eqb_spec {V} (veq : V -> V -> bool) :
  (forall a b, veq a b = true <-> a = b) ->
  forall m1 m2, bmap_eqb veq m1 m2 = true <-> m1 = m2.
Proof.
  intros Hv. induction m1 as [|[k1 v1] m1 IH]; intros [|[k2 v2] m2]; cbn [bmap_eqb];
    split; intro H; try reflexivity; try discriminate.
  - apply andb_true_iff in H as [H H3]. apply andb_true_iff in H as [H1 H2].
    apply beq_spec in H1. apply Hv in H2. apply IH in H3. congruence.
  - injection H as -> -> ->. rewrite beq_refl. cbn.
    apply andb_true_iff. split; [now apply Hv | now apply IH].
Qed.

Definition opt_eqb {A} (eqb : A -> A -> bool) (a b : option A) : bool :=
  match a, b with
  | None, None => true
  | Some x, Some y => eqb x y
  | _, _ => false
  end.

Lemma opt_eqb_spec {A} (eqb : A -> A -> bool) :
  (forall a b, eqb a b = true <-> a = b) ->
  forall a b, opt_eqb eqb a b = true <-> a = b.
Proof.
  intros H [x|] [y|]; cbn; split; intro E; try reflexivity; try discriminate.
  - apply H in E. congruence.
  - injection E as ->. now apply H.
Qed.

Fixpoint list_eqb {A} (eqb : A -> A -> bool) (a b : list A) : bool :=
  match a, b with
  | [], [] => true
  | x :: a', y :: b' => eqb x y && list_eqb eqb a' b'
  | _, _ => false
  end.

Lemma list_eqb_spec {A} (eqb : A -> A -> bool) :
  (forall a b, eqb a b = true <-> a = b) ->
  forall a b, list_eqb eqb a b = true <-> a = b.
Proof.
  intros H. induction a as [|x a IH]; intros [|y b]; cbn [list_eqb]; split; intro E;
    try reflexivity; try discriminate.
  - apply andb_true_iff in E as [E1 E2]. apply H in E1. apply IH in E2. congruence.
  - injection E as -> ->. apply andb_true_iff. split; [now apply H|now apply IH].
Qed.

(* ---------- result monad ---------- *)
Inductive result (E A : Type) : Type :=
| Ok (a : A)
| Err (e : E).
Arguments Ok {E A} a.
Arguments Err {E A} e.

Definition rbind {E A B} (r : result E A) (f : A -> result E B) : result E B :=
  match r with Ok a => f a | Err e => Err e end.
Notation "'do' x <- r ; k" := (rbind r (fun x => k))
  (at level 200, x pattern, r at level 100, k at level 200, right associativity).

(* indices of elements for which a boolean test fails; used by generated case files *)
Fixpoint failing_ids {A} (f : A -> bool) (l : list (N * A)) : list N :=
  match l with
  | [] => []
  | (i, a) :: l' => if f a then failing_ids f l' else i :: failing_ids f l'
  end.
