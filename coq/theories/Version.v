(* Version.v -- executable model of libcnb-data buildpack/version.rs and buildpack/api.rs:
   BuildpackVersion::try_from, BuildpackApi::try_from and their Display impls.
   u64::from_str (optional '+', ASCII digits, overflow = error) and Display for u64 (canonical
   decimal) are environment models.  Definitions only; proofs in VersionFacts.v. *)
From LV Require Import Base.
From Coq Require Import Decimal DecimalN.

Definition digit_ctor (c : N) : option (uint -> uint) :=
  if c =? 48 then Some D0 else if c =? 49 then Some D1 else if c =? 50 then Some D2
  else if c =? 51 then Some D3 else if c =? 52 then Some D4 else if c =? 53 then Some D5
  else if c =? 54 then Some D6 else if c =? 55 then Some D7 else if c =? 56 then Some D8
  else if c =? 57 then Some D9 else None.

Fixpoint uint_of_bytes (s : bytes) : option uint :=
  match s with
  | [] => Some Nil
  | c :: s' =>
      match digit_ctor c, uint_of_bytes s' with
      | Some k, Some u => Some (k u)
      | _, _ => None
      end
  end.

Fixpoint bytes_of_uint (u : uint) : bytes :=
  match u with
  | Nil => []
  | D0 u => 48 :: bytes_of_uint u | D1 u => 49 :: bytes_of_uint u | D2 u => 50 :: bytes_of_uint u
  | D3 u => 51 :: bytes_of_uint u | D4 u => 52 :: bytes_of_uint u | D5 u => 53 :: bytes_of_uint u
  | D6 u => 54 :: bytes_of_uint u | D7 u => 55 :: bytes_of_uint u | D8 u => 56 :: bytes_of_uint u
  | D9 u => 57 :: bytes_of_uint u
  end.

(* Display for u64 *)
Definition dec (n : N) : bytes := bytes_of_uint (N.to_uint n).

Definition is_digit (c : N) : bool := (48 <=? c) && (c <=? 57).

(* non-empty ASCII digits -> value *)
Definition parse_digits (s : bytes) : option N :=
  match s with
  | [] => None
  | _ => option_map N.of_uint (uint_of_bytes s)
  end.

Definition u64_max_plus_1 : N := 18446744073709551616.

(* the repaired component parser: plain digits only *)
Definition parse_u64_strict (s : bytes) : option N :=
  match parse_digits s with
  | Some n => if n <? u64_max_plus_1 then Some n else None
  | None => None
  end.

(* u64::from_str: an optional leading '+' is accepted *)
Definition parse_u64_rust (s : bytes) : option N :=
  match s with
  | 43 :: s' => parse_u64_strict s'
  | _ => parse_u64_strict s
  end.

(* str::split('.') *)
Fixpoint split_dot (s : bytes) : list bytes :=
  match s with
  | [] => [[]]
  | c :: s' =>
      if c =? 46 then [] :: split_dot s'
      else match split_dot s' with
           | [] => [[c]]           (* unreachable: split_dot never returns [] *)
           | h :: t => (c :: h) :: t
           end
  end.

Definition leading_zero_ok (c : bytes) : bool :=
  match c with 48 :: _ :: _ => false | _ => true end.

Section Versions.
  Variable pu : bytes -> option N.     (* the component parser: strict (repaired) or rust (legacy) *)

  Definition parse_version (s : bytes) : option (N * N * N) :=
    match split_dot s with
    | [a; b; c] =>
        if leading_zero_ok a && leading_zero_ok b && leading_zero_ok c then
          match pu a, pu b, pu c with
          | Some x, Some y, Some z => Some (x, y, z)
          | _, _, _ => None
          end
        else None
    | _ => None
    end.

  (* str::split_once('.') *)
  Fixpoint split_once_dot (s : bytes) : option (bytes * bytes) :=
    match s with
    | [] => None
    | c :: s' =>
        if c =? 46 then Some ([], s')
        else match split_once_dot s' with Some (a, b) => Some (c :: a, b) | None => None end
    end.

  Definition parse_api (s : bytes) : option (N * N) :=
    let '(ma, mi) := match split_once_dot s with Some p => p | None => (s, [48]) end in
    match pu ma, pu mi with
    | Some a, Some b => Some (a, b)
    | _, _ => None
    end.
End Versions.

Definition show_version (v : N * N * N) : bytes :=
  let '(x, y, z) := v in dec x ++ [46] ++ dec y ++ [46] ++ dec z.
Definition show_api (v : N * N) : bytes := dec (fst v) ++ [46] ++ dec (snd v).

Definition no_dot (s : bytes) : Prop := ~ In 46 s.
