(* ArgvTypes.v -- the enums of libcnb-test/src/pack.rs that the regenerated argv builders
   (GenLibcnbTest.gen_pack_build_argv) take apart. *)
From LV Require Import Base.

Inductive pull_policy := PullAlways | PullIfNotPresent | PullNever.      (* pack::PullPolicy *)
Inductive bp_ref := BpId (id : bytes) | BpPath (p : bytes).              (* pack::BuildpackReference *)
