(* LayerEnvFSCycle.v -- the read/write fixpoint at file-system level (C10, C03): a layer directory
   whose env directories are what LayerEnv::write_to_layer_dir leaves for a process-free
   environment e reads back as e (plus the implicit layer paths, which depend on bin/lib/include/
   pkgconfig only), and writing what was read leaves EVERY path of the file system as it was --
   hence so does any number of read -> write cycles. *)
From LV Require Import Base FS FSFacts LayerShared LayerSharedFacts LayerSharedGone LayerEnv LayerEnvFacts
  LayerEnvFS LayerEnvFSFacts Determinism FSInv LayerEnvFSExact LayerEnvFSCompose LayerEnvReadback LayerEnvFSRead.
From Coq Require Import Lia Permutation.
Open Scope N_scope.

Lemma delta_is_empty_eq d : delta_is_empty d = true -> d = delta_empty.
Proof. destruct d as [[|] [|] [|] [|] [|]]; cbn; intros H; try discriminate; reflexivity. Qed.

Lemma snoc2 {A} (d : list A) a b : d ++ [a; b] = (d ++ [a]) ++ [b].
Proof. rewrite <- app_assoc. reflexivity. Qed.

Section Cycle.
  Variable wtab : writer_table.
  Variable rtab : reader_table.
  Variable no_ext : option beh.
  Variable path_rows : list (bytes * scope_kind * bytes).
  Variable sep : bytes.
  Variable reads_process : bool.
  Hypothesis T : tables_inverse wtab rtab.

  Definition delta_ok (d : delta) : Prop :=
    delta_wf d /\ delta_names_nonempty d /\ files_ok spec_beh_order wtab d.

  Definition dir_written (d : delta) (p : path) (s : fs) : Prop :=
    forall q, is_prefix p q = true -> pget q s = env_dir_spec spec_beh_order wtab d p q.

  (* reading one env root that holds what the writer leaves for d *)
  Lemma read_dir_if_dir_written d dir nm s :
    simple_dir s dir -> valid_name nm = true -> delta_ok d -> dir_written d (dir ++ [nm]) s ->
    read_dir_if_dir rtab no_ext reads_process (dir ++ [nm]) s = (s, Ok d).
  Proof.
    intros SD Hv (W & NE & FO) Spec. unfold read_dir_if_dir.
    destruct (delta_is_empty d) eqn:Ee.
    - assert (Hn : pget (dir ++ [nm]) s = None).
      { rewrite (Spec _ (is_prefix_refl _)). unfold env_dir_spec. rewrite Ee. reflexivity. }
      assert (NL : not_link (pget (dir ++ [nm]) s)) by (rewrite Hn; intros t; discriminate).
      unfold is_dir. rewrite (stat_in_dir s dir nm SD Hv NL), Hn.
      rewrite (delta_is_empty_eq d Ee). reflexivity.
    - destruct (written_dir_facts wtab d (dir ++ [nm]) s FO Ee Spec) as (Hp & _).
      assert (NL : not_link (pget (dir ++ [nm]) s)) by (rewrite Hp; intros t; discriminate).
      unfold is_dir. rewrite (stat_in_dir s dir nm SD Hv NL), Hp.
      apply (read_env_dir_exact wtab rtab no_ext reads_process T d); try assumption.
      apply simple_dir_child; assumption.
  Qed.

  (* no entry of a written env.launch is a directory: no per-process environment is read *)
  Lemma procs_of_written d dir s :
    simple_dir s dir -> delta_ok d -> dir_written d (dir ++ [n_env_launch]) s ->
    (if reads_process
     then fun s1 =>
            if is_dir (dir ++ [n_env_launch]) s1 then
              (pl <- readdir (dir ++ [n_env_launch]) ;;
               fold_left (fun (acc : M (bmap delta)) (nm : name) =>
                            m <- acc ;;
                            isd <- (fun s2 => (s2, Ok (is_dir (dir ++ [n_env_launch; nm]) s2))) ;;
                            if isd : bool
                            then d <- read_from_env_dir rtab no_ext reads_process (dir ++ [n_env_launch; nm]) ;; ret (bset nm d m)
                            else ret m)
                         (snd pl) (ret [])) s1
            else (s1, Ok [])
     else ret []) s = (s, Ok []).
  Proof.
    intros SD (W & NE & FO) Spec. destruct reads_process; [|reflexivity].
    assert (Hv : valid_name n_env_launch = true) by reflexivity.
    destruct (delta_is_empty d) eqn:Ee.
    - assert (Hn : pget (dir ++ [n_env_launch]) s = None).
      { rewrite (Spec _ (is_prefix_refl _)). unfold env_dir_spec. rewrite Ee. reflexivity. }
      assert (NL : not_link (pget (dir ++ [n_env_launch]) s)) by (rewrite Hn; intros t; discriminate).
      unfold is_dir. rewrite (stat_in_dir s dir n_env_launch SD Hv NL), Hn. reflexivity.
    - destruct (written_dir_facts wtab d (dir ++ [n_env_launch]) s FO Ee Spec) as (Hp & _ & _ & Hall).
      assert (NL : not_link (pget (dir ++ [n_env_launch]) s)) by (rewrite Hp; intros t; discriminate).
      unfold is_dir at 1. rewrite (stat_in_dir s dir n_env_launch SD Hv NL), Hp.
      assert (SDp : simple_dir s (dir ++ [n_env_launch])) by (apply simple_dir_child; assumption).
      unfold bindM at 1. unfold readdir. rewrite (resolve_simple s _ true SDp), Hp.
      change (has_r mode_dir_default) with true. cbn [snd].
      set (p := dir ++ [n_env_launch]) in *.
      assert (G : forall names (acc : M (bmap delta)), acc s = (s, Ok []) ->
        (forall nm, In nm names -> In nm (children p s)) ->
        fold_left (fun (acc : M (bmap delta)) (nm : name) =>
                     m <- acc ;;
                     isd <- (fun s2 => (s2, Ok (is_dir (dir ++ [n_env_launch; nm]) s2))) ;;
                     if isd : bool
                     then d <- read_from_env_dir rtab no_ext true (dir ++ [n_env_launch; nm]) ;; ret (bset nm d m)
                     else ret m) names acc s = (s, Ok [])).
      { induction names as [|nm names IH]; intros acc Hacc Hsub; cbn [fold_left]; [exact Hacc|].
        apply IH; [|intros n Hn; apply Hsub; right; exact Hn].
        destruct (Hall nm (Hsub nm (or_introl eq_refl))) as (Hvn & fm & c & Hf & _).
        assert (NLn : not_link (pget (p ++ [nm]) s)) by (rewrite Hf; intros t; discriminate).
        unfold bindM at 1. rewrite Hacc. unfold bindM at 1.
        rewrite snoc2. fold p. unfold is_dir. rewrite (stat_in_dir s p nm SDp Hvn NLn), Hf. reflexivity. }
      apply G; [reflexivity|auto].
  Qed.

  Definition layer_written (e : layer_env) (dir : path) (s : fs) : Prop :=
    dir_written (le_all e) (dir ++ [n_env]) s /\
    dir_written (le_build e) (dir ++ [n_env_build]) s /\
    dir_written (le_launch e) (dir ++ [n_env_launch]) s.

  Definition env_ok (e : layer_env) : Prop :=
    le_process e = [] /\ delta_ok (le_all e) /\ delta_ok (le_build e) /\ delta_ok (le_launch e).

  (* what read_from_layer_dir returns on a written layer: the explicit deltas as written, no
     process deltas, and the implicit paths of the current bin/lib/include/pkgconfig *)
  Definition read_result (e : layer_env) (dir : path) (s : fs) : layer_env :=
    let e0 := read_layer_paths path_rows sep dir s in
    mkLE (le_all e) (le_build e) (le_launch e) [] (le_paths_build e0) (le_paths_launch e0).

  Theorem read_written_layer e dir s :
    simple_dir s dir -> env_ok e -> layer_written e dir s ->
    read_from_layer_dir rtab no_ext path_rows sep reads_process dir s = (s, Ok (read_result e dir s)).
  Proof.
    intros SD (PF & OA & OB & OL) (WA & WB & WL). unfold read_from_layer_dir, read_result.
    unfold bindM at 1. rewrite (read_dir_if_dir_written (le_all e) dir n_env s SD eq_refl OA WA).
    unfold bindM at 1. rewrite (read_dir_if_dir_written (le_build e) dir n_env_build s SD eq_refl OB WB).
    unfold bindM at 1. rewrite (read_dir_if_dir_written (le_launch e) dir n_env_launch s SD eq_refl OL WL).
    unfold bindM at 1.
    match goal with |- (let (s', r) := ?X in _) = _ =>
      replace X with (s, @Ok errno (bmap delta) []) by (symmetry; exact (procs_of_written (le_launch e) dir s SD OL WL)) end.
    reflexivity.
  Qed.

  (* a written env root is something remove_dir_all can traverse *)
  Lemma root_ok_written d dir nm s : fs_nodup s -> dir_written d (dir ++ [nm]) s -> root_ok s (dir ++ [nm]).
  Proof.
    intros ND Spec. unfold root_ok. destruct (delta_is_empty d) eqn:Ee.
    - left. rewrite (Spec _ (is_prefix_refl _)). unfold env_dir_spec. rewrite Ee. reflexivity.
    - right. exists mode_dir_default. split.
      + rewrite (Spec _ (is_prefix_refl _)). unfold env_dir_spec. rewrite Ee, path_eqb_refl. reflexivity.
      + apply (subtree_rwx_spec _ s ND). intros k v G P. rewrite (Spec k P) in G. unfold env_dir_spec in G. rewrite Ee in G.
        destruct (path_eqb k (dir ++ [nm])).
        * injection G as <-. unfold dir_ok. replace (has_w mode_dir_default && has_x mode_dir_default) with true by reflexivity.
          rewrite orb_true_r. reflexivity.
        * destruct (find _ _); [injection G as <-; reflexivity|discriminate].
  Qed.


  Lemma sibling_prefix (dir : path) a c q : a <> c -> is_prefix (dir ++ [c]) q = true -> is_prefix (dir ++ [a]) q = false.
  Proof.
    intros Hac Hq. destruct (is_prefix (dir ++ [a]) q) eqn:E; [|reflexivity]. exfalso.
    apply is_prefix_spec in Hq as [r1 ->]. apply is_prefix_spec in E as [r2 E].
    rewrite <- !app_assoc in E. apply app_inv_head in E. cbn in E. inversion E. congruence.
  Qed.

  (* ---- write, then read: the environment comes back (C03, whole layer, process-free) ---- *)
  Theorem write_then_read e dir s :
    fs_inv s dir -> env_ok e ->
    root_ok s (dir ++ [n_env]) -> root_ok s (dir ++ [n_env_build]) -> root_ok s (dir ++ [n_env_launch]) ->
    exists s', write_to_layer_dir spec_beh_order wtab e dir s = (s', Ok tt) /\ fs_inv s' dir /\
               layer_written e dir s' /\
               read_from_layer_dir rtab no_ext path_rows sep reads_process dir s' = (s', Ok (read_result e dir s')).
  Proof.
    intros I0 OK RA RB RL. pose proof OK as (PF & OA & OB & OL).
    destruct (write_to_layer_dir_exact spec_beh_order wtab e dir s I0 PF
                (proj2 (proj2 OA)) (proj2 (proj2 OB)) (proj2 (proj2 OL)) RA RB RL) as (s' & EW & I1 & G).
    assert (WR : layer_written e dir s').
    { split; [|split]; intros q P; rewrite G.
      - rewrite P. reflexivity.
      - rewrite (sibling_prefix dir n_env n_env_build q) by (discriminate || exact P). rewrite P. reflexivity.
      - rewrite (sibling_prefix dir n_env n_env_launch q) by (discriminate || exact P).
        rewrite (sibling_prefix dir n_env_build n_env_launch q) by (discriminate || exact P). rewrite P. reflexivity. }
    exists s'. split; [exact EW|]. split; [exact I1|]. split; [exact WR|].
    apply read_written_layer; [apply I1|exact OK|exact WR].
  Qed.

  (* ---- the fixpoint: read, then write what was read, changes no path of the file system ---- *)
  Theorem read_write_fixpoint e dir s :
    fs_inv s dir -> env_ok e -> layer_written e dir s ->
    exists e' s',
      read_from_layer_dir rtab no_ext path_rows sep reads_process dir s = (s, Ok e') /\
      write_to_layer_dir spec_beh_order wtab e' dir s = (s', Ok tt) /\
      (forall q, pget q s' = pget q s) /\ fs_inv s' dir /\ layer_written e dir s'.
  Proof.
    intros I0 OK WR. pose proof OK as (PF & OA & OB & OL). pose proof WR as (WA & WB & WL).
    exists (read_result e dir s).
    destruct (write_to_layer_dir_exact spec_beh_order wtab (read_result e dir s) dir s I0 eq_refl
                (proj2 (proj2 OA)) (proj2 (proj2 OB)) (proj2 (proj2 OL))
                (root_ok_written _ dir n_env s (inv_nodup _ _ I0) WA)
                (root_ok_written _ dir n_env_build s (inv_nodup _ _ I0) WB)
                (root_ok_written _ dir n_env_launch s (inv_nodup _ _ I0) WL)) as (s' & EW & I1 & G).
    exists s'. split; [apply read_written_layer; [apply I0|exact OK|exact WR]|]. split; [exact EW|].
    assert (Same : forall q, pget q s' = pget q s).
    { intros q. rewrite G. cbn [read_result le_all le_build le_launch].
      destruct (is_prefix (dir ++ [n_env]) q) eqn:P1; [symmetry; apply WA, P1|].
      destruct (is_prefix (dir ++ [n_env_build]) q) eqn:P2; [symmetry; apply WB, P2|].
      destruct (is_prefix (dir ++ [n_env_launch]) q) eqn:P3; [symmetry; apply WL, P3|reflexivity]. }
    split; [exact Same|]. split; [exact I1|].
    split; [|split]; intros q P; rewrite Same; [apply WA|apply WB|apply WL]; exact P.
  Qed.

  (* any number of cycles *)
  Fixpoint cycles (n : nat) (dir : path) (s : fs) : fs * result errno unit :=
    match n with
    | O => (s, Ok tt)
    | S n' =>
        match read_from_layer_dir rtab no_ext path_rows sep reads_process dir s with
        | (s1, Ok e') => match write_to_layer_dir spec_beh_order wtab e' dir s1 with
                         | (s2, Ok _) => cycles n' dir s2
                         | (s2, Err x) => (s2, Err x)
                         end
        | (s1, Err x) => (s1, Err x)
        end
    end.

  Theorem cycles_fixpoint n : forall e dir s,
    fs_inv s dir -> env_ok e -> layer_written e dir s ->
    exists s', cycles n dir s = (s', Ok tt) /\ forall q, pget q s' = pget q s.
  Proof.
    induction n as [|n IH]; intros e dir s I0 OK WR; cbn [cycles].
    - exists s. split; [reflexivity|auto].
    - destruct (read_write_fixpoint e dir s I0 OK WR) as (e' & s1 & ER & EW & Same & I1 & WR1).
      rewrite ER, EW. destruct (IH e dir s1 I1 OK WR1) as (s2 & E2 & Same2).
      exists s2. split; [exact E2|]. intros q. rewrite Same2. apply Same.
  Qed.
End Cycle.
