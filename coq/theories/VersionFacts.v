(* VersionFacts.v -- BuildpackVersion / BuildpackApi grammars and round trips (C09). *)
From LV Require Import Base Version.
From Coq Require Import Decimal DecimalFacts DecimalN.

Lemma ub_roundtrip u : uint_of_bytes (bytes_of_uint u) = Some u.
Proof. induction u; cbn [bytes_of_uint uint_of_bytes]; try reflexivity; rewrite IHu; reflexivity. Qed.

Lemma digit_ctor_cases c k : digit_ctor c = Some k ->
  (c = 48 /\ k = D0) \/ (c = 49 /\ k = D1) \/ (c = 50 /\ k = D2) \/ (c = 51 /\ k = D3) \/ (c = 52 /\ k = D4) \/
  (c = 53 /\ k = D5) \/ (c = 54 /\ k = D6) \/ (c = 55 /\ k = D7) \/ (c = 56 /\ k = D8) \/ (c = 57 /\ k = D9).
Proof.
  unfold digit_ctor.
  repeat match goal with |- context [N.eqb c ?n] => destruct (N.eqb_spec c n) as [->|?] end;
    intros H; try discriminate; injection H as <-; tauto.
Qed.

Lemma bu_roundtrip s u : uint_of_bytes s = Some u -> bytes_of_uint u = s.
Proof.
  revert u. induction s as [|c s IH]; intros u H; cbn [uint_of_bytes] in H.
  - now injection H as <-.
  - destruct (digit_ctor c) as [k|] eqn:K; [|discriminate].
    destruct (uint_of_bytes s) as [u'|]; [|discriminate]. injection H as <-.
    specialize (IH u' eq_refl).
    apply digit_ctor_cases in K.
    repeat (destruct K as [[-> ->]|K]; [cbn [bytes_of_uint]; now rewrite IH|]).
    destruct K as [-> ->]. cbn [bytes_of_uint]. now rewrite IH.
Qed.

Lemma uint_digits s u : uint_of_bytes s = Some u -> forallb is_digit s = true.
Proof.
  revert u. induction s as [|c s IH]; intros u H; [reflexivity|]. cbn [uint_of_bytes] in H.
  destruct (digit_ctor c) as [k|] eqn:K; [|discriminate].
  destruct (uint_of_bytes s) as [u'|] eqn:U; [|discriminate].
  cbn [forallb]. rewrite (IH u' eq_refl), andb_true_r.
  apply digit_ctor_cases in K. unfold is_digit.
  repeat (destruct K as [[-> _]|K]; [reflexivity|]). destruct K as [-> _]. reflexivity.
Qed.

Lemma digits_uint s : forallb is_digit s = true -> exists u, uint_of_bytes s = Some u.
Proof.
  induction s as [|c s IH]; intros H; [now exists Nil|]. cbn [forallb] in H.
  apply andb_true_iff in H as [D H]. destruct (IH H) as [u U]. cbn [uint_of_bytes]. rewrite U.
  assert (exists k, digit_ctor c = Some k) as [k ->]; [|eauto].
  unfold is_digit in D. apply andb_true_iff in D as [D1 D2]. apply N.leb_le in D1, D2.
  unfold digit_ctor.
  repeat match goal with |- context [N.eqb c ?n] => destruct (N.eqb_spec c n) as [->|?] end; eauto. lia.
Qed.

Lemma dec_digits n : forallb is_digit (dec n) = true.
Proof. unfold dec. eapply uint_digits. apply ub_roundtrip. Qed.

Lemma to_uint_norm n : unorm (N.to_uint n) = N.to_uint n.
Proof. rewrite <- (Unsigned.of_to n) at 2. now rewrite Unsigned.to_of. Qed.

Lemma unorm_fix_canon u : unorm u = u -> u = D0 Nil \/ (match u with Nil | D0 _ => False | _ => True end).
Proof.
  destruct u; try (intros _; right; exact I).
  - cbn. discriminate.
  - intros H. rewrite unorm_D0 in H. left. destruct u; try reflexivity; exfalso.
    all: match type of H with unorm ?v = _ =>
           assert (L : (nb_digits (unorm v) <= nb_digits v)%nat) by (apply nb_digits_unorm; discriminate);
           rewrite H in L; cbn [nb_digits] in L; lia end.
Qed.

Lemma canon_unorm u : (u = D0 Nil \/ match u with Nil | D0 _ => False | _ => True end) -> unorm u = u.
Proof. intros [->|H]; [reflexivity|]. destruct u; try contradiction; reflexivity. Qed.

Lemma dec_nonempty n : dec n <> [].
Proof.
  unfold dec. pose proof (to_uint_norm n) as H. apply unorm_fix_canon in H.
  destruct H as [->|H]; [discriminate|]. destruct (N.to_uint n); try contradiction; discriminate.
Qed.

Lemma dec_leading_ok n : leading_zero_ok (dec n) = true.
Proof.
  unfold dec. pose proof (to_uint_norm n) as H. apply unorm_fix_canon in H.
  destruct H as [->|H]; [reflexivity|]. destruct (N.to_uint n); try contradiction; reflexivity.
Qed.

Lemma parse_digits_dec n : parse_digits (dec n) = Some n.
Proof.
  unfold parse_digits. pose proof (dec_nonempty n). destruct (dec n) eqn:E; [congruence|].
  rewrite <- E. unfold dec. rewrite ub_roundtrip. cbn. now rewrite Unsigned.of_to.
Qed.

Lemma parse_digits_canon s n : leading_zero_ok s = true -> parse_digits s = Some n -> s = dec n.
Proof.
  intros L P. unfold parse_digits in P. destruct s as [|c s]; [discriminate|].
  destruct (uint_of_bytes (c :: s)) as [u|] eqn:U; [|discriminate]. cbn in P. injection P as <-.
  unfold dec. rewrite Unsigned.to_of. pose proof (bu_roundtrip _ _ U) as B.
  rewrite canon_unorm; [now rewrite B|].
  destruct u; cbn [bytes_of_uint] in B; try discriminate; try (right; exact I).
  left. injection B as <- <-. destruct u; cbn [bytes_of_uint] in L; try reflexivity; discriminate.
Qed.

Lemma digit_not_dot s : forallb is_digit s = true -> no_dot s.
Proof.
  intros H I. rewrite forallb_forall in H. specialize (H 46 I). discriminate.
Qed.

Lemma dec_no_dot n : no_dot (dec n).
Proof. apply digit_not_dot, dec_digits. Qed.

(* ---------- split ---------- *)
Lemma split_dot_nonnil s : split_dot s <> [].
Proof.
  induction s as [|c s IH]; cbn [split_dot]; [discriminate|].
  destruct (c =? 46); [discriminate|]. destruct (split_dot s); [contradiction|discriminate].
Qed.

Lemma split_dot_cons c s : split_dot (c :: s) =
  if c =? 46 then [] :: split_dot s
  else match split_dot s with [] => [[c]] | h :: t => (c :: h) :: t end.
Proof. reflexivity. Qed.

Lemma split_dot_nodot a : no_dot a -> split_dot a = [a].
Proof.
  induction a as [|c a IH]; intros N; [reflexivity|]. rewrite split_dot_cons.
  destruct (N.eqb_spec c 46) as [->|NE]; [exfalso; apply N; now left|].
  rewrite IH; [reflexivity|]. intro I. apply N. now right.
Qed.

Lemma split_dot_app a r : no_dot a -> split_dot (a ++ 46 :: r) = a :: split_dot r.
Proof.
  induction a as [|c a IH]; intros N; cbn [List.app].
  - rewrite split_dot_cons. reflexivity.
  - rewrite split_dot_cons. destruct (N.eqb_spec c 46) as [->|NE]; [exfalso; apply N; now left|].
    rewrite IH; [reflexivity|]. intro I. apply N. now right.
Qed.

(* inverse: from the component list back to the text *)
Fixpoint join_dot (l : list bytes) : bytes :=
  match l with
  | [] => []
  | [a] => a
  | a :: l' => a ++ 46 :: join_dot l'
  end.

Lemma join_dot_cons a h t : join_dot (a :: h :: t) = a ++ 46 :: join_dot (h :: t).
Proof. reflexivity. Qed.

Lemma join_split s : join_dot (split_dot s) = s /\ Forall no_dot (split_dot s).
Proof.
  induction s as [|c s [IH F]].
  - split; [reflexivity|]. constructor; [intros []|constructor].
  - rewrite split_dot_cons. pose proof (split_dot_nonnil s) as NN.
    destruct (split_dot s) as [|h t] eqn:E; [contradiction|].
    destruct (N.eqb_spec c 46) as [->|NE].
    + split; [rewrite join_dot_cons, IH; reflexivity|]. constructor; [intros []|exact F].
    + inversion F as [|? ? Fh Ft]; subst. split.
      * destruct t as [|h2 t].
        -- reflexivity.
        -- rewrite !join_dot_cons. reflexivity.
      * constructor; [|exact Ft]. intros [E1|I]; [congruence|contradiction].
Qed.

(* ---------- the strict u64 component parser ---------- *)
Theorem parse_u64_strict_spec s n :
  parse_u64_strict s = Some n <->
  s <> [] /\ forallb is_digit s = true /\
  (exists u, uint_of_bytes s = Some u /\ N.of_uint u = n) /\ n < u64_max_plus_1.
Proof.
  unfold parse_u64_strict, parse_digits. split.
  - destruct s as [|c s]; [discriminate|].
    destruct (uint_of_bytes (c :: s)) as [u|] eqn:U; [|discriminate]. cbn [option_map].
    destruct (N.ltb_spec (N.of_uint u) u64_max_plus_1); [|discriminate]. intros [= <-].
    repeat split; [discriminate|eapply uint_digits; eauto| |assumption]. now exists u.
  - intros (NE & _ & (u & U & <-) & L). destruct s as [|c s]; [congruence|]. rewrite U. cbn [option_map].
    destruct (N.ltb_spec (N.of_uint u) u64_max_plus_1); [reflexivity|lia].
Qed.

Lemma parse_u64_strict_dec n : n < u64_max_plus_1 -> parse_u64_strict (dec n) = Some n.
Proof.
  intros L. unfold parse_u64_strict. rewrite parse_digits_dec.
  destruct (N.ltb_spec n u64_max_plus_1); [reflexivity|lia].
Qed.

Lemma parse_u64_strict_canon s n : leading_zero_ok s = true -> parse_u64_strict s = Some n ->
  s = dec n /\ n < u64_max_plus_1.
Proof.
  unfold parse_u64_strict. intros L H. destruct (parse_digits s) as [m|] eqn:P; [|discriminate].
  destruct (N.ltb_spec m u64_max_plus_1); [|discriminate]. injection H as <-.
  split; [now apply parse_digits_canon|assumption].
Qed.

(* ---------- versions ---------- *)
(* accepted exactly for X.Y.Z of canonical decimal numbers below 2^64: no sign, no whitespace,
   no redundant leading zeros, exactly three components *)
Theorem version_grammar s x y z :
  parse_version parse_u64_strict s = Some (x, y, z) <->
  s = show_version (x, y, z) /\ x < u64_max_plus_1 /\ y < u64_max_plus_1 /\ z < u64_max_plus_1.
Proof.
  unfold parse_version, show_version. split.
  - destruct (join_split s) as [J _].
    destruct (split_dot s) as [|a [|b [|c [|d l]]]] eqn:E; try discriminate.
    destruct (leading_zero_ok a) eqn:La; [|discriminate].
    destruct (leading_zero_ok b) eqn:Lb; [|discriminate].
    destruct (leading_zero_ok c) eqn:Lc; [|discriminate]. cbn [andb].
    destruct (parse_u64_strict a) as [x'|] eqn:Pa; [|discriminate].
    destruct (parse_u64_strict b) as [y'|] eqn:Pb; [|discriminate].
    destruct (parse_u64_strict c) as [z'|] eqn:Pc; [|discriminate]. intros [= <- <- <-].
    destruct (parse_u64_strict_canon _ _ La Pa) as [-> ?].
    destruct (parse_u64_strict_canon _ _ Lb Pb) as [-> ?].
    destruct (parse_u64_strict_canon _ _ Lc Pc) as [-> ?].
    cbn [join_dot] in J. rewrite <- J. cbn [List.app]. auto.
  - intros (-> & Lx & Ly & Lz).
    change (dec x ++ [46] ++ dec y ++ [46] ++ dec z) with (dec x ++ 46 :: (dec y ++ 46 :: dec z)).
    rewrite split_dot_app by apply dec_no_dot. rewrite split_dot_app by apply dec_no_dot.
    rewrite split_dot_nodot by apply dec_no_dot.
    rewrite !dec_leading_ok. cbn [andb]. now rewrite !parse_u64_strict_dec.
Qed.

Corollary version_show_parse x y z :
  x < u64_max_plus_1 -> y < u64_max_plus_1 -> z < u64_max_plus_1 ->
  parse_version parse_u64_strict (show_version (x, y, z)) = Some (x, y, z).
Proof. intros. apply version_grammar. auto. Qed.

Corollary version_parse_show s v : parse_version parse_u64_strict s = Some v -> show_version v = s.
Proof. destruct v as [[x y] z]. intros H. apply version_grammar in H as [-> _]. reflexivity. Qed.

(* F1: with u64::from_str as the component parser a sign is accepted *)
Theorem version_sign_legacy_refuted :
  parse_version parse_u64_rust [43; 49; 46; 50; 46; 51] = Some (1, 2, 3) /\
  parse_version parse_u64_strict [43; 49; 46; 50; 46; 51] = None /\
  parse_api parse_u64_rust [43; 48; 46; 43; 49; 48] = Some (0, 10) /\
  parse_api parse_u64_strict [43; 48; 46; 43; 49; 48] = None.
Proof. vm_compute. repeat split. Qed.

(* ---------- API versions ---------- *)
Lemma split_once_dot_spec s a b : split_once_dot s = Some (a, b) <-> s = a ++ 46 :: b /\ no_dot a.
Proof.
  revert a. induction s as [|c s IH]; intros a; cbn [split_once_dot].
  - split; [discriminate|]. intros [E _]. destruct a; discriminate.
  - destruct (N.eqb_spec c 46) as [->|NE].
    + split.
      * intros [= <- <-]. split; [reflexivity|intros []].
      * intros [E N]. destruct a as [|x a]; cbn in E; [now injection E as ->|].
        injection E as <- _. exfalso. apply N. now left.
    + destruct (split_once_dot s) as [[a' b']|] eqn:S.
      * split.
        -- intros [= <- <-]. destruct (proj1 (IH a') eq_refl) as [-> N]. split; [reflexivity|].
           intros [E|I]; [congruence|contradiction].
        -- intros [E N]. destruct a as [|x a]; cbn in E; [injection E as -> _; congruence|].
           injection E as <- E. assert (H : Some (a', b') = Some (a, b)).
           { apply IH. split; [exact E|]. intro I. apply N. now right. }
           now injection H as -> ->.
      * split; [discriminate|]. intros [E N]. destruct a as [|x a]; cbn in E; [injection E as -> _; congruence|].
        injection E as <- E. assert (H : None = Some (a, b)).
        { apply IH. split; [exact E|]. intro I. apply N. now right. }
        discriminate.
Qed.

Lemma split_once_dot_none s : no_dot s -> split_once_dot s = None.
Proof.
  induction s as [|c s IH]; intros N; [reflexivity|]. cbn [split_once_dot].
  destruct (N.eqb_spec c 46) as [->|NE]; [exfalso; apply N; now left|].
  rewrite IH; [reflexivity|]. intro I. apply N. now right.
Qed.

Lemma split_once_dot_none_inv s : split_once_dot s = None -> no_dot s.
Proof.
  induction s as [|c s IH]; intros H; [intros []|]. cbn [split_once_dot] in H.
  destruct (N.eqb_spec c 46) as [->|NE]; [discriminate|].
  destruct (split_once_dot s) as [[? ?]|]; [discriminate|].
  intros [E|I]; [congruence|]. now apply IH.
Qed.

(* N or N.M of plain digits (leading zeros permitted), each below 2^64 *)
Theorem api_grammar s a b :
  parse_api parse_u64_strict s = Some (a, b) <->
  (no_dot s /\ parse_u64_strict s = Some a /\ b = 0) \/
  (exists da db, s = da ++ 46 :: db /\ no_dot da /\
                 parse_u64_strict da = Some a /\ parse_u64_strict db = Some b).
Proof.
  unfold parse_api. split.
  - destruct (split_once_dot s) as [[da db]|] eqn:S.
    + apply split_once_dot_spec in S as [-> N].
      destruct (parse_u64_strict da) eqn:Pa; [|discriminate].
      destruct (parse_u64_strict db) eqn:Pb; [|discriminate]. intros [= <- <-].
      right. exists da, db. auto.
    + apply split_once_dot_none_inv in S.
      destruct (parse_u64_strict s) eqn:Pa; [|discriminate].
      change (parse_u64_strict [48]) with (Some 0). intros [= <- <-]. left. auto.
  - intros [(N & P & ->)|(da & db & -> & N & Pa & Pb)].
    + rewrite split_once_dot_none by exact N. rewrite P. reflexivity.
    + assert (S : split_once_dot (da ++ 46 :: db) = Some (da, db)) by (apply split_once_dot_spec; auto).
      rewrite S, Pa, Pb. reflexivity.
Qed.

Theorem api_show_parse a b : a < u64_max_plus_1 -> b < u64_max_plus_1 ->
  parse_api parse_u64_strict (show_api (a, b)) = Some (a, b).
Proof.
  intros La Lb. apply api_grammar. right. exists (dec a), (dec b). unfold show_api. cbn [fst snd List.app].
  repeat split; [apply dec_no_dot|now apply parse_u64_strict_dec|now apply parse_u64_strict_dec].
Qed.

Lemma parse_u64_strict_range s n : parse_u64_strict s = Some n -> n < u64_max_plus_1.
Proof. intros H. apply parse_u64_strict_spec in H. tauto. Qed.

(* displaying a parsed API version and parsing it again is the identity: Display is the
   normal form (leading zeros dropped, omitted minor made explicit) *)
Theorem api_parse_show_parse s v : parse_api parse_u64_strict s = Some v ->
  parse_api parse_u64_strict (show_api v) = Some v.
Proof.
  destruct v as [a b]. intros H. apply api_grammar in H.
  destruct H as [(_ & P & ->)|(da & db & _ & _ & Pa & Pb)].
  - apply api_show_parse; [eapply parse_u64_strict_range; eauto|reflexivity].
  - apply api_show_parse; eapply parse_u64_strict_range; eauto.
Qed.
