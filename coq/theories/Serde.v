(* Serde.v -- a schema language for the serde-derive attribute subset used by libcnb-data and
   libherokubuildpack::inventory, with generic decode (Deserialize) and encode (Serialize)
   interpreters between TOML trees and typed values.  The schemas themselves are regenerated from
   the source by the translator; this interpreter is the environment model of serde derive +
   the toml crate's data model (trusted base), validated by correspondence. *)
From LV Require Import Base Toml.

Inductive sval :=
| VStr (s : bytes)
| VBool (b : bool)
| VInt (z : Z)
| VList (l : list sval)
| VOpt (o : option sval)
| VTbl (t : list (bytes * tv))       (* toml::Table, kept verbatim *)
| VAny (t : tv)                      (* toml::Value *)
| VRec (l : list (bytes * sval))     (* struct: (toml key, value) in field order *)
| VUnit (i : nat)                    (* unit-variant enum: variant index *)
| VAlt (i : nat) (v : sval).         (* untagged enum: alternative index, payload *)

Inductive skip_rule :=
| SkNever
| SkIfEmptyList    (* Vec::is_empty / HashSet::is_empty *)
| SkIfFalse        (* std::ops::Not::not *)
| SkIfAppDir.      (* WorkingDirectory::is_app *)

Inductive sty :=
| TyString | TyBool | TyInt
| TyValidated (v : nat)          (* String + try_from / FromStr validation: validator id *)
| TyVec (t : sty)
| TySet (t : sty)                (* HashSet *)
| TyOption (t : sty)
| TyTable | TyAny
| TyStruct (deny : bool) (fields : list (bytes * sty * option sval * skip_rule))
                                 (* key, type, value of #[serde(default)] if present, skip_serializing_if *)
| TyUnitEnum (names : list bytes)
| TyUntagged (alts : list sty)
| TyNever                        (* a unit variant inside an untagged enum: never matches TOML *)
| TyWorkDir.                     (* launch::WorkingDirectory: untagged deserialize + manual Serialize *)

Definition field := (bytes * sty * option sval * skip_rule)%type.
Definition f_key (f : field) : bytes := fst (fst (fst f)).
Definition f_ty (f : field) : sty := snd (fst (fst f)).
Definition f_default (f : field) : option sval := snd (fst f).
Definition f_skip (f : field) : skip_rule := snd f.

Fixpoint map_opt {A B} (f : A -> option B) (l : list A) : option (list B) :=
  match l with
  | [] => Some []
  | x :: l' => match f x, map_opt f l' with Some y, Some r => Some (y :: r) | _, _ => None end
  end.

Fixpoint index_of_bytes (s : bytes) (l : list bytes) (i : nat) : option nat :=
  match l with [] => None | x :: l' => if beq s x then Some i else index_of_bytes s l' (S i) end.

Definition is_option_ty (t : sty) : bool := match t with TyOption _ => true | _ => false end.

Section Decode.
  Variable vf : nat -> bytes -> bool.      (* validators *)
  (* serde derive also accepts a SEQUENCE for a struct (visit_seq): fields are taken by position,
     missing trailing fields need #[serde(default)], surplus elements are ignored.  true = the
     behaviour of serde derive as it is; false = the CNB formats, where a table is required. *)
  Variable seq_ok : bool.

  Fixpoint decode (t : sty) (v : tv) {struct t} : option sval :=
    match t with
    | TyString => match v with TStr s => Some (VStr s) | _ => None end
    | TyBool => match v with TBool b => Some (VBool b) | _ => None end
    | TyInt => match v with TInt z => Some (VInt z) | _ => None end
    | TyValidated i => match v with TStr s => if vf i s then Some (VStr s) else None | _ => None end
    | TyVec t' => match v with TArr l => option_map VList (map_opt (decode t') l) | _ => None end
    | TySet t' => match v with TArr l => option_map VList (map_opt (decode t') l) | _ => None end
    | TyOption t' => option_map (fun x => VOpt (Some x)) (decode t' v)
    | TyTable => match v with TTbl l => Some (VTbl l) | _ => None end
    | TyAny => Some (VAny v)
    | TyStruct deny fields =>
        match v with
        | TTbl kvs =>
            if deny && negb (forallb (fun k => existsb (fun f => beq k (f_key f)) fields) (tkeys kvs))
            then None
            else
              option_map VRec
                ((fix go (fs : list field) : option (list (bytes * sval)) :=
                    match fs with
                    | [] => Some []
                    | f :: fs' =>
                        let '(k, ft, dflt, _) := f in
                        match (match tget k kvs with
                               | Some x => decode ft x
                               | None => if is_option_ty ft then Some (VOpt None) else dflt
                               end), go fs' with
                        | Some a, Some r => Some ((k, a) :: r)
                        | _, _ => None
                        end
                    end) fields)
        | TArr l =>
            if seq_ok then
              option_map VRec
                ((fix go (fs : list field) (xs : list tv) : option (list (bytes * sval)) :=
                    match fs with
                    | [] => Some []
                    | f :: fs' =>
                        let '(k, ft, dflt, _) := f in
                        match xs with
                        | x :: xs' =>
                            match decode ft x, go fs' xs' with
                            | Some a, Some r => Some ((k, a) :: r)
                            | _, _ => None
                            end
                        | [] =>
                            match dflt, go fs' [] with
                            | Some a, Some r => Some ((k, a) :: r)
                            | _, _ => None
                            end
                        end
                    end) fields l)
            else None
        | _ => None
        end
    | TyUnitEnum names => match v with TStr s => option_map VUnit (index_of_bytes s names 0) | _ => None end
    | TyUntagged alts =>
        (fix go (alts : list sty) (i : nat) : option sval :=
           match alts with
           | [] => None
           | a :: r => match decode a v with Some x => Some (VAlt i x) | None => go r (S i) end
           end) alts 0%nat
    | TyNever => None
    | TyWorkDir => match v with TStr s => Some (VAlt 1 (VStr s)) | _ => None end
    end.
End Decode.

Definition should_skip (r : skip_rule) (x : sval) : bool :=
  match r, x with
  | SkIfEmptyList, VList [] => true
  | SkIfFalse, VBool false => true
  | SkIfAppDir, VAlt 0 _ => true
  | _, _ => false
  end.

Fixpoint rec_get (k : bytes) (l : list (bytes * sval)) : option sval :=
  match l with [] => None | (k', v) :: l' => if beq k k' then Some v else rec_get k l' end.

Fixpoint encode (t : sty) (x : sval) {struct t} : option tv :=
  match t, x with
  | TyString, VStr s => Some (TStr s)
  | TyBool, VBool b => Some (TBool b)
  | TyInt, VInt z => Some (TInt z)
  | TyValidated _, VStr s => Some (TStr s)
  | TyVec t', VList l => option_map TArr (map_opt (encode t') l)
  | TySet t', VList l => option_map TArr (map_opt (encode t') l)
  | TyOption t', VOpt (Some y) => encode t' y
  | TyTable, VTbl l => Some (TTbl l)
  | TyAny, VAny v => Some v
  | TyStruct _ fields, VRec vals =>
      option_map TTbl
        ((fix go (fs : list field) : option (list (bytes * tv)) :=
            match fs with
            | [] => Some []
            | f :: fs' =>
                let '(k, ft, _, sk) := f in
                match rec_get k vals with
                | None => None
                | Some y =>
                    if should_skip sk y then go fs'
                    else match y with
                         | VOpt None => go fs'                 (* None fields are omitted *)
                         | _ => match encode ft y, go fs' with
                                | Some e, Some r => Some ((k, e) :: r)
                                | _, _ => None
                                end
                         end
                end
            end) fields)
  | TyUnitEnum names, VUnit i => option_map TStr (nth_error names i)
  | TyUntagged alts, VAlt i y =>
      (fix go (alts : list sty) (j : nat) : option tv :=
         match alts with
         | [] => None
         | a :: r => if Nat.eqb i j then encode a y else go r (S j)
         end) alts 0%nat
  | TyWorkDir, VAlt 0 _ => Some (TStr [46])              (* App serialises as "." *)
  | TyWorkDir, VAlt 1 (VStr s) => Some (TStr s)
  | _, _ => None
  end.

(* ---------- equality on values (sets compared as sets of unit variants) ---------- *)
Fixpoint sval_eqb (a b : sval) : bool :=
  match a, b with
  | VStr x, VStr y => beq x y
  | VBool x, VBool y => Bool.eqb x y
  | VInt x, VInt y => Z.eqb x y
  | VList x, VList y =>
      (fix go (x y : list sval) : bool :=
         match x, y with
         | [], [] => true
         | a :: x', b :: y' => sval_eqb a b && go x' y'
         | _, _ => false
         end) x y
  | VOpt None, VOpt None => true
  | VOpt (Some x), VOpt (Some y) => sval_eqb x y
  | VTbl x, VTbl y => tv_same (TTbl x) (TTbl y)
  | VAny x, VAny y => tv_same x y
  | VRec x, VRec y =>
      (fix go (x y : list (bytes * sval)) : bool :=
         match x, y with
         | [], [] => true
         | (k, a) :: x', (k', b) :: y' => beq k k' && sval_eqb a b && go x' y'
         | _, _ => false
         end) x y
  | VUnit i, VUnit j => Nat.eqb i j
  | VAlt i x, VAlt j y => Nat.eqb i j && sval_eqb x y
  | _, _ => false
  end.

(* ---------- strictness of a schema: every struct outside free-form tables denies unknown keys ---------- *)
Fixpoint strict_everywhere (t : sty) : bool :=
  match t with
  | TyVec t' | TySet t' | TyOption t' => strict_everywhere t'
  | TyStruct deny fields =>
      deny && (fix go (fs : list field) : bool :=
                 match fs with [] => true | f :: fs' => strict_everywhere (f_ty f) && go fs' end) fields
  | TyUntagged alts =>
      (fix go (l : list sty) : bool := match l with [] => true | a :: r => strict_everywhere a && go r end) alts
  | _ => true
  end.

(* skip_serializing_if is only safe when the skipped value is what a missing key decodes to *)
Definition skip_consistent_field (f : field) : bool :=
  match f_skip f, f_default f with
  | SkNever, _ => true
  | SkIfEmptyList, Some (VList []) => true
  | SkIfFalse, Some (VBool false) => true
  | SkIfAppDir, Some (VAlt 0 (VStr [])) => true
  | _, _ => false
  end.

Fixpoint skip_consistent (t : sty) : bool :=
  match t with
  | TyVec t' | TySet t' | TyOption t' => skip_consistent t'
  | TyStruct _ fields =>
      (fix go (fs : list field) : bool :=
         match fs with [] => true | f :: fs' => skip_consistent_field f && skip_consistent (f_ty f) && go fs' end) fields
  | TyUntagged alts =>
      (fix go (l : list sty) : bool := match l with [] => true | a :: r => skip_consistent a && go r end) alts
  | _ => true
  end.
