(* SpecDocs.v -- the CNB document formats written down from the specification (buildpack.md,
   platform.md, distribution.md), independently of the code: the oracle side of C08 / C07 / C06.
   Keys are given as strings for readability. *)
From LV Require Import Base Toml Serde Regex Version Inventory.
From Coq Require Import String Ascii.

Definition b (s : string) : bytes := map (fun c => N_of_ascii c) (list_ascii_of_string s).

(* validators: which strings the spec admits for the validated string types *)
Definition uri_char (c : N) : bool :=
  is_alnum c || existsb (N.eqb c) (b "-._~:/?#[]@!$&'()*+,;=%").

Definition spec_vf (i : nat) (s : bytes) : bool :=
  match i with
  | 0%nat => spec_layer_name s
  | 1%nat => spec_process_type s
  | 2%nat => spec_buildpack_id s
  | 3%nat => spec_execd_key s
  | 4%nat => match parse_version parse_u64_strict s with Some _ => true | None => false end
  | 5%nat => match parse_api parse_u64_strict s with Some _ => true | None => false end
  | 6%nat => forallb uri_char s               (* URI reference: model of uriparse on the generated alphabet *)
  | 7%nat => match parse_checksum (beq (b "sha256")) (N.eqb 32) s with Ok _ => true | Err _ => false end
  | 8%nat => match parse_version parse_u64_strict s with Some _ => true | None => false end
  | _ => false
  end.

Definition req (k : string) (t : sty) : field := (b k, t, None, SkNever).
Definition dflt (k : string) (t : sty) (d : sval) (sk : skip_rule) : field := (b k, t, Some d, sk).

Definition spec_License := TyStruct true [req "type" (TyOption TyString); req "uri" (TyOption TyString)].
Definition spec_SbomFormat := TyUnitEnum [b "application/vnd.cyclonedx+json"; b "application/spdx+json"; b "application/vnd.syft+json"].
Definition spec_Buildpack :=
  TyStruct true
    [ req "id" (TyValidated 2); req "name" (TyOption TyString); req "version" (TyValidated 4);
      req "homepage" (TyOption TyString); dflt "clear-env" TyBool (VBool false) SkNever;
      req "description" (TyOption TyString); dflt "keywords" (TyVec TyString) (VList []) SkIfEmptyList;
      dflt "licenses" (TyVec spec_License) (VList []) SkIfEmptyList;
      dflt "sbom-formats" (TySet spec_SbomFormat) (VList []) SkIfEmptyList ].
Definition spec_Stack := TyStruct true [req "id" TyString; dflt "mixins" (TyVec TyString) (VList []) SkIfEmptyList].
Definition spec_Distro := TyStruct true [req "name" TyString; req "version" TyString].
Definition spec_Target :=
  TyStruct true [ req "os" (TyOption TyString); req "arch" (TyOption TyString); req "variant" (TyOption TyString);
                  dflt "distros" (TyVec spec_Distro) (VList []) SkIfEmptyList ].
Definition spec_Group := TyStruct true [req "id" (TyValidated 2); req "version" (TyValidated 4); dflt "optional" TyBool (VBool false) SkNever].
Definition spec_Order := TyStruct true [req "group" (TyVec spec_Group)].
Definition spec_metadata := TyOption TyTable.

Definition spec_Component :=
  TyStruct true [ req "api" (TyValidated 5); req "buildpack" spec_Buildpack;
                  dflt "stacks" (TyVec spec_Stack) (VList []) SkIfEmptyList;
                  dflt "targets" (TyVec spec_Target) (VList []) SkIfEmptyList; req "metadata" spec_metadata ].
Definition spec_Composite :=
  TyStruct true [ req "api" (TyValidated 5); req "buildpack" spec_Buildpack; req "order" (TyVec spec_Order);
                  req "metadata" spec_metadata ].
Definition spec_BuildpackDescriptor := TyUntagged [spec_Component; spec_Composite].

Definition spec_Entry := TyStruct true [req "name" TyString; dflt "metadata" TyTable (VTbl []) SkNever].
Definition spec_BuildpackPlan := TyStruct true [dflt "entries" (TyVec spec_Entry) (VList []) SkNever].

Definition spec_LayerTypes :=
  TyStruct true [ dflt "launch" TyBool (VBool false) SkNever; dflt "build" TyBool (VBool false) SkNever;
                  dflt "cache" TyBool (VBool false) SkNever ].
Definition spec_LayerContentMetadata (M : sty) := TyStruct true [req "types" (TyOption spec_LayerTypes); req "metadata" M].

Definition spec_Label := TyStruct true [req "key" TyString; req "value" TyString].
Definition spec_Process :=
  TyStruct true [ req "type" (TyValidated 1); req "command" (TyVec TyString);
                  dflt "args" (TyVec TyString) (VList []) SkIfEmptyList; dflt "default" TyBool (VBool false) SkIfFalse;
                  dflt "working-dir" TyWorkDir (VAlt 0 (VStr [])) SkIfAppDir ].
Definition spec_Slice := TyStruct true [req "paths" (TyVec TyString)].
Definition spec_Launch :=
  TyStruct true [ dflt "labels" (TyVec spec_Label) (VList []) SkIfEmptyList;
                  dflt "processes" (TyVec spec_Process) (VList []) SkIfEmptyList;
                  dflt "slices" (TyVec spec_Slice) (VList []) SkIfEmptyList ].

Definition spec_Store := TyStruct true [req "metadata" TyTable].

Definition spec_PlatformOs := TyUnitEnum [b "linux"; b "windows"].
Definition spec_Platform := TyStruct true [req "os" spec_PlatformOs].
Definition spec_PackageRef := TyStruct true [req "uri" (TyValidated 6)].
Definition spec_PackageDescriptor :=
  TyStruct true [ req "buildpack" spec_PackageRef; dflt "dependencies" (TyVec spec_PackageRef) (VList []) SkNever;
                  dflt "platform" spec_Platform (VRec [(b "os", VUnit 0)]) SkNever ].

(* document kinds of the correspondence streams *)
Inductive doc_kind := DBuildpack | DPlan | DLayer | DLaunch | DStore | DPackage.

Definition spec_schema (k : doc_kind) : sty :=
  match k with
  | DBuildpack => spec_BuildpackDescriptor
  | DPlan => spec_BuildpackPlan
  | DLayer => spec_LayerContentMetadata spec_metadata
  | DLaunch => spec_Launch
  | DStore => spec_Store
  | DPackage => spec_PackageDescriptor
  end.

(* HashSet<unit enum>: compared as a set -- variant indices sorted, duplicates removed *)
Fixpoint insert_unit (i : nat) (l : list sval) : list sval :=
  match l with
  | [] => [VUnit i]
  | VUnit j :: l' => if Nat.ltb i j then VUnit i :: l else if Nat.eqb i j then l else VUnit j :: insert_unit i l'
  | x :: l' => x :: insert_unit i l'
  end.
Definition sort_units (l : list sval) : list sval :=
  fold_left (fun acc x => match x with VUnit i => insert_unit i acc | _ => acc ++ [x] end) l [].

(* values are compared after normalising validated strings the implementation stores parsed:
   versions and API versions are rendered by Display *)
Fixpoint norm_val (t : sty) (x : sval) {struct t} : sval :=
  match t, x with
  | TyValidated 4, VStr s => match parse_version parse_u64_strict s with Some v => VStr (show_version v) | None => x end
  | TyValidated 5, VStr s => match parse_api parse_u64_strict s with Some v => VStr (show_api v) | None => x end
  | TyVec t', VList l => VList (map (norm_val t') l)
  | TySet t', VList l => VList (sort_units (map (norm_val t') l))
  | TyOption t', VOpt (Some y) => VOpt (Some (norm_val t' y))
  | TyStruct _ fields, VRec vals =>
      VRec ((fix go (fs : list field) (vs : list (bytes * sval)) : list (bytes * sval) :=
               match fs, vs with
               | f :: fs', (k, y) :: vs' => (k, norm_val (f_ty f) y) :: go fs' vs'
               | _, _ => vs
               end) fields vals)
  | TyUntagged alts, VAlt i y =>
      VAlt i ((fix go (l : list sty) (j : nat) : sval :=
                 match l with
                 | [] => y
                 | a :: r => if Nat.eqb i j then norm_val a y else go r (S j)
                 end) alts 0%nat)
  | _, _ => x
  end.
