(* Argv.v -- executable models of the command builders of libcnb-test (docker.rs, pack.rs) and a
   reference parser for the pflag/cobra option grammar used by `docker run` (options stop at the
   first positional argument) and `pack build` (options and positionals interspersed).  The
   grammar is an environment model of docker's / pack's own argument parsing. *)
From LV Require Import Base SpecDocs.
From Coq Require Import String.
Open Scope string_scope.
Open Scope N_scope.
Open Scope list_scope.

Inductive flag_kind := FBool | FVal.
Definition flag_table := list (bytes * flag_kind).

Fixpoint flag_lookup (t : flag_table) (f : bytes) : option flag_kind :=
  match t with [] => None | (k, v) :: t' => if beq f k then Some v else flag_lookup t' f end.

(* split "--name=value" at the first '=' *)
Fixpoint split_eq (s : bytes) : bytes * option bytes :=
  match s with
  | [] => ([], None)
  | c :: r => if c =? 61 then ([], Some r) else let '(a, o) := split_eq r in (c :: a, o)
  end.

Definition starts_dashdash (s : bytes) : bool := match s with c :: d :: _ :: _ => (c =? 45) && (d =? 45) | _ => false end.
Definition is_dashdash (s : bytes) : bool := beq s [45; 45].
Definition starts_dash (s : bytes) : bool := match s with c :: _ :: _ => c =? 45 | _ => false end.

Record parsed := mkParsed { p_flags : list (bytes * option bytes); p_pos : list bytes }.

(* interspersed = false: the first positional ends option parsing (docker run / docker exec) *)
Fixpoint parse_opts (t : flag_table) (interspersed : bool) (args : list bytes) : option parsed :=
  match args with
  | [] => Some (mkParsed [] [])
  | a :: rest =>
      if is_dashdash a then Some (mkParsed [] rest)
      else if starts_dashdash a then
        let '(name, inline) := split_eq a in
        match flag_lookup t name with
        | None => None                                  (* unknown flag *)
        | Some FBool =>
            match parse_opts t interspersed rest with
            | Some p => Some (mkParsed ((name, inline) :: p_flags p) (p_pos p))
            | None => None
            end
        | Some FVal =>
            match inline with
            | Some v =>
                match parse_opts t interspersed rest with
                | Some p => Some (mkParsed ((name, Some v) :: p_flags p) (p_pos p))
                | None => None
                end
            | None =>
                match rest with
                | v :: rest' =>
                    match parse_opts t interspersed rest' with
                    | Some p => Some (mkParsed ((name, Some v) :: p_flags p) (p_pos p))
                    | None => None
                    end
                | [] => None                            (* flag needs an argument *)
                end
            end
        end
      else if starts_dash a then None                   (* shorthand flags are not used *)
      else if interspersed then
        match parse_opts t interspersed rest with
        | Some p => Some (mkParsed (p_flags p) (a :: p_pos p))
        | None => None
        end
      else Some (mkParsed [] (a :: rest))
  end.

(* ---------- docker run ---------- *)
Record run_cfg := mkRun {
  r_name : bytes; r_detach : bool; r_remove : bool; r_platform : option bytes; r_entrypoint : option bytes;
  r_env : list (bytes * bytes);             (* BTreeMap order *)
  r_ports : list N;                         (* BTreeSet order *)
  r_mounts : list (bytes * bytes);          (* BTreeMap order: source, target *)
  r_image : bytes; r_command : option (list bytes)
}.

Definition f_name := b "--name". Definition f_detach := b "--detach". Definition f_rm := b "--rm".
Definition f_platform := b "--platform". Definition f_entrypoint := b "--entrypoint".
Definition f_env := b "--env". Definition f_publish := b "--publish". Definition f_mount := b "--mount".

Definition docker_run_table : flag_table :=
  [(f_name, FVal); (f_detach, FBool); (f_rm, FBool); (f_platform, FVal); (f_entrypoint, FVal);
   (f_env, FVal); (f_publish, FVal); (f_mount, FVal)].

Fixpoint dec_of_N_fuel (fuel : nat) (n : N) (acc : bytes) : bytes :=
  match fuel with
  | O => acc
  | S f => let acc' := (48 + n mod 10) :: acc in if n <? 10 then acc' else dec_of_N_fuel f (n / 10) acc'
  end.
Definition show_port (p : N) : bytes := dec_of_N_fuel 6 p [].

Definition env_arg (kv : bytes * bytes) : bytes := fst kv ++ [61] ++ snd kv.
Definition publish_arg (p : N) : bytes := b "127.0.0.1::" ++ show_port p.
Definition mount_arg (m : bytes * bytes) : bytes := b "type=bind,source=" ++ fst m ++ b ",target=" ++ snd m.

Definition opt_flag (f : bytes) (o : option bytes) : list bytes := match o with Some v => [f; v] | None => [] end.

(* impl From<DockerRunCommand> for Command (argv after the program name) *)
Definition argv_docker_run (c : run_cfg) : list bytes :=
  [b "run"; f_name; r_name c] ++
  (if r_detach c then [f_detach] else []) ++ (if r_remove c then [f_rm] else []) ++
  opt_flag f_platform (r_platform c) ++ opt_flag f_entrypoint (r_entrypoint c) ++
  flat_map (fun kv => [f_env; env_arg kv]) (r_env c) ++
  flat_map (fun p => [f_publish; publish_arg p]) (r_ports c) ++
  flat_map (fun m => [f_mount; mount_arg m]) (r_mounts c) ++
  [r_image c] ++ match r_command c with Some l => l | None => [] end.

(* what docker makes of it *)
Definition view_docker_run (c : run_cfg) : parsed :=
  mkParsed ([(f_name, Some (r_name c))] ++
            (if r_detach c then [(f_detach, None)] else []) ++ (if r_remove c then [(f_rm, None)] else []) ++
            match r_platform c with Some v => [(f_platform, Some v)] | None => [] end ++
            match r_entrypoint c with Some v => [(f_entrypoint, Some v)] | None => [] end ++
            map (fun kv => (f_env, Some (env_arg kv))) (r_env c) ++
            map (fun p => (f_publish, Some (publish_arg p))) (r_ports c) ++
            map (fun m => (f_mount, Some (mount_arg m))) (r_mounts c))
           (r_image c :: match r_command c with Some l => l | None => [] end).

(* ---------- pack build ---------- *)
Record pack_cfg := mkPack {
  k_image : bytes; k_builder : bytes; k_build_cache : bytes; k_launch_cache : bytes; k_path : bytes;
  k_pull_policy : bytes; k_buildpacks : list bytes; k_env : list (bytes * bytes);
  k_trust_builder : bool; k_trust_extra : bool
}.

Definition g_builder := b "--builder". Definition g_cache := b "--cache". Definition g_path := b "--path".
Definition g_pull := b "--pull-policy". Definition g_buildpack := b "--buildpack". Definition g_env := b "--env".
Definition g_trust := b "--trust-builder". Definition g_trust_extra := b "--trust-extra-buildpacks".

Definition pack_build_table : flag_table :=
  [(g_builder, FVal); (g_cache, FVal); (g_path, FVal); (g_pull, FVal); (g_buildpack, FVal); (g_env, FVal);
   (g_trust, FBool); (g_trust_extra, FBool)].

Definition argv_pack_build (c : pack_cfg) : list bytes :=
  [b "build"; k_image c; g_builder; k_builder c;
   g_cache; b "type=build;format=volume;name=" ++ k_build_cache c;
   g_cache; b "type=launch;format=volume;name=" ++ k_launch_cache c;
   g_path; k_path c; g_pull; k_pull_policy c] ++
  flat_map (fun r => [g_buildpack; r]) (k_buildpacks c) ++
  flat_map (fun kv => [g_env; env_arg kv]) (k_env c) ++
  (if k_trust_builder c then [g_trust] else []) ++ (if k_trust_extra c then [g_trust_extra] else []).

Definition view_pack_build (c : pack_cfg) : parsed :=
  mkParsed ([(g_builder, Some (k_builder c));
             (g_cache, Some (b "type=build;format=volume;name=" ++ k_build_cache c));
             (g_cache, Some (b "type=launch;format=volume;name=" ++ k_launch_cache c));
             (g_path, Some (k_path c)); (g_pull, Some (k_pull_policy c))] ++
            map (fun r => (g_buildpack, Some r)) (k_buildpacks c) ++
            map (fun kv => (g_env, Some (env_arg kv))) (k_env c) ++
            (if k_trust_builder c then [(g_trust, None)] else []) ++
            (if k_trust_extra c then [(g_trust_extra, None)] else []))
           [k_image c].

(* KEY=VALUE as docker / pack split it: at the first '=' *)
Definition env_view (arg : bytes) : bytes * option bytes := split_eq arg.

(* ---------- reading the values back: docker's own interpretation of the option values ---------- *)
Fixpoint strip_prefix (p s : bytes) : option bytes :=
  match p, s with
  | [], _ => Some s
  | x :: p', y :: s' => if x =? y then strip_prefix p' s' else None
  | _, [] => None
  end.

Fixpoint parse_dec_acc (s : bytes) (acc : N) : option N :=
  match s with
  | [] => Some acc
  | c :: r => if (48 <=? c) && (c <=? 57) then parse_dec_acc r (acc * 10 + (c - 48)) else None
  end.
Definition parse_dec (s : bytes) : option N := match s with [] => None | _ => parse_dec_acc s 0 end.

(* ip:hostPort:containerPort with ip = 127.0.0.1 and an empty (ephemeral) host port *)
Definition publish_view (arg : bytes) : option N :=
  match strip_prefix (b "127.0.0.1::") arg with Some r => parse_dec r | None => None end.

Fixpoint split_on (sep : N) (s : bytes) : list bytes :=
  match s with
  | [] => [[]]
  | c :: r =>
      if c =? sep then [] :: split_on sep r
      else match split_on sep r with
           | x :: l => (c :: x) :: l
           | [] => [[c]]
           end
  end.

(* --mount is a comma separated list of key=value fields *)
Definition mount_view (arg : bytes) : list (bytes * option bytes) := map split_eq (split_on 44 arg).
Definition mount_expected (m : bytes * bytes) : list (bytes * option bytes) :=
  [(b "type", Some (b "bind")); (b "source", Some (fst m)); (b "target", Some (snd m))].

Definition vals (f : bytes) (fl : list (bytes * option bytes)) : list (option bytes) :=
  map snd (filter (fun x => beq (fst x) f) fl).

Definition obytes_eqb (x y : option bytes) : bool :=
  match x, y with Some a, Some c => beq a c | None, None => true | _, _ => false end.
Definition kv_eqb (x y : bytes * option bytes) : bool := beq (fst x) (fst y) && obytes_eqb (snd x) (snd y).
Definition oN_eqb (x y : option N) : bool :=
  match x, y with Some a, Some c => a =? c | None, None => true | _, _ => false end.

Fixpoint list_eqb {A} (eq : A -> A -> bool) (x y : list A) : bool :=
  match x, y with
  | [], [] => true
  | a :: x', c :: y' => eq a c && list_eqb eq x' y'
  | _, _ => false
  end.

(* configured (duplicate-free) entries each occur, and there are no others *)
Definition same_set {A} (eq : A -> A -> bool) (cfg obs : list A) : bool :=
  Nat.eqb (List.length cfg) (List.length obs) && forallb (fun x => existsb (eq x) obs) cfg.

Definition oval (o : option bytes) : bytes := match o with Some v => v | None => [] end.

Record ccfg := mkC {
  c_entrypoint : option bytes; c_command : option (list bytes);
  c_env : list (bytes * bytes); c_ports : list N; c_mounts : list (bytes * bytes)
}.

(* TestContext::start_container *)
Definition mk_run (name img platform : bytes) (c : ccfg) : run_cfg :=
  mkRun name true false (Some platform) (c_entrypoint c) (c_env c) (c_ports c) (c_mounts c) img (c_command c).

(* the judgement on a `docker run` command line as docker reads it *)
Definition check_run (c : ccfg) (img : bytes) (argv : list bytes) : bool :=
  match argv with
  | sub :: rest =>
      beq sub (b "run") &&
      match parse_opts docker_run_table false rest with
      | None => false
      | Some p =>
          list_eqb beq (p_pos p) (img :: match c_command c with Some l => l | None => [] end) &&
          Nat.eqb (List.length (vals f_name (p_flags p))) 1 &&
          Nat.eqb (List.length (vals f_detach (p_flags p))) 1 &&
          Nat.eqb (List.length (vals f_rm (p_flags p))) 0 &&
          list_eqb obytes_eqb (vals f_entrypoint (p_flags p))
                   (match c_entrypoint c with Some e => [Some e] | None => [] end) &&
          same_set kv_eqb (map (fun kv => (fst kv, Some (snd kv))) (c_env c))
                   (map (fun o => env_view (oval o)) (vals f_env (p_flags p))) &&
          same_set oN_eqb (map Some (c_ports c)) (map (fun o => publish_view (oval o)) (vals f_publish (p_flags p))) &&
          same_set (list_eqb kv_eqb) (map mount_expected (c_mounts c))
                   (map (fun o => mount_view (oval o)) (vals f_mount (p_flags p)))
      end
  | [] => false
  end.

Record bcfgv := mkBV {
  v_builder : bytes; v_path : bytes; v_buildpacks : list bytes; v_env : list (bytes * bytes)
}.

(* TestRunner::build_internal *)
Definition mk_pack (img : bytes) (c : bcfgv) : pack_cfg :=
  mkPack img (v_builder c) (img ++ b ".build-cache") (img ++ b ".launch-cache") (v_path c)
         (b "if-not-present") (v_buildpacks c) (v_env c) true true.

Definition check_pack (c : bcfgv) (argv : list bytes) : option bytes (* the image *) :=
  match argv with
  | sub :: rest =>
      if beq sub (b "build") then
        match parse_opts pack_build_table true rest with
        | None => None
        | Some p =>
            match p_pos p with
            | [img] =>
                if list_eqb obytes_eqb (vals g_builder (p_flags p)) [Some (v_builder c)] &&
                   list_eqb obytes_eqb (vals g_path (p_flags p)) [Some (v_path c)] &&
                   list_eqb obytes_eqb (vals g_buildpack (p_flags p)) (map Some (v_buildpacks c)) &&
                   same_set kv_eqb (map (fun kv => (fst kv, Some (snd kv))) (v_env c))
                            (map (fun o => env_view (oval o)) (vals g_env (p_flags p)))
                then Some img else None
            | _ => None
            end
        end
      else None
  | [] => None
  end.

(* Path::join of the manifest dir and a relative app dir; an absolute app dir replaces it *)
Definition path_join (base rel : bytes) : bytes :=
  match rel with
  | 47 :: _ => rel
  | _ => match rev base with 47 :: _ => base ++ rel | _ => base ++ [47] ++ rel end
  end.

Definition valid_key (k : bytes) : bool := negb (existsb (N.eqb 61) k).
Definition valid_path (p : bytes) : bool := negb (existsb (N.eqb 44) p).
Definition keys_nodup (l : list (bytes * bytes)) : bool :=
  (fix go (l : list (bytes * bytes)) : bool :=
     match l with [] => true | x :: r => negb (existsb (fun y => beq (fst x) (fst y)) r) && go r end) l.
Definition N_nodup (l : list N) : bool :=
  (fix go (l : list N) : bool := match l with [] => true | x :: r => negb (existsb (N.eqb x) r) && go r end) l.

Definition valid_ccfg (c : ccfg) : bool :=
  forallb (fun kv => valid_key (fst kv)) (c_env c) && keys_nodup (c_env c) &&
  forallb (fun p => p <? 65536) (c_ports c) && N_nodup (c_ports c) &&
  forallb (fun m => valid_path (fst m) && valid_path (snd m)) (c_mounts c) && keys_nodup (c_mounts c).

Definition valid_bcfgv (c : bcfgv) : bool :=
  forallb (fun kv => valid_key (fst kv)) (v_env c) && keys_nodup (v_env c).
