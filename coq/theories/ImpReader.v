(* ImpReader.v -- meaning of the std calls in the regenerated LayerEnvDelta::read_from_env_dir
   (GenLayerEnvImp.gen_read_from_env_dir): directory listing, raw file contents, Path::file_stem /
   Path::extension of the LAST component, and the monadic fold of a loop that updates a local. *)
From LV Require Import Base FS LayerEnv LayerShared LayerEnvFS ImpFacts.

(* fs::read_dir(p)?: the entries' names (the model lists them sorted; the order is an explicit
   oracle in LayerEnvFSOrder.v) *)
Definition names_of (p : path) : M (list name) := pl <- readdir p ;; ret (snd pl).

(* fs::read(p)?: the raw bytes *)
Definition read_bytes (p : path) : M bytes := mc <- read_file p ;; ret (content_bytes (snd mc)).

Definition last_name (p : path) : name := last p [].

(* Path::file_stem / Path::extension look at the final component only *)
Definition file_stem_of (p : path) : option bytes := Some (fst (split_ext (last_name p))).
Definition extension_of (p : path) : option bytes := snd (split_ext (last_name p)).
