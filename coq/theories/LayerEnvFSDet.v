(* LayerEnvFSDet.v -- determinism of the environment files (C20): process-specific deltas live in a
   HashMap whose iteration order differs from process to process; the file system left by
   LayerEnv::write_to_layer_dir does not depend on the order in which they are written. *)
From LV Require Import Base FS FSFacts LayerShared LayerSharedFacts LayerSharedGone LayerEnv LayerEnvFacts
  LayerEnvFS LayerEnvFSFacts Determinism FSInv LayerEnvFSExact LayerEnvFSCompose LayerEnvReadback LayerEnvFSRead
  LayerEnvFSCycle LayerEnvFSProc LayerEnvFSFull.
From Coq Require Import Lia Permutation.
Open Scope N_scope.

Lemma find_unique_perm {A} (p : A -> bool) (l l' : list A) :
  Permutation l l' -> (forall x y, In x l -> In y l -> p x = true -> p y = true -> x = y) -> find p l = find p l'.
Proof.
  intros P U.
  destruct (find p l) as [x|] eqn:F1, (find p l') as [y|] eqn:F2.
  - apply find_some in F1 as [I1 P1]. apply find_some in F2 as [I2 P2].
    f_equal. apply U; try assumption. eapply Permutation_in; [apply Permutation_sym, P|exact I2].
  - apply find_some in F1 as [I1 P1]. pose proof (find_none _ _ F2 x (Permutation_in _ P I1)) as X. congruence.
  - apply find_some in F2 as [I2 P2]. pose proof (find_none _ _ F1 y (Permutation_in _ (Permutation_sym P) I2)) as X. congruence.
  - reflexivity.
Qed.

Lemma existsb_perm {A} (f : A -> bool) (l l' : list A) : Permutation l l' -> existsb f l = existsb f l'.
Proof.
  intros P. destruct (existsb f l) eqn:E1, (existsb f l') eqn:E2; try reflexivity.
  - apply existsb_exists in E1 as (x & I & Hx). assert (X : existsb f l' = true) by (apply existsb_exists; exists x; split; [eapply Permutation_in; eauto|exact Hx]). congruence.
  - apply existsb_exists in E2 as (x & I & Hx). assert (X : existsb f l = true) by (apply existsb_exists; exists x; split; [eapply Permutation_in; [apply Permutation_sym|]; eauto|exact Hx]). congruence.
Qed.

Section Det.
  Variable order : list beh.
  Variable wtab : writer_table.

  Lemma launch_spec_perm dl procs procs' (L q : path) :
    NoDup (map fst procs) -> Permutation procs procs' ->
    launch_spec order wtab dl procs L q = launch_spec order wtab dl procs' L q.
  Proof.
    intros ND P. unfold launch_spec. rewrite (existsb_perm nonempty_proc procs procs' P).
    rewrite (find_unique_perm _ procs procs' P); [reflexivity|].
    intros [pn pd] [pn' pd'] I1 I2 H1 H2. cbn [fst] in H1, H2.
    apply andb_true_iff in H1 as [_ H1]. apply andb_true_iff in H2 as [_ H2].
    assert (E : pn = pn').
    { destruct (list_eq_dec N.eq_dec pn pn') as [E|NE]; [exact E|]. exfalso.
      apply is_prefix_spec in H2 as [r ->]. rewrite (sibling_dirs L pn pn' r NE) in H1. discriminate. }
    subst pn'. f_equal. exact (nodup_fst_unique _ pn pd pd' ND I1 I2).
  Qed.

  Lemma procs_ok_perm dl procs procs' : Permutation procs procs' -> procs_ok order wtab dl procs -> procs_ok order wtab dl procs'.
  Proof.
    intros P [ND PO]. split.
    - eapply Permutation_NoDup; [apply Permutation_map; exact P|exact ND].
    - intros pn pd Hin. apply PO. eapply Permutation_in; [apply Permutation_sym, P|exact Hin].
  Qed.

  (* same environment, process deltas written in two different orders: the same file system *)
  Theorem write_process_order_irrelevant e e' dir s :
    le_all e' = le_all e -> le_build e' = le_build e -> le_launch e' = le_launch e ->
    Permutation (le_process e) (le_process e') ->
    fs_inv s dir ->
    files_ok order wtab (le_all e) -> files_ok order wtab (le_build e) -> files_ok order wtab (le_launch e) ->
    procs_ok order wtab (le_launch e) (le_process e) ->
    root_ok s (dir ++ [n_env]) -> root_ok s (dir ++ [n_env_build]) -> root_ok s (dir ++ [n_env_launch]) ->
    exists s1 s2, write_to_layer_dir order wtab e dir s = (s1, Ok tt) /\
                  write_to_layer_dir order wtab e' dir s = (s2, Ok tt) /\
                  forall q, pget q s1 = pget q s2.
  Proof.
    intros EA EB EL P I0 FA FB FL PO RA RB RL.
    destruct (write_to_layer_dir_full order wtab e dir s I0 FA FB FL PO RA RB RL) as (s1 & E1 & _ & G1).
    assert (PO' : procs_ok order wtab (le_launch e') (le_process e')) by (rewrite EL; eapply procs_ok_perm; eauto).
    assert (FA' : files_ok order wtab (le_all e')) by (rewrite EA; exact FA).
    assert (FB' : files_ok order wtab (le_build e')) by (rewrite EB; exact FB).
    assert (FL' : files_ok order wtab (le_launch e')) by (rewrite EL; exact FL).
    destruct (write_to_layer_dir_full order wtab e' dir s I0 FA' FB' FL' PO' RA RB RL) as (s2 & E2 & _ & G2).
    exists s1, s2. split; [exact E1|]. split; [exact E2|].
    intros q. rewrite G1, G2, EA, EB, EL.
    rewrite (launch_spec_perm (le_launch e) (le_process e) (le_process e') _ q (proj1 PO) P). reflexivity.
  Qed.
End Det.
