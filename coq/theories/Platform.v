(* Platform.v -- executable model of libcnb/src/platform.rs (read_platform_env) over FS.v, of
   runtime.rs::context_target, and of the assembly of the detect/build contexts.
   String::from_utf8 validity is modelled by [utf8_valid] (RFC 3629: no overlong forms, no
   surrogates, at most U+10FFFF). *)
From LV Require Import Base Toml FS Serde SpecDocs.

(* ---------- UTF-8 ---------- *)
Definition in_range (x lo hi : N) : bool := (lo <=? x) && (x <=? hi).
Definition is_cont (x : N) : bool := in_range x 128 191.

Fixpoint utf8_valid (s : bytes) : bool :=
  match s with
  | [] => true
  | a :: r =>
      if a <? 128 then utf8_valid r
      else if in_range a 194 223 then
        match r with b1 :: r' => is_cont b1 && utf8_valid r' | _ => false end
      else if a =? 224 then
        match r with b1 :: b2 :: r' => in_range b1 160 191 && is_cont b2 && utf8_valid r' | _ => false end
      else if in_range a 225 236 || in_range a 238 239 then
        match r with b1 :: b2 :: r' => is_cont b1 && is_cont b2 && utf8_valid r' | _ => false end
      else if a =? 237 then
        match r with b1 :: b2 :: r' => in_range b1 128 159 && is_cont b2 && utf8_valid r' | _ => false end
      else if a =? 240 then
        match r with b1 :: b2 :: b3 :: r' => in_range b1 144 191 && is_cont b2 && is_cont b3 && utf8_valid r' | _ => false end
      else if in_range a 241 243 then
        match r with b1 :: b2 :: b3 :: r' => is_cont b1 && is_cont b2 && is_cont b3 && utf8_valid r' | _ => false end
      else if a =? 244 then
        match r with b1 :: b2 :: b3 :: r' => in_range b1 128 143 && is_cont b2 && is_cont b3 && utf8_valid r' | _ => false end
      else false
  end.

(* ---------- read_platform_env ---------- *)
Definition n_env_dir : name := [101; 110; 118].

Definition env_step (envp : path) (s : fs) (acc : result errno (bmap bytes)) (n : name) : result errno (bmap bytes) :=
  match acc with
  | Err e => Err e
  | Ok m =>
      if is_file (envp ++ [n]) s then
        match read_file (envp ++ [n]) s with
        | (_, Ok mc) => if utf8_valid (content_bytes (snd mc)) then Ok (bset n (content_bytes (snd mc)) m) else Err EINVAL
        | (_, Err e) => Err e
        end
      else Ok m
  end.

Definition platform_env (platform : path) (s : fs) : result errno (bmap bytes) :=
  let envp := platform ++ [n_env_dir] in
  match readdir envp s with
  | (_, Err ENOENT) => Ok []           (* a missing <platform>/env is tolerated *)
  | (_, Err e) => Err e
  | (_, Ok pl) => fold_left (env_step envp s) (snd pl) (Ok [])
  end.

(* ---------- context_target ---------- *)
Record target := mkTarget { t_os : bytes; t_arch : bytes; t_variant : option bytes; t_dname : bytes; t_dver : bytes }.
Record target_vars := mkTV { v_os : option bytes; v_arch : option bytes; v_variant : option bytes;
                             v_dname : option bytes; v_dver : option bytes }.

Definition mandatory (o : option bytes) : option bytes :=
  match o with Some x => if utf8_valid x then Some x else None | None => None end.

(* [variant_silenced] = env::var(..).ok(): a value that is not Unicode becomes None (finding F8);
   false = the repaired behaviour: such a value is an error *)
Definition context_target (variant_silenced : bool) (v : target_vars) : option target :=
  match mandatory (v_os v), mandatory (v_arch v), mandatory (v_dname v), mandatory (v_dver v) with
  | Some o, Some a, Some dn, Some dv =>
      match v_variant v with
      | None => Some (mkTarget o a None dn dv)
      | Some x => if utf8_valid x then Some (mkTarget o a (Some x) dn dv)
                  else if variant_silenced then Some (mkTarget o a None dn dv) else None
      end
  | _, _, _, _ => None
  end.

(* ---------- the context as a whole ---------- *)
Inductive phase := PhDetect | PhBuild.

Record inputs := mkIn {
  i_phase : phase;
  i_platform_fs : fs;            (* the platform directory, rooted at [] *)
  i_vars : target_vars;
  i_desc : tv;                   (* buildpack.toml *)
  i_plan : tv;                   (* buildpack plan (build) *)
  i_store : option tv            (* store.toml if present (build) *)
}.

Record context := mkCtx {
  x_platform : bmap bytes;
  x_target : target;
  x_desc : sval;
  x_plan : option sval;          (* build only *)
  x_store : option (option sval) (* build only; inner None = no store.toml *)
}.

Section Ctx.
  Variable vf : nat -> bytes -> bool.
  Variable sq : bool.
  Variables (s_desc s_plan s_store : sty).
  Variable variant_silenced : bool.

  Definition build_context (i : inputs) : option context :=
    match decode vf sq s_desc (i_desc i) with
    | None => None
    | Some d =>
        match platform_env [] (i_platform_fs i) with
        | Err _ => None
        | Ok pe =>
            match i_phase i with
            | PhDetect =>
                match context_target variant_silenced (i_vars i) with
                | Some t => Some (mkCtx pe t d None None)
                | None => None
                end
            | PhBuild =>
                match decode vf sq s_plan (i_plan i) with
                | None => None
                | Some pl =>
                    match (match i_store i with
                           | None => Some None
                           | Some st => option_map Some (decode vf sq s_store st)
                           end) with
                    | None => None
                    | Some sto =>
                        match context_target variant_silenced (i_vars i) with
                        | Some t => Some (mkCtx pe t d (Some pl) (Some sto))
                        | None => None
                        end
                    end
                end
            end
        end
    end.
End Ctx.
