(* PackageCmdFacts.v -- theorems about the packaging model. *)
From LV Require Import Base SpecDocs FS FSFacts Determinism PackageCmd.
From Coq Require Import Permutation Lia.
Open Scope N_scope.
Open Scope list_scope.

(* ---------- main / additional binary targets ---------- *)
Lemma existsb_beq_in x l : existsb (beq x) l = true <-> In x l.
Proof.
  rewrite existsb_exists. split.
  - intros (y & Hy & E). apply beq_spec in E. subst. exact Hy.
  - intros H. exists x. split; [exact H|apply beq_refl].
Qed.

Theorem main_bin_spec pkg bins m :
  main_bin pkg bins = Some m ->
  In m bins /\ ((2 <= List.length bins)%nat -> m = pkg) /\
  (forall x, In x bins <-> x = m \/ In x (additional_bins m bins)) /\ ~ In m (additional_bins m bins).
Proof.
  intros H. assert (Hin : In m bins /\ ((2 <= List.length bins)%nat -> m = pkg)).
  { unfold main_bin in H. destruct bins as [|x [|y r]]; [discriminate| |].
    - inversion H; subst. split; [left; reflexivity|cbn; lia].
    - destruct (existsb (beq pkg) (x :: y :: r)) eqn:E; [|discriminate]. inversion H; subst.
      split; [apply existsb_beq_in; exact E|reflexivity]. }
  destruct Hin as [Hin H2]. split; [exact Hin|]. split; [exact H2|]. split.
  - intros x. unfold additional_bins. rewrite filter_In. split.
    + intros Hx. destruct (beq x m) eqn:E; [left; apply beq_spec; exact E|right; split; [exact Hx|reflexivity]].
    + intros [->|[Hx _]]; assumption.
  - unfold additional_bins. rewrite filter_In. intros [_ E]. rewrite beq_refl in E. discriminate.
Qed.

Theorem main_bin_none pkg bins :
  main_bin pkg bins = None <-> bins = [] \/ ((2 <= List.length bins)%nat /\ ~ In pkg bins).
Proof.
  unfold main_bin. destruct bins as [|x [|y r]].
  - split; [left; reflexivity|reflexivity].
  - split; [discriminate|]. intros [E|[E _]]; [discriminate|cbn in E; lia].
  - destruct (existsb (beq pkg) (x :: y :: r)) eqn:E.
    + split; [discriminate|]. intros [X|[_ X]]; [discriminate|]. exfalso. apply X. apply existsb_beq_in. exact E.
    + split; [|reflexivity]. intros _. right. split; [cbn; lia|]. intros Hin. apply existsb_beq_in in Hin. congruence.
Qed.

(* ---------- output directory names ---------- *)
Theorem dir_name_injective a c : ~ In 95 a -> ~ In 95 c -> dir_name a = dir_name c -> a = c.
Proof.
  revert c. induction a as [|x a IH]; intros [|y c] Ha Hc H; cbn [dir_name map] in H; try discriminate; [reflexivity|].
  injection H as H1 H2.
  assert (x = y).
  { revert H1. destruct (N.eqb_spec x 47) as [->|Hx], (N.eqb_spec y 47) as [->|Hy]; intros H1.
    - reflexivity.
    - exfalso. apply Hc. left. symmetry. exact H1.
    - exfalso. apply Ha. left. exact H1.
    - exact H1. }
  subst y. f_equal. apply IH; [intros X; apply Ha; right; exact X|intros X; apply Hc; right; exact X|exact H2].
Qed.

Theorem dir_name_collision_refuted : exists a c, a <> c /\ dir_name a = dir_name c.
Proof. exists [97; 47; 98], [97; 95; 98]. split; [discriminate|reflexivity]. Qed.

(* ---------- the selected set ---------- *)
Definition edge (ws : list bp) (a c : bytes) : Prop := exists x, find_bp a ws = Some x /\ In c (lib_deps x).

Inductive reach (ws : list bp) : bytes -> bytes -> Prop :=
| reach_refl a : reach ws a a
| reach_step a c d : reach ws a c -> edge ws c d -> reach ws a d.

Lemma mem_id_in id l : mem_id id l = true <-> In id l.
Proof. apply existsb_beq_in. Qed.

(* soundness, with an invariant over (todo, acc): everything in them is reachable from the roots *)
Lemma close_sound ws rootids : forall fuel todo acc res,
  (forall x, In x todo -> exists r, In r rootids /\ reach ws r x) ->
  (forall x, In x acc -> exists r, In r rootids /\ reach ws r x) ->
  close fuel ws todo acc = Some res ->
  forall x, In x res -> exists r, In r rootids /\ reach ws r x.
Proof.
  induction fuel as [|f IH]; intros todo acc res Ht Ha H x Hx.
  - destruct todo; [inversion H; subst; apply Ha, Hx|discriminate].
  - destruct todo as [|id rest]; [inversion H; subst; apply Ha, Hx|]. cbn [close] in H.
    destruct (mem_id id acc).
    + eapply IH; [| |exact H|exact Hx]; [intros y Hy; apply Ht; right; exact Hy|exact Ha].
    + destruct (find_bp id ws) as [b0|] eqn:Ef.
      * eapply IH; [| |exact H|exact Hx].
        -- intros y Hy. apply in_app_or in Hy. destruct Hy as [Hy|Hy]; [|apply Ht; right; exact Hy].
           destruct (Ht id (or_introl eq_refl)) as (r & Hr & Rr). exists r. split; [exact Hr|].
           eapply reach_step; [exact Rr|]. exists b0. auto.
        -- intros y [<-|Hy]; [apply Ht; left; reflexivity|apply Ha, Hy].
      * eapply IH; [| |exact H|exact Hx]; [intros y Hy; apply Ht; right; exact Hy|exact Ha].
Qed.

(* completeness: nothing reachable through existing buildpacks is left out *)
Definition closed_inv (ws : list bp) (todo acc : list bytes) : Prop :=
  forall a x c, In a acc -> find_bp a ws = Some x -> In c (lib_deps x) -> In c acc \/ In c todo \/ find_bp c ws = None.

Lemma close_complete ws : forall fuel todo acc res,
  closed_inv ws todo acc ->
  close fuel ws todo acc = Some res ->
  (forall x, In x acc -> In x res) /\
  (forall x, In x todo -> find_bp x ws <> None -> In x res) /\
  (forall a x c, In a res -> find_bp a ws = Some x -> In c (lib_deps x) -> find_bp c ws <> None -> In c res).
Proof.
  induction fuel as [|f IH]; intros todo acc res HI H.
  - destruct todo; [|discriminate]. inversion H; subst. split; [auto|]. split; [intros x []|].
    intros a x c Ha Hf Hc Hn. destruct (HI a x c Ha Hf Hc) as [X|[[]|X]]; [exact X|contradiction].
  - destruct todo as [|id rest].
    { inversion H; subst. split; [auto|]. split; [intros x []|].
      intros a x c Ha Hf Hc Hn. destruct (HI a x c Ha Hf Hc) as [X|[[]|X]]; [exact X|contradiction]. }
    cbn [close] in H. destruct (mem_id id acc) eqn:Em.
    + apply mem_id_in in Em.
      assert (HI' : closed_inv ws rest acc).
      { intros a x c Ha Hf Hc. destruct (HI a x c Ha Hf Hc) as [X|[[X|X]|X]]; [left; exact X|subst; left; exact Em|right; left; exact X|right; right; exact X]. }
      destruct (IH rest acc res HI' H) as (A & B & C). split; [exact A|]. split; [|exact C].
      intros x [<-|Hx] Hn; [apply A, Em|apply B; assumption].
    + destruct (find_bp id ws) as [b0|] eqn:Ef.
      * assert (HI' : closed_inv ws (lib_deps b0 ++ rest) (id :: acc)).
        { intros a x c [<-|Ha] Hf Hc.
          - rewrite Ef in Hf. inversion Hf; subst. right. left. apply in_or_app. left. exact Hc.
          - destruct (HI a x c Ha Hf Hc) as [X|[[X|X]|X]];
              [left; right; exact X|subst; left; left; reflexivity|right; left; apply in_or_app; right; exact X|right; right; exact X]. }
        destruct (IH _ _ res HI' H) as (A & B & C). split; [intros x Hx; apply A; right; exact Hx|]. split; [|exact C].
        intros x [<-|Hx] Hn; [apply A; left; reflexivity|apply B; [apply in_or_app; right; exact Hx|exact Hn]].
      * assert (HI' : closed_inv ws rest acc).
        { intros a x c Ha Hf Hc. destruct (HI a x c Ha Hf Hc) as [X|[[X|X]|X]];
            [left; exact X|subst; right; right; exact Ef|right; left; exact X|right; right; exact X]. }
        destruct (IH rest acc res HI' H) as (A & B & C). split; [exact A|]. split; [|exact C].
        intros x [<-|Hx] Hn; [congruence|apply B; assumption].
Qed.

(* the packaged set: exactly what the roots reach through libcnb: dependencies *)
Theorem selected_exact ws rootids res :
  (forall r, In r rootids -> find_bp r ws <> None) -> (forall a x c, In a res -> find_bp a ws = Some x -> In c (lib_deps x) -> find_bp c ws <> None) ->
  close (close_fuel ws rootids) ws rootids [] = Some res ->
  forall x, In x res <-> exists r, In r rootids /\ reach ws r x.
Proof.
  intros Hr Hno H x. split.
  - eapply close_sound; [| |exact H].
    + intros y Hy. exists y. split; [exact Hy|apply reach_refl].
    + intros y [].
  - destruct (close_complete ws _ _ _ _ (fun a x c (Ha : In a []) => match Ha with end) H) as (_ & B & C).
    intros (r & Hin & R). induction R as [a|a c d R IHR E].
    + apply B; [exact Hin|apply Hr, Hin].
    + destruct E as (b0 & Hf & Hd). apply (C c b0 d (IHR Hin) Hf Hd). apply (Hno c b0 d (IHR Hin) Hf Hd).
Qed.

(* ---------- stale output: whatever the destination held, the result is the same ---------- *)
Lemma pget_apply_writes_ext l : forall s1 s2 q, pget q s1 = pget q s2 -> pget q (apply_writes l s1) = pget q (apply_writes l s2).
Proof.
  induction l as [|kv l IH]; intros s1 s2 q H; [exact H|]. cbn [apply_writes fold_left]. apply IH.
  destruct (path_eqb q (fst kv)) eqn:E.
  - apply path_eqb_spec in E. subst. rewrite !pget_pset_same. reflexivity.
  - apply path_eqb_neq in E. rewrite !pget_pset_other by exact E. exact H.
Qed.

Theorem wipe_then_write_independent d l s1 s2 q :
  is_prefix d q = true -> pget q (apply_writes l (premove_under d s1)) = pget q (apply_writes l (premove_under d s2)).
Proof. intros Hp. apply pget_apply_writes_ext. rewrite !pget_premove, Hp. reflexivity. Qed.

(* without the wipe a stale entry below the destination survives *)
Theorem no_wipe_refuted : exists d l (s1 s2 : fs) q, is_prefix d q = true /\ pget q (apply_writes l s1) <> pget q (apply_writes l s2).
Proof.
  exists [[100]], [], [([[100]; [120]], Dir 493)], [], [[100]; [120]]. split; [reflexivity|]. cbn. discriminate.
Qed.

(* ---------- stdout ---------- *)
Lemma insert_by_perm x l : Permutation (insert_by x l) (x :: l).
Proof.
  induction l as [|y r IH]; cbn [insert_by]; [apply Permutation_refl|].
  destruct (bcmp x y); try apply Permutation_refl.
  eapply Permutation_trans; [apply perm_skip; exact IH|apply perm_swap].
Qed.

Theorem sort_ids_perm l : Permutation (sort_ids l) l.
Proof.
  induction l as [|x l IH]; [apply Permutation_refl|]. cbn [sort_ids fold_right].
  eapply Permutation_trans; [apply insert_by_perm|apply perm_skip; exact IH].
Qed.

Fixpoint sorted_ids (l : list bytes) : Prop :=
  match l with
  | [] => True
  | x :: r => (match r with [] => True | y :: _ => bcmp x y <> Gt end) /\ sorted_ids r
  end.

Lemma insert_by_sorted x l : sorted_ids l -> sorted_ids (insert_by x l).
Proof.
  induction l as [|y r IH]; intros H; cbn [insert_by]; [cbn; auto|].
  destruct (bcmp x y) eqn:E.
  - cbn [sorted_ids]. split; [rewrite E; discriminate|exact H].
  - cbn [sorted_ids]. split; [rewrite E; discriminate|exact H].
  - destruct H as [H1 H2]. cbn [sorted_ids]. split; [|apply IH; exact H2].
    destruct r as [|z r']; cbn [insert_by].
    + rewrite bcmp_antisym, E. discriminate.
    + destruct (bcmp x z) eqn:E2; try exact H1; rewrite bcmp_antisym, E; discriminate.
Qed.

Theorem sort_ids_sorted l : sorted_ids (sort_ids l).
Proof. induction l as [|x l IH]; [exact I|]. cbn [sort_ids fold_right]. apply insert_by_sorted, IH. Qed.
