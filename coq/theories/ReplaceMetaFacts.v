(* ReplaceMetaFacts.v -- shared::replace_layer_types (what Keep does to <layer>.toml) and
   shared::replace_layer_metadata (ReplaceMetadata), as regenerated from the source, in a layers
   directory reached through searchable real directories and writable. *)
From LV Require Import Base Toml FS FSFacts LayerShared LayerSharedFacts Determinism LayerEnvFSExact ImpPrims ImpTypes.
From LV Require Import WriteLayerFacts.
From LVGen Require Import GenLayerSharedImp.

Lemma read_string_in_dir s d nm m c : simple_dir s d -> valid_name nm = true ->
  pget (d ++ [nm]) s = Some (File m c) -> has_r m = true ->
  read_string (d ++ [nm]) s = (s, Ok (content_bytes c)).
Proof.
  intros SD Hv Hn Hr. unfold read_string, bindM, read_file.
  assert (NL : not_link (pget (d ++ [nm]) s)) by (rewrite Hn; intros t; discriminate).
  rewrite (resolve_in_dir s d nm true SD Hv NL), Hn, Hr. reflexivity.
Qed.

Section ReplaceMeta.
  Context {Ty Md : Type}.
  Variables (parse : bytes -> option (option Ty * Md)) (enc : option Ty * Md -> tv).
  Variables (layers : path) (n : name).
  Local Notation toml := (layers ++ [n ++ [46; 116; 111; 109; 108]]).
  Hypothesis Vt : valid_name (n ++ [46; 116; 111; 109; 108]) = true.

  (* Keep: the requested types are declared, the metadata the previous build left stays, nothing else
     in the file system changes (the result is given in full) *)
  Theorem replace_layer_types_exact s m c ty0 md0 ty :
    simple_dir s layers -> pget toml s = Some (File m c) -> has_r m = true -> has_w m = true ->
    parse (content_bytes c) = Some (ty0, md0) ->
    gen_replace_layer_types parse enc layers n ty s = (pset toml (File m (Doc (enc (Some ty, md0)))) s, Ok tt).
  Proof.
    intros SD Hf Hr Hw Hp. unfold gen_replace_layer_types, read_doc. cbv zeta.
    pose proof (read_string_in_dir s layers _ m c SD Vt Hf Hr) as R.
    pose proof (write_file_over_file s layers _ m c (Doc (enc (Some ty, md0))) SD Vt Hf Hw) as W.
    unfold bindM.
    match goal with |- (let (s', r) := (let (s1, r1) := ?X in _) in _) = _ =>
      replace X with (s, @Ok errno bytes (content_bytes c)) by (symmetry; exact R) end.
    unfold lift_parse. rewrite Hp. cbn [snd].
    match goal with |- ?X = _ => replace X with (pset toml (File m (Doc (enc (Some ty, md0)))) s, @Ok errno unit tt) by (symmetry; exact W) end.
    reflexivity.
  Qed.

  (* ReplaceMetadata: the metadata is replaced, the types the file declares stay *)
  Theorem replace_layer_metadata_exact s m c ty0 md0 md :
    simple_dir s layers -> pget toml s = Some (File m c) -> has_r m = true -> has_w m = true ->
    parse (content_bytes c) = Some (ty0, md0) ->
    gen_replace_layer_metadata parse enc layers n md s = (pset toml (File m (Doc (enc (ty0, md)))) s, Ok tt).
  Proof.
    intros SD Hf Hr Hw Hp. unfold gen_replace_layer_metadata, read_doc. cbv zeta.
    pose proof (read_string_in_dir s layers _ m c SD Vt Hf Hr) as R.
    pose proof (write_file_over_file s layers _ m c (Doc (enc (ty0, md))) SD Vt Hf Hw) as W.
    unfold bindM.
    match goal with |- (let (s', r) := (let (s1, r1) := ?X in _) in _) = _ =>
      replace X with (s, @Ok errno bytes (content_bytes c)) by (symmetry; exact R) end.
    unfold lift_parse. rewrite Hp. cbn [fst].
    match goal with |- ?X = _ => replace X with (pset toml (File m (Doc (enc (ty0, md)))) s, @Ok errno unit tt) by (symmetry; exact W) end.
    reflexivity.
  Qed.

  (* a document that cannot be read or parsed: an error, and nothing is written *)
  Theorem replace_layer_types_unparsable s m c ty :
    simple_dir s layers -> pget toml s = Some (File m c) -> has_r m = true ->
    parse (content_bytes c) = None ->
    gen_replace_layer_types parse enc layers n ty s = (s, Err EINVAL).
  Proof.
    intros SD Hf Hr Hp. unfold gen_replace_layer_types, read_doc. cbv zeta.
    pose proof (read_string_in_dir s layers _ m c SD Vt Hf Hr) as R.
    unfold bindM.
    match goal with |- (let (s', r) := (let (s1, r1) := ?X in _) in _) = _ =>
      replace X with (s, @Ok errno bytes (content_bytes c)) by (symmetry; exact R) end.
    unfold lift_parse. rewrite Hp. reflexivity.
  Qed.
End ReplaceMeta.
