(* InventoryFacts.v -- proofs for C18: resolution returns a maximal matching artifact for every
   partial order; checksum grammar; hex round trip. *)
From LV Require Import Base Inventory.

Section ResolveFacts.
  Context {A V : Type}.
  Variable key : A -> V.
  Variable sel : A -> bool.
  Variable pcmp : V -> V -> option comparison.
  Hypothesis laws : porder_laws pcmp.

  Let step := pmax_step key pcmp spec_replace_on.
  Let ge (a b : A) : Prop := a = b \/ spec_replace_on (pcmp (key a) (key b)) = true.
  Let gt (a b : A) : Prop := pcmp (key a) (key b) = Some Gt.

  Lemma gt_irrefl a : ~ gt a a.
  Proof. unfold gt. apply (po_irrefl _ laws). Qed.

  Lemma gt_ge_absurd a b : gt a b -> ge b a -> False.
  Proof.
    intros G [->|H]; [now apply gt_irrefl in G|].
    apply (gt_irrefl a). unfold gt in *. eapply (po_trans_gt_ge _ laws); eauto.
  Qed.

  Lemma ge_trans a b c : ge a b -> ge b c -> ge a c.
  Proof.
    intros [->|H1] [->|H2]; unfold ge; auto. right. eapply (po_trans_ge _ laws); eauto.
  Qed.

  Lemma fold_some xs a : exists r, fold_left step xs (Some a) = Some r.
  Proof.
    revert a. induction xs as [|x xs IH]; intros a; cbn [fold_left]; [now exists a|].
    unfold step at 2, pmax_step. destruct (spec_replace_on _); apply IH.
  Qed.

  Lemma fold_max xs a r : fold_left step xs (Some a) = Some r ->
    (r = a \/ In r xs) /\ ge r a /\ forall m, In m xs -> ~ gt m r.
  Proof.
    revert a. induction xs as [|x xs IH]; intros a H; cbn [fold_left] in H.
    - injection H as <-. split; [now left|]. split; [now left|]. intros m [].
    - unfold step at 2, pmax_step in H.
      destruct (spec_replace_on (pcmp (key x) (key a))) eqn:R.
      + destruct (IH x H) as (I & G & M). split; [|split].
        * right. destruct I as [->|I]; [now left|now right].
        * eapply ge_trans; [exact G|]. now right.
        * intros m [<-|Im]; [|now apply M]. intro Gx. eapply gt_ge_absurd; eauto.
      + destruct (IH a H) as (I & G & M). split; [|split].
        * destruct I as [->|I]; [now left|right; now right].
        * exact G.
        * intros m [<-|Im]; [|now apply M]. intro Gx.
          assert (Gxa : pcmp (key x) (key a) = Some Gt).
          { destruct G as [->|G]; [exact Gx|]. eapply (po_trans_gt_ge _ laws); eauto. }
          rewrite Gxa in R. discriminate.
  Qed.

  Theorem partial_resolve_spec l :
    resolve_spec key sel pcmp l (partial_resolve key sel pcmp spec_replace_on l).
  Proof.
    unfold partial_resolve, resolve_spec.
    destruct (filter sel l) as [|x xs] eqn:F; cbn [fold_left].
    - intros a I. destruct (sel a) eqn:S; [|reflexivity].
      assert (In a (filter sel l)) by (apply filter_In; now split). rewrite F in H. destruct H.
    - change (pmax_step key pcmp spec_replace_on None x) with (Some x).
      fold step. destruct (fold_some xs x) as [r Hr]. rewrite Hr.
      destruct (fold_max xs x r Hr) as (I & G & M).
      assert (Ir : In r (x :: xs)) by (destruct I as [->|I]; [now left|now right]).
      rewrite <- F in Ir. apply filter_In in Ir as [Il Sr]. split; [exact Il|]. split; [exact Sr|].
      intros a Ia Sa. assert (Iaf : In a (filter sel l)) by (apply filter_In; now split).
      rewrite F in Iaf. destruct Iaf as [<-|Iaf]; [|now apply M].
      intro Gx. eapply gt_ge_absurd; eauto.
  Qed.
End ResolveFacts.

(* total orders: Iterator::max_by_key *)
Section TotalFacts.
  Context {A V : Type}.
  Variable key : A -> V.
  Variable sel : A -> bool.
  Variable cmp : V -> V -> comparison.
  Hypothesis cmp_flip : forall a b, cmp a b = CompOpp (cmp b a).
  Let pc (a b : V) := Some (cmp a b).
  Hypothesis laws : porder_laws pc.

  Lemma max_step_pmax acc item :
    max_step key cmp acc item = pmax_step key pc spec_replace_on acc item.
  Proof.
    destruct acc as [a|]; cbn; [|reflexivity]. unfold pc. rewrite (cmp_flip (key a) (key item)).
    destruct (cmp (key item) (key a)); reflexivity.
  Qed.

  Theorem resolve_spec_total l : resolve_spec key sel pc l (resolve key sel cmp l).
  Proof.
    assert (E : resolve key sel cmp l = partial_resolve key sel pc spec_replace_on l).
    { unfold resolve, partial_resolve. generalize (filter sel l) (@None A).
      intros xs. induction xs as [|x xs IH]; intros acc; cbn [fold_left]; [reflexivity|].
      now rewrite max_step_pmax, IH. }
    rewrite E. now apply partial_resolve_spec.
  Qed.
End TotalFacts.

(* boolean oracle = the specification, for decidable instances *)
Definition chk_resolve {A V} (key : A -> V) (sel : A -> bool) (pcmp : V -> V -> option comparison)
           (l : list A) (res : option nat) : bool :=
  match res with
  | Some i =>
      match nth_error l i with
      | Some r => sel r && forallb (fun a => negb (sel a) ||
                                     match pcmp (key a) (key r) with Some Gt => false | _ => true end) l
      | None => false
      end
  | None => forallb (fun a => negb (sel a)) l
  end.

Theorem chk_resolve_correct {A V} (key : A -> V) sel pcmp (l : list A) (res : option nat) :
  chk_resolve key sel pcmp l res = true <->
  match res with
  | Some i => exists r, nth_error l i = Some r /\ resolve_spec key sel pcmp l (Some r)
  | None => resolve_spec key sel pcmp l None
  end.
Proof.
  unfold chk_resolve, resolve_spec. destruct res as [i|].
  - destruct (nth_error l i) as [r|] eqn:N.
    + rewrite andb_true_iff, forallb_forall. split.
      * intros [S F]. exists r. split; [reflexivity|]. split; [eapply nth_error_In; eauto|]. split; [exact S|].
        intros a Ia Sa. specialize (F a Ia). rewrite Sa in F. cbn in F.
        destruct (pcmp (key a) (key r)) as [[]|]; congruence.
      * intros (r' & [= <-] & _ & S & M). split; [exact S|]. intros a Ia.
        destruct (sel a) eqn:Sa; [|reflexivity]. cbn. specialize (M a Ia Sa).
        destruct (pcmp (key a) (key r)) as [[]|]; congruence.
    + split; [discriminate|]. intros (r & H & _). discriminate.
  - rewrite forallb_forall. split; intros H a Ia; specialize (H a Ia).
    + now apply negb_true_iff in H.
    + now rewrite H.
Qed.

(* ---------- the concrete version orders satisfy the laws ---------- *)
Lemma ver_eqb_spec a b : ver_eqb a b = true <-> a = b.
Proof.
  destruct a as [a1 a2], b as [b1 b2]. unfold ver_eqb. cbn [fst snd].
  rewrite andb_true_iff, !N.eqb_eq. split; [intros [-> ->]; reflexivity|intros [= -> ->]; auto].
Qed.

Lemma ver_ge_iff a b :
  spec_replace_on (ver_pcmp a b) = true <-> (fst b <= fst a /\ snd b <= snd a).
Proof.
  destruct a as [a1 a2], b as [b1 b2]. unfold ver_pcmp, ver_eqb, spec_replace_on. cbn [fst snd].
  destruct (N.eqb_spec a1 b1), (N.eqb_spec a2 b2), (N.leb_spec a1 b1), (N.leb_spec a2 b2),
           (N.leb_spec b1 a1), (N.leb_spec b2 a2); cbn; split; intros; try discriminate; try lia; reflexivity.
Qed.

Lemma ver_gt_iff a b :
  ver_pcmp a b = Some Gt <-> (fst b <= fst a /\ snd b <= snd a /\ (fst a <> fst b \/ snd a <> snd b)).
Proof.
  destruct a as [a1 a2], b as [b1 b2]. unfold ver_pcmp, ver_eqb. cbn [fst snd].
  destruct (N.eqb_spec a1 b1), (N.eqb_spec a2 b2), (N.leb_spec a1 b1), (N.leb_spec a2 b2),
           (N.leb_spec b1 a1), (N.leb_spec b2 a2); cbn; split; intros; try discriminate; try lia; reflexivity.
Qed.

Lemma ver_pcmp_laws : porder_laws ver_pcmp.
Proof.
  constructor.
  - intros a. rewrite ver_gt_iff. lia.
  - intros a b c. rewrite !ver_ge_iff. lia.
  - intros a b c. rewrite !ver_gt_iff, ver_ge_iff. lia.
Qed.

Lemma ver_pcmp_nan_laws : porder_laws ver_pcmp_nan.
Proof.
  destruct ver_pcmp_laws as [I T1 T2].
  assert (G : forall a b, spec_replace_on (ver_pcmp_nan a b) = true ->
              ver_nan a = false /\ ver_nan b = false /\ ver_pcmp_nan a b = ver_pcmp a b).
  { intros a b. unfold ver_pcmp_nan. destruct (ver_nan a), (ver_nan b); cbn; try discriminate; auto. }
  assert (G' : forall a b, ver_pcmp_nan a b = Some Gt ->
              ver_nan a = false /\ ver_nan b = false /\ ver_pcmp_nan a b = ver_pcmp a b).
  { intros a b. unfold ver_pcmp_nan. destruct (ver_nan a), (ver_nan b); cbn; try discriminate; auto. }
  constructor.
  - intros a. unfold ver_pcmp_nan. destruct (ver_nan a); cbn; [discriminate|apply I].
  - intros a b c H1 H2. destruct (G _ _ H1) as (Na & Nb & E1). destruct (G _ _ H2) as (_ & Nc & E2).
    rewrite E1 in H1. rewrite E2 in H2. unfold ver_pcmp_nan. rewrite Na, Nc. cbn. eapply T1; eauto.
  - intros a b c H1 H2. destruct (G' _ _ H1) as (Na & Nb & E1). destruct (G _ _ H2) as (_ & Nc & E2).
    rewrite E1 in H1. rewrite E2 in H2. unfold ver_pcmp_nan. rewrite Na, Nc. cbn. eapply T2; eauto.
Qed.

Lemma ver_cmp_flip a b : ver_cmp a b = CompOpp (ver_cmp b a).
Proof.
  destruct a as [a1 a2], b as [b1 b2]. unfold ver_cmp. cbn [fst snd].
  rewrite (N.compare_antisym b1 a1), (N.compare_antisym b2 a2).
  destruct (N.compare b1 a1), (N.compare b2 a2); reflexivity.
Qed.

Lemma vcmp_ge_iff a b :
  spec_replace_on (Some (ver_cmp a b)) = true <-> (fst b < fst a \/ (fst a = fst b /\ snd b <= snd a)).
Proof.
  destruct a as [a1 a2], b as [b1 b2]. unfold ver_cmp, spec_replace_on. cbn [fst snd].
  destruct (N.compare_spec a1 b1), (N.compare_spec a2 b2); split; intros; try discriminate; try lia; reflexivity.
Qed.

Lemma vcmp_gt_iff a b :
  Some (ver_cmp a b) = Some Gt <-> (fst b < fst a \/ (fst a = fst b /\ snd b < snd a)).
Proof.
  destruct a as [a1 a2], b as [b1 b2]. unfold ver_cmp. cbn [fst snd].
  destruct (N.compare_spec a1 b1), (N.compare_spec a2 b2); split; intros; try discriminate; try lia; reflexivity.
Qed.

Lemma ver_cmp_laws : porder_laws (fun a b => Some (ver_cmp a b)).
Proof.
  constructor.
  - intros a. rewrite vcmp_gt_iff. lia.
  - intros a b c. rewrite !vcmp_ge_iff. lia.
  - intros a b c. rewrite !vcmp_gt_iff, vcmp_ge_iff. lia.
Qed.

(* ---------- hex ---------- *)
Lemma list_ind2 {A} (P : list A -> Prop) :
  P [] -> (forall x, P [x]) -> (forall x y l, P l -> P (x :: y :: l)) -> forall l, P l.
Proof.
  intros H0 H1 H2. fix IH 1. intros [|x [|y l]]; [exact H0|apply H1|apply H2, IH].
Qed.

Lemma hex_val_digit n : n < 16 -> hex_val (hex_digit n) = Some n.
Proof.
  intros L. unfold hex_digit, hex_val.
  destruct (N.ltb_spec n 10).
  - destruct (N.leb_spec 48 (48 + n)), (N.leb_spec (48 + n) 57); cbn; try lia. f_equal. lia.
  - destruct (N.leb_spec 48 (87 + n)), (N.leb_spec (87 + n) 57); cbn; try lia.
    + destruct (N.leb_spec 97 (87 + n)), (N.leb_spec (87 + n) 102); cbn; try lia. f_equal. lia.
Qed.

Theorem hex_roundtrip b : all_bytes b -> hex_decode (hex_encode b) = Some b.
Proof.
  induction 1 as [|x b Hx _ IH]; [reflexivity|]. cbn [hex_encode hex_decode].
  assert (x / 16 < 16) by (apply N.div_lt_upper_bound; lia).
  assert (x mod 16 < 16) by (apply N.mod_lt; lia).
  rewrite !hex_val_digit, IH by assumption. f_equal. f_equal.
  pose proof (N.div_mod x 16 ltac:(lia)). lia.
Qed.

Lemma hex_decode_sound s v : hex_decode s = Some v ->
  Forall (fun c => is_hex c = true) s /\ (length s = 2 * length v)%nat.
Proof.
  revert v. induction s as [| |h l s IH] using list_ind2; intros v H; cbn [hex_decode] in H.
  - injection H as <-. split; [constructor|reflexivity].
  - discriminate.
  - destruct (hex_val h) eqn:Eh; [|discriminate]. destruct (hex_val l) eqn:El; [|discriminate].
    destruct (hex_decode s) as [r|] eqn:Es; [|discriminate]. injection H as <-.
    destruct (IH r eq_refl) as [F L]. split.
    + constructor; [unfold is_hex; now rewrite Eh|]. constructor; [unfold is_hex; now rewrite El|exact F].
    + cbn [length]. lia.
Qed.

Lemma hex_decode_complete s : Forall (fun c => is_hex c = true) s -> Nat.even (length s) = true ->
  exists v, hex_decode s = Some v.
Proof.
  induction s as [| |h l s IH] using list_ind2; intros F E.
  - now exists [].
  - discriminate.
  - inversion F as [|? ? Fh F1]; subst. inversion F1 as [|? ? Fl F2]; subst.
    cbn [length] in E. destruct (IH F2 E) as [r Hr]. cbn [hex_decode].
    unfold is_hex in Fh, Fl. destruct (hex_val h); [|discriminate]. destruct (hex_val l); [|discriminate].
    rewrite Hr. eauto.
Qed.

Lemma split_colon_spec s n h : split_colon s = Some (n, h) <-> s = n ++ 58 :: h /\ ~ In 58 n.
Proof.
  revert n. induction s as [|c s IH]; intros n; cbn [split_colon].
  - split; [discriminate|]. intros [E _]. destruct n; discriminate.
  - destruct (N.eqb_spec c 58) as [->|NE].
    + split.
      * intros [= <- <-]. split; [reflexivity|intros []].
      * intros [E N]. destruct n as [|x n]; cbn in E; [now injection E as ->|].
        injection E as <- _. exfalso. apply N. now left.
    + destruct (split_colon s) as [[a b]|] eqn:S.
      * split.
        -- intros [= <- <-]. destruct (proj1 (IH a) eq_refl) as [-> N]. split; [reflexivity|].
           intros [E|I]; [congruence|contradiction].
        -- intros [E N]. destruct n as [|x n]; cbn in E; [injection E as -> _; congruence|].
           injection E as <- E. assert (H : Some (a, b) = Some (n, h)).
           { apply IH. split; [exact E|]. intro I. apply N. now right. }
           now injection H as -> ->.
      * split; [discriminate|]. intros [E N]. destruct n as [|x n]; cbn in E; [injection E as -> _; congruence|].
        injection E as <- E. assert (H : None = Some (n, h)).
        { apply IH. split; [exact E|]. intro I. apply N. now right. }
        discriminate.
Qed.

Lemma split_colon_none s : split_colon s = None <-> ~ In 58 s.
Proof.
  induction s as [|c s IH]; cbn [split_colon]; [split; [intros _ []|reflexivity]|].
  destruct (N.eqb_spec c 58) as [->|NE].
  - split; [discriminate|]. intros N. exfalso. apply N. now left.
  - destruct (split_colon s) as [[a b]|].
    + split; [discriminate|]. intros N. exfalso. destruct IH as [_ IH].
      assert (H : @None (bytes * bytes) = Some (a, b) -> False) by discriminate.
      assert (In 58 s). { destruct (in_dec N.eq_dec 58 s); [assumption|]. specialize (IH n). discriminate. }
      apply N. now right.
    + split; [|reflexivity]. intros _ [E|I]; [congruence|]. now apply (proj1 IH).
Qed.

Section ChecksumFacts.
  Variable name_ok : bytes -> bool.
  Variable len_ok : N -> bool.

  (* accepted exactly for <name>:<hex> with compatible name, even-length hex and compatible length *)
  Theorem checksum_grammar s n v :
    parse_checksum name_ok len_ok s = Ok (n, v) <->
    exists hex, s = n ++ 58 :: hex /\ ~ In 58 n /\ hex_decode hex = Some v /\
                name_ok n = true /\ len_ok (N.of_nat (length v)) = true.
  Proof.
    unfold parse_checksum. split.
    - destruct (split_colon s) as [[n' hex]|] eqn:S; [|discriminate].
      destruct (hex_decode hex) as [v'|] eqn:H; [|discriminate].
      destruct (name_ok n') eqn:NO; [|discriminate]. destruct (len_ok _) eqn:LO; [|discriminate].
      cbn. intros [= <- <-]. apply split_colon_spec in S as [-> N]. exists hex. auto.
    - intros (hex & -> & N & H & NO & LO).
      assert (S : split_colon (n ++ 58 :: hex) = Some (n, hex)) by (apply split_colon_spec; auto).
      rewrite S, H, NO, LO. reflexivity.
  Qed.

  Theorem checksum_accepts_iff s :
    (exists c, parse_checksum name_ok len_ok s = Ok c) <->
    exists n hex, s = n ++ 58 :: hex /\ ~ In 58 n /\ name_ok n = true /\
                  Forall (fun c => is_hex c = true) hex /\ Nat.even (length hex) = true /\
                  len_ok (N.of_nat (Nat.div2 (length hex))) = true.
  Proof.
    split.
    - intros [[n v] H]. apply checksum_grammar in H as (hex & -> & N & D & NO & LO).
      destruct (hex_decode_sound _ _ D) as [F L]. exists n, hex. repeat split; auto.
      + rewrite L. clear. induction (length v) as [|k IH]; [reflexivity|].
        replace (2 * S k)%nat with (S (S (2 * k))) by lia. exact IH.
      + rewrite L. replace (Nat.div2 (2 * length v)) with (length v); [exact LO|].
        clear. induction (length v) as [|k IH]; [reflexivity|].
        replace (2 * S k)%nat with (S (S (2 * k))) by lia. cbn [Nat.div2]. now f_equal.
    - intros (n & hex & -> & N & NO & F & E & LO).
      destruct (hex_decode_complete hex F E) as [v D]. exists (n, v). apply checksum_grammar.
      exists hex. repeat split; auto.
      destruct (hex_decode_sound _ _ D) as [_ L]. rewrite L in LO.
      replace (Nat.div2 (2 * length v)) with (length v) in LO; [exact LO|].
      clear. induction (length v) as [|k IH]; [reflexivity|].
      replace (2 * S k)%nat with (S (S (2 * k))) by lia. cbn [Nat.div2]. now f_equal.
  Qed.

  Theorem checksum_show_parse n v :
    ~ In 58 n -> name_ok n = true -> len_ok (N.of_nat (length v)) = true -> all_bytes v ->
    parse_checksum name_ok len_ok (show_checksum (n, v)) = Ok (n, v).
  Proof.
    intros N NO LO AB. apply checksum_grammar. exists (hex_encode v). unfold show_checksum. cbn [fst snd app].
    repeat split; auto. now apply hex_roundtrip.
  Qed.
End ChecksumFacts.
