(* TestRun.v -- executable model of the resource life cycle of libcnb-test: TestRunner::build /
   build_internal, TestContext::{start_container, run_shell_command, download_sbom_files, rebuild},
   ContainerContext and the Drop impls, with Rust's unwinding semantics: a panic runs the
   destructors of the live locals in reverse order, and a panic raised by a destructor while the
   thread is already unwinding aborts the process (no further destructor runs).

   External commands are events; whether the n-th external command of the run fails is given by an
   arbitrary oracle [fails].  Names are numbers drawn from a fresh-name supply (the model of
   util::random_docker_identifier); temporary directories likewise. *)
From LV Require Import Base.
Open Scope nat_scope.

Inductive ev :=
| EPack (img : nat)                 (* pack build IMG ... --cache ...name=IMG.build-cache ... *)
| ERunD (img c : nat)               (* docker run --name C --detach ... IMG *)
| ERunRm (img c : nat)              (* docker run --name C --rm ... IMG   (run_shell_command) *)
| ELogs (c : nat) (follow : bool)
| EPort (c : nat)
| EExec (c : nat)
| ESbom (img : nat)                 (* pack sbom download IMG *)
| ERmC (c : nat)                    (* docker rm C --force *)
| ERmI (img : nat)                  (* docker rmi IMG --force *)
| ERmV (img : nat).                 (* docker volume remove IMG.build-cache IMG.launch-cache --force *)

Inductive outcome := ODone | OPanic | OAbort.

Inductive cop := CLogsNow | CLogsWait | CPort | CExec | CPanic.
Inductive tstep := SStart (body : list cop) | SShell | SSbom (closure_panics : bool).
(* PreNoSpawn: no preprocessor runs; the pack executable cannot be started at all (execve fails,
   e.g. E2BIG), so build_internal panics without any command having been issued *)
Inductive pre_kind := PreOk | PrePanic | PreNoSpawn.
Record bcfg := mkB { b_pre : option pre_kind; b_expect_success : bool }.

Inductive tbody :=
| TEnd
| TPanicNow
| TStep (s : tstep) (k : tbody)
| TRebuild (cfg : bcfg) (inner : tbody) (panic_after : bool).

Record st := mkSt {
  s_n : nat;                (* external commands issued so far *)
  s_tr : list ev;           (* oldest first *)
  s_next : nat;             (* fresh-name supply *)
  s_tnext : nat;            (* fresh temp-dir supply *)
  s_live : list nat         (* temp dirs that exist *)
}.

Definition st0 : st := mkSt 0 [] 0 0 [].

Section Run.
  Variable fails : nat -> bool.
  Variable repaired : bool.       (* ContainerContext::drop does not panic while the thread is panicking (F6) *)
  Variable early_ctx : bool.      (* the ContainerContext exists before `docker run` is issued *)

  Definition cmd (e : ev) (s : st) : st * bool :=
    (mkSt (S (s_n s)) (s_tr s ++ [e]) (s_next s) (s_tnext s) (s_live s), negb (fails (s_n s))).

  Definition fresh (s : st) : st * nat :=
    (mkSt (s_n s) (s_tr s) (S (s_next s)) (s_tnext s) (s_live s), s_next s).

  Definition mktemp (s : st) : st * nat :=
    (mkSt (s_n s) (s_tr s) (s_next s) (S (s_tnext s)) (s_tnext s :: s_live s), s_tnext s).

  Definition rmtemp (t : nat) (s : st) : st :=
    mkSt (s_n s) (s_tr s) (s_next s) (s_tnext s) (filter (fun x => negb (Nat.eqb x t)) (s_live s)).

  Definition rmtemp_opt (t : option nat) (s : st) : st := match t with Some x => rmtemp x s | None => s end.

  (* Drop for TemporaryDockerResources: both commands, errors ignored *)
  Definition drop_res (img : nat) (s : st) : st := fst (cmd (ERmV img) (fst (cmd (ERmI img) s))).

  (* Drop for ContainerContext *)
  Definition drop_container (c : nat) (panicking : bool) (s : st) : st * outcome :=
    let '(s1, ok) := cmd (ERmC c) s in
    if ok then (s1, if panicking then OPanic else ODone)
    else if panicking then (s1, if repaired then OPanic else OAbort)
    else (s1, OPanic).

  Definition cop_ev (c : nat) (o : cop) : option ev :=
    match o with
    | CLogsNow => Some (ELogs c false) | CLogsWait => Some (ELogs c true)
    | CPort => Some (EPort c) | CExec => Some (EExec c) | CPanic => None
    end.

  (* address_for_port formats its panic message with self.logs_now(): one more command *)
  Definition cop_fail_ev (c : nat) (o : cop) : option ev :=
    match o with CPort => Some (ELogs c false) | _ => None end.

  Fixpoint run_cops (c : nat) (ops : list cop) (s : st) : st * bool (* panicked *) :=
    match ops with
    | [] => (s, false)
    | o :: r =>
        match cop_ev c o with
        | None => (s, true)
        | Some e =>
            let '(s1, ok) := cmd e s in
            if ok then run_cops c r s1
            else match cop_fail_ev c o with
                 | Some e2 => (fst (cmd e2 s1), true)
                 | None => (s1, true)
                 end
        end
    end.

  Definition run_step (img : nat) (x : tstep) (s : st) : st * outcome :=
    match x with
    | SStart body =>
        let '(s0, c) := fresh s in
        let '(s1, ok) := cmd (ERunD img c) s0 in
        if ok then let '(s2, p) := run_cops c body s1 in drop_container c p s2
        else if early_ctx then drop_container c true s1 else (s1, OPanic)
    | SShell =>
        let '(s0, c) := fresh s in
        let '(s1, ok) := cmd (ERunRm img c) s0 in (s1, if ok then ODone else OPanic)
    | SSbom p =>
        let '(s0, t) := mktemp s in
        let '(s1, ok) := cmd (ESbom img) s0 in
        (rmtemp t s1, if ok then (if p then OPanic else ODone) else OPanic)
    end.

  (* TestRunner::build_internal around the test closure [k] (which owns the resources) *)
  Definition run_build_with (k : st -> st * outcome) (img : nat) (cfg : bcfg) (s : st) : st * outcome :=
    let '(s0, t_app) := match b_pre cfg with Some _ => let '(x, t) := mktemp s in (x, Some t) | None => (s, None) end in
    match b_pre cfg with
    | Some PrePanic | Some PreNoSpawn => (drop_res img (rmtemp_opt t_app s0), OPanic)
    | _ =>
        let '(s1, t_bp) := mktemp s0 in
        let '(s2, ok) := cmd (EPack img) s1 in
        if Bool.eqb ok (b_expect_success cfg) then
          let '(s3, o) := k s2 in
          match o with
          | OAbort => (s3, OAbort)
          | _ => (rmtemp_opt t_app (rmtemp t_bp s3), o)
          end
        else (drop_res img (rmtemp_opt t_app (rmtemp t_bp s2)), OPanic)
    end.

  (* the test closure; the TestContext (and with it the resources) is dropped when it ends,
     unless `rebuild` moved the resources into the nested build *)
  Fixpoint run_tbody (img : nat) (b : tbody) (s : st) : st * outcome :=
    match b with
    | TEnd => (drop_res img s, ODone)
    | TPanicNow => (drop_res img s, OPanic)
    | TStep x k =>
        let '(s1, o) := run_step img x s in
        match o with
        | ODone => run_tbody img k s1
        | OPanic => (drop_res img s1, OPanic)
        | OAbort => (s1, OAbort)
        end
    | TRebuild cfg inner after =>
        let '(s1, o) := run_build_with (run_tbody img inner) img cfg s in
        match o with
        | ODone => (s1, if after then OPanic else ODone)
        | _ => (s1, o)
        end
    end.

  Definition run_scenario (cfg : bcfg) (b : tbody) : st * outcome :=
    let '(s0, img) := fresh st0 in run_build_with (run_tbody img b) img cfg s0.
End Run.

(* ---------- judging an observed run ---------- *)
Definition ev_eqb (a b : ev) : bool :=
  match a, b with
  | EPack x, EPack y | ESbom x, ESbom y | ERmC x, ERmC y | ERmI x, ERmI y | ERmV x, ERmV y
  | EPort x, EPort y | EExec x, EExec y => Nat.eqb x y
  | ERunD x c, ERunD y d | ERunRm x c, ERunRm y d => Nat.eqb x y && Nat.eqb c d
  | ELogs x f, ELogs y g => Nat.eqb x y && Bool.eqb f g
  | _, _ => false
  end.

Definition cnames (e : ev) : list nat :=
  match e with ERunD _ d | ERunRm _ d | ELogs d _ | EPort d | EExec d | ERmC d => [d] | _ => [] end.
Definition inames (e : ev) : list nat :=
  match e with EPack j | ERunD j _ | ERunRm j _ | ESbom j | ERmI j | ERmV j => [j] | _ => [] end.
Definition is_rm_img (e : ev) : bool := match e with ERmI _ | ERmV _ => true | _ => false end.

Definition uses_container (c : nat) (e : ev) : bool := existsb (Nat.eqb c) (cnames e).
Definition other_use_i (i : nat) (e : ev) : bool := existsb (Nat.eqb i) (inames e) && negb (is_rm_img e).

Definition count_ev (e : ev) (l : list ev) : nat := length (filter (ev_eqb e) l).

(* after the first occurrence of [e] nothing satisfies [p] *)
Fixpoint nothing_after (e : ev) (p : ev -> bool) (l : list ev) : bool :=
  match l with
  | [] => true
  | x :: r => if ev_eqb e x then negb (existsb p r) else nothing_after e p r
  end.

Definition started_containers (l : list ev) : list nat :=
  flat_map (fun e => match e with ERunD _ c => [c] | _ => [] end) l.
Definition images (l : list ev) : list nat := flat_map inames l.
Definition removed_names (l : list ev) : list nat :=
  flat_map (fun e => match e with ERmC c => [c] | ERmI i => [i] | ERmV i => [i] | _ => [] end) l.

(* [tr] oldest first; [own] = number of names the run generated (names are 0 .. own-1) *)
Definition trace_ok (tr : list ev) (o : outcome) (leftover : nat) (own : nat) : bool :=
  match o with OAbort => false | _ => true end &&
  forallb (fun c => Nat.eqb (count_ev (ERmC c) tr) 1 && nothing_after (ERmC c) (uses_container c) tr)
          (started_containers tr) &&
  forallb (fun i => Nat.eqb (count_ev (ERmI i) tr) 1 && Nat.eqb (count_ev (ERmV i) tr) 1 &&
                    nothing_after (ERmI i) (other_use_i i) tr && nothing_after (ERmV i) (other_use_i i) tr)
          (images tr) &&
  forallb (fun x => Nat.ltb x own) (removed_names tr) &&
  Nat.eqb leftover 0.
