(* ImpTypes.v -- types and wrappers the statement-level translation of libcnb/src/layer/shared.rs
   and libcnb/src/sbom.rs refers to (GenLayerSharedImp.v). *)
From LV Require Import Base FS LayerShared.

Inductive sbom_format := CycloneDxJson | SpdxJson | SyftJson.      (* libcnb_data::sbom::SbomFormat *)

(* util::remove_dir_recursively as called from Rust: the recursion needs no fuel argument there; the
   model's fuel is computed from the file system at the call (rdr_fuel suffices: c11_fuel_enough) *)
Definition rdr (dir : path) : M unit := fun s => remove_dir_recursively true (rdr_fuel s) dir s.
