(* ImpTypes.v -- types and wrappers the statement-level translation of libcnb/src/layer/shared.rs
   and libcnb/src/sbom.rs refers to (GenLayerSharedImp.v). *)
From LV Require Import Base FS LayerShared.

Inductive sbom_format := CycloneDxJson | SpdxJson | SyftJson.      (* libcnb_data::sbom::SbomFormat *)

(* util::remove_dir_recursively as called from Rust: the recursion needs no fuel argument there; the
   model's fuel is computed from the file system at the call (rdr_fuel suffices: c11_fuel_enough) *)
Definition rdr (dir : path) : M unit := fun s => remove_dir_recursively true (rdr_fuel s) dir s.

(* ---- std calls in the regenerated shared::read_layer ---- *)
(* Result::is_err *)
Definition res_is_err {E A} (r : result E A) : bool := match r with Err _ => true | Ok _ => false end.
(* fs::read_to_string(p)?: the contents (whether they are UTF-8 is not modelled) *)
Definition read_string (p : path) : M bytes := mc <- read_file p ;; ret (content_bytes (snd mc)).
(* toml::from_str(..).map_err(..)?: parsing is pure; a parse error is reported as EINVAL *)
Definition lift_parse {A} (parse : bytes -> option A) (c : bytes) : M A :=
  fun s => (s, match parse c with Some a => Ok a | None => Err EINVAL end).

(* read_toml_file(p)?: the contents, parsed (a parse error is EINVAL) *)
Definition read_doc {A} (parse : bytes -> option A) (p : path) : M A := c <- read_string p ;; lift_parse parse c.
