(* SerdeFacts.v -- generic theorems about the schema interpreter (C08, C07, C06, C18). *)
From LV Require Import Base Toml Serde.

(* ---------- induction on schemas, reaching into fields and alternatives ---------- *)
Section StyInd.
  Variable P : sty -> Prop.
  Hypothesis HString : P TyString.
  Hypothesis HBool : P TyBool.
  Hypothesis HInt : P TyInt.
  Hypothesis HValidated : forall i, P (TyValidated i).
  Hypothesis HVec : forall t, P t -> P (TyVec t).
  Hypothesis HSet : forall t, P t -> P (TySet t).
  Hypothesis HOption : forall t, P t -> P (TyOption t).
  Hypothesis HTable : P TyTable.
  Hypothesis HAny : P TyAny.
  Hypothesis HStruct : forall d fs, Forall (fun f => P (f_ty f)) fs -> P (TyStruct d fs).
  Hypothesis HUnitEnum : forall ns, P (TyUnitEnum ns).
  Hypothesis HUntagged : forall alts, Forall P alts -> P (TyUntagged alts).
  Hypothesis HNever : P TyNever.
  Hypothesis HWorkDir : P TyWorkDir.

  Fixpoint sty_ind' (t : sty) : P t :=
    match t with
    | TyString => HString | TyBool => HBool | TyInt => HInt
    | TyValidated i => HValidated i
    | TyVec t' => HVec t' (sty_ind' t')
    | TySet t' => HSet t' (sty_ind' t')
    | TyOption t' => HOption t' (sty_ind' t')
    | TyTable => HTable | TyAny => HAny
    | TyStruct d fs =>
        HStruct d fs ((fix go (fs : list field) : Forall (fun f => P (f_ty f)) fs :=
                         match fs with
                         | [] => Forall_nil _
                         | f :: fs' => Forall_cons f (sty_ind' (f_ty f)) (go fs')
                         end) fs)
    | TyUnitEnum ns => HUnitEnum ns
    | TyUntagged alts =>
        HUntagged alts ((fix go (l : list sty) : Forall P l :=
                           match l with [] => Forall_nil _ | a :: r => Forall_cons a (sty_ind' a) (go r) end) alts)
    | TyNever => HNever
    | TyWorkDir => HWorkDir
    end.
End StyInd.

(* ---------- named versions of the inline loops ---------- *)
Section Named.
  Variable vf : nat -> bytes -> bool.
  Variable sq : bool.

  Definition field_value (kvs : list (bytes * tv)) (f : field) : option sval :=
    match tget (f_key f) kvs with
    | Some x => decode vf sq (f_ty f) x
    | None => if is_option_ty (f_ty f) then Some (VOpt None) else f_default f
    end.

  Fixpoint decode_fields (kvs : list (bytes * tv)) (fs : list field) : option (list (bytes * sval)) :=
    match fs with
    | [] => Some []
    | f :: fs' =>
        match field_value kvs f, decode_fields kvs fs' with
        | Some a, Some r => Some ((f_key f, a) :: r)
        | _, _ => None
        end
    end.

  Definition keys_declared (fields : list field) (kvs : list (bytes * tv)) : bool :=
    forallb (fun k => existsb (fun f => beq k (f_key f)) fields) (tkeys kvs).

  Lemma decode_struct_unfold deny fields kvs :
    decode vf sq (TyStruct deny fields) (TTbl kvs) =
    if deny && negb (keys_declared fields kvs) then None
    else option_map VRec (decode_fields kvs fields).
  Proof.
    cbn [decode]. unfold keys_declared. destruct (deny && negb _); [reflexivity|]. f_equal.
    induction fields as [|[[[k ft] dflt] sk] fs IH]; [reflexivity|].
    cbn [decode_fields]. unfold field_value at 1. cbn [f_key f_ty f_default fst snd]. rewrite <- IH. reflexivity.
  Qed.
End Named.

Definition encode_field (vals : list (bytes * sval)) (f : field) : option (option (bytes * tv)) :=
  match rec_get (f_key f) vals with
  | None => None
  | Some y =>
      if should_skip (f_skip f) y then Some None
      else match y with
           | VOpt None => Some None
           | _ => match encode (f_ty f) y with Some e => Some (Some (f_key f, e)) | None => None end
           end
  end.

Fixpoint encode_fields (vals : list (bytes * sval)) (fs : list field) : option (list (bytes * tv)) :=
  match fs with
  | [] => Some []
  | f :: fs' =>
      match encode_field vals f, encode_fields vals fs' with
      | Some (Some e), Some r => Some (e :: r)
      | Some None, Some r => Some r
      | _, _ => None
      end
  end.

Lemma encode_struct_unfold deny fields vals :
  encode (TyStruct deny fields) (VRec vals) = option_map TTbl (encode_fields vals fields).
Proof.
  cbn [encode]. f_equal.
  induction fields as [|[[[k ft] dflt] sk] fs IH]; [reflexivity|].
  cbn [encode_fields]. unfold encode_field. cbn [f_key f_ty f_skip fst snd]. rewrite <- IH.
  destruct (rec_get k vals) as [y|]; [|reflexivity].
  destruct (should_skip sk y).
  - destruct ((fix go (fs0 : list field) := _) fs); reflexivity.
  - destruct y as [| | | |[z|]| | | | |]; try (destruct (encode ft _); [destruct ((fix go (fs0 : list field) := _) fs)|]; reflexivity).
    destruct ((fix go (fs0 : list field) := _) fs); reflexivity.
Qed.

(* ---------- C08: strict parsing, for EVERY schema and EVERY document ---------- *)
Section Strict.
  Variable vf : nat -> bytes -> bool.
  Variable sq : bool.

  (* a key the struct does not declare makes parsing fail *)
  Theorem unknown_key_rejected fields kvs k :
    In k (tkeys kvs) -> (forall f, In f fields -> f_key f <> k) ->
    decode vf sq (TyStruct true fields) (TTbl kvs) = None.
  Proof.
    intros I NF. rewrite decode_struct_unfold. cbn [andb].
    assert (K : keys_declared fields kvs = false).
    { unfold keys_declared. apply Bool.not_true_is_false. intros H. rewrite forallb_forall in H.
      specialize (H k I). apply existsb_exists in H as (f & If & E). apply beq_spec in E.
      now apply (NF f If). }
    now rewrite K.
  Qed.

  Lemma decode_fields_all kvs fs vals : decode_fields vf sq kvs fs = Some vals ->
    forall f, In f fs -> exists a, field_value vf sq kvs f = Some a /\ In (f_key f, a) vals.
  Proof.
    revert vals. induction fs as [|g fs IH]; intros vals H f I; [destruct I|].
    cbn [decode_fields] in H. destruct (field_value vf sq kvs g) as [a|] eqn:Fg; [|discriminate].
    destruct (decode_fields vf sq kvs fs) as [r|] eqn:R; [|discriminate]. injection H as <-.
    destruct I as [<-|I]; [exists a; split; [exact Fg|now left]|].
    destruct (IH r eq_refl f I) as (b & Fb & Ib). exists b. split; [exact Fb|now right].
  Qed.

  (* a required key (no default, not an Option) that is absent makes parsing fail *)
  Theorem missing_required_rejected deny fields kvs f :
    In f fields -> f_default f = None -> is_option_ty (f_ty f) = false -> tget (f_key f) kvs = None ->
    decode vf sq (TyStruct deny fields) (TTbl kvs) = None.
  Proof.
    intros I D O G. rewrite decode_struct_unfold. destruct (deny && negb _); [reflexivity|].
    destruct (decode_fields vf sq kvs fields) as [vals|] eqn:DF; [|reflexivity]. exfalso.
    destruct (decode_fields_all _ _ _ DF f I) as (a & Fa & _).
    unfold field_value in Fa. rewrite G, O, D in Fa. discriminate.
  Qed.

  (* a value of the wrong kind makes parsing fail *)
  Theorem wrong_kind_rejected :
    (forall v, (forall s, v <> TStr s) -> decode vf sq TyString v = None) /\
    (forall v, (forall b, v <> TBool b) -> decode vf sq TyBool v = None) /\
    (forall v, (forall z, v <> TInt z) -> decode vf sq TyInt v = None) /\
    (forall i v, (forall s, v <> TStr s) -> decode vf sq (TyValidated i) v = None) /\
    (forall t v, (forall l, v <> TArr l) -> decode vf sq (TyVec t) v = None) /\
    (forall t v, (forall l, v <> TArr l) -> decode vf sq (TySet t) v = None) /\
    (forall v, (forall l, v <> TTbl l) -> decode vf sq TyTable v = None) /\
    (forall d fs v, (forall l, v <> TTbl l) -> (sq = false \/ forall l, v <> TArr l) -> decode vf sq (TyStruct d fs) v = None) /\
    (forall ns v, (forall s, v <> TStr s) -> decode vf sq (TyUnitEnum ns) v = None).
  Proof.
    repeat split; intros; destruct v; cbn [decode]; try reflexivity; try (exfalso; eapply H; reflexivity).
    destruct H0 as [->|H0]; [reflexivity|]. exfalso. eapply H0. reflexivity.
  Qed.

  (* accepted => exactly the values of the document; omitted optional keys take the defaults *)
  Theorem accepted_exact deny fields kvs vals :
    decode vf sq (TyStruct deny fields) (TTbl kvs) = Some (VRec vals) ->
    (deny = true -> forall k, In k (tkeys kvs) -> exists f, In f fields /\ f_key f = k) /\
    forall f, In f fields ->
      match tget (f_key f) kvs with
      | Some x => exists a, decode vf sq (f_ty f) x = Some a /\ In (f_key f, a) vals
      | None => if is_option_ty (f_ty f) then In (f_key f, VOpt None) vals
                else exists d, f_default f = Some d /\ In (f_key f, d) vals
      end.
  Proof.
    rewrite decode_struct_unfold. intros H. split.
    - intros -> k I. cbn [andb] in H. destruct (keys_declared fields kvs) eqn:K; [|discriminate].
      unfold keys_declared in K. rewrite forallb_forall in K. specialize (K k I).
      apply existsb_exists in K as (f & If & E). apply beq_spec in E. eauto.
    - destruct (deny && negb _); [discriminate|].
      destruct (decode_fields vf sq kvs fields) as [vals'|] eqn:DF; [|discriminate]. injection H as <-.
      intros f I. destruct (decode_fields_all _ _ _ DF f I) as (a & Fa & Ia). unfold field_value in Fa.
      destruct (tget (f_key f) kvs) as [x|]; [eauto|].
      destruct (is_option_ty (f_ty f)); [injection Fa as <-; exact Ia|eauto].
  Qed.

  (* decoding never invents a validated string the validator rejects *)
  Theorem validated_checked i v x : decode vf sq (TyValidated i) v = Some x -> exists s, v = TStr s /\ x = VStr s /\ vf i s = true.
  Proof. destruct v; cbn [decode]; try discriminate. destruct (vf i s) eqn:E; [|discriminate]. intros [= <-]. eauto. Qed.

  (* untagged: the first alternative that accepts wins *)
  Lemma untagged_first alts v : forall i0,
    (fix go (alts : list sty) (i : nat) : option sval :=
       match alts with
       | [] => None
       | a :: r => match decode vf sq a v with Some x => Some (VAlt i x) | None => go r (S i) end
       end) alts i0 =
    match alts with
    | [] => None
    | a :: r => match decode vf sq a v with
                | Some x => Some (VAlt i0 x)
                | None => (fix go (alts : list sty) (i : nat) : option sval :=
                             match alts with
                             | [] => None
                             | a :: r => match decode vf sq a v with Some x => Some (VAlt i x) | None => go r (S i) end
                             end) r (S i0)
                end
    end.
  Proof. intros i0. destruct alts; reflexivity. Qed.
End Strict.

(* ---------- C07: what is written reads back ---------- *)
Section Roundtrip.
  Variable vf : nat -> bytes -> bool.
  Variable sq : bool.

  Fixpoint nodup_bytes (l : list bytes) : bool :=
    match l with [] => true | x :: l' => negb (existsb (beq x) l') && nodup_bytes l' end.

  (* WorkingDirectory::App serialises as "." which reads back as Directory("."): the type only
     round-trips as a struct field that is skipped when it is App *)
  Definition wd_field (f : field) : bool :=
    match f_ty f, f_skip f with TyWorkDir, SkIfAppDir => true | _, _ => false end.

  (* schemas for which Serialize followed by Deserialize is the identity on typed values *)
  Fixpoint rt_ok (t : sty) : bool :=
    match t with
    | TyVec t' | TySet t' | TyOption t' => rt_ok t'
    | TyStruct _ fields =>
        nodup_bytes (map f_key fields) &&
        (fix go (fs : list field) : bool :=
           match fs with
           | [] => true
           | f :: fs' => skip_consistent_field f && (rt_ok (f_ty f) || wd_field f) && go fs'
           end) fields
    | TyUnitEnum names => nodup_bytes names
    | TyUntagged _ | TyNever | TyWorkDir => false
    | _ => true
    end.

  Fixpoint has_type (t : sty) (x : sval) {struct t} : bool :=
    match t, x with
    | TyString, VStr _ => true
    | TyBool, VBool _ => true
    | TyInt, VInt _ => true
    | TyValidated i, VStr s => vf i s
    | TyVec t', VList l => forallb (has_type t') l
    | TySet t', VList l => forallb (has_type t') l
    | TyOption t', VOpt None => true
    | TyOption t', VOpt (Some y) => has_type t' y
    | TyTable, VTbl _ => true
    | TyAny, VAny _ => true
    | TyStruct _ fields, VRec vals =>
        (fix go (fs : list field) (vs : list (bytes * sval)) : bool :=
           match fs, vs with
           | [], [] => true
           | f :: fs', (k, y) :: vs' => beq k (f_key f) && has_type (f_ty f) y && go fs' vs'
           | _, _ => false
           end) fields vals
    | TyUnitEnum names, VUnit i => Nat.ltb i (length names)
    | TyWorkDir, VAlt 0 (VStr []) => true
    | TyWorkDir, VAlt 1 (VStr _) => true
    | _, _ => false
    end.

  Fixpoint typed_fields (fs : list field) (vs : list (bytes * sval)) : bool :=
    match fs, vs with
    | [], [] => true
    | f :: fs', (k, y) :: vs' => beq k (f_key f) && has_type (f_ty f) y && typed_fields fs' vs'
    | _, _ => false
    end.

  Lemma has_type_struct d fields vals : has_type (TyStruct d fields) (VRec vals) = typed_fields fields vals.
  Proof.
    cbn [has_type]. revert vals. induction fields as [|f fs IH]; intros [|[k y] vs]; cbn [typed_fields]; try reflexivity;
      now rewrite IH.
  Qed.

  Fixpoint fields_ok (fs : list field) : bool :=
    match fs with
    | [] => true
    | f :: fs' => skip_consistent_field f && (rt_ok (f_ty f) || wd_field f) && fields_ok fs'
    end.

  Lemma rt_ok_struct d fields : rt_ok (TyStruct d fields) = nodup_bytes (map f_key fields) && fields_ok fields.
  Proof. reflexivity. Qed.

  Lemma nodup_bytes_notin x l : nodup_bytes (x :: l) = true -> ~ In x l.
  Proof.
    cbn [nodup_bytes]. intros H I. apply andb_true_iff in H as [H _]. apply negb_true_iff in H.
    assert (existsb (beq x) l = true) by (apply existsb_exists; exists x; split; [exact I|apply beq_refl]).
    congruence.
  Qed.

  Lemma index_of_nth names : nodup_bytes names = true -> forall i j s,
    nth_error names i = Some s -> index_of_bytes s names j = Some (j + i)%nat.
  Proof.
    induction names as [|n names IH]; intros ND i j s H; [destruct i; discriminate|].
    cbn [index_of_bytes]. destruct i as [|i]; cbn [nth_error] in H.
    - injection H as ->. rewrite beq_refl. f_equal. lia.
    - assert (NE : beq s n = false).
      { apply beq_neq. intros ->. apply (nodup_bytes_notin _ _ ND). eapply nth_error_In; eauto. }
      rewrite NE. cbn [nodup_bytes] in ND. apply andb_true_iff in ND as [_ ND].
      rewrite (IH ND i (S j) s H). f_equal. lia.
  Qed.

  (* lookups in what encode_fields produced *)
  Lemma encode_fields_keys vals fs tbl : encode_fields vals fs = Some tbl ->
    forall k, In k (tkeys tbl) -> In k (map f_key fs).
  Proof.
    revert tbl. induction fs as [|f fs IH]; intros tbl H k I; cbn [encode_fields] in H.
    - injection H as <-. destruct I.
    - destruct (encode_field vals f) as [[e|]|] eqn:E; [| |discriminate];
        destruct (encode_fields vals fs) as [r|] eqn:R; try discriminate; injection H as <-.
      + cbn [tkeys map] in I. destruct I as [<-|I]; [|right; eapply IH; eauto].
        left. unfold encode_field in E. destruct (rec_get (f_key f) vals) as [y|]; [|discriminate].
        destruct (should_skip (f_skip f) y); [discriminate|].
        destruct y as [| | | |[z|]| | | | |]; try discriminate;
          destruct (encode (f_ty f) _); try discriminate; injection E as <-; reflexivity.
      + right. eapply IH; eauto.
  Qed.

  Lemma tget_notin k (tbl : list (bytes * tv)) : ~ In k (tkeys tbl) -> tget k tbl = None.
  Proof.
    induction tbl as [|[k' v] tbl IH]; intros N; [reflexivity|]. cbn [tget].
    destruct (beq k k') eqn:E; [apply beq_spec in E; subst; exfalso; apply N; now left|].
    apply IH. intros I. apply N. now right.
  Qed.

  Lemma rec_get_typed fs : forall vals f, nodup_bytes (map f_key fs) = true -> typed_fields fs vals = true ->
    In f fs -> exists y, rec_get (f_key f) vals = Some y /\ has_type (f_ty f) y = true.
  Proof.
    induction fs as [|g fs IH]; intros vals f ND T I; [destruct I|].
    destruct vals as [|[k y] vs]; [discriminate|]. cbn [typed_fields] in T.
    apply andb_true_iff in T as [T T3]. apply andb_true_iff in T as [T1 T2]. apply beq_spec in T1. subst k.
    cbn [rec_get]. destruct I as [<-|I].
    - rewrite beq_refl. eauto.
    - assert (NE : beq (f_key f) (f_key g) = false).
      { apply beq_neq. intros E. apply (nodup_bytes_notin _ _ ND). rewrite <- E. now apply in_map. }
      rewrite NE. cbn [map nodup_bytes] in ND. apply andb_true_iff in ND as [_ ND]. now apply IH.
  Qed.

  Lemma skip_default f y :
    should_skip (f_skip f) y = true -> skip_consistent_field f = true -> has_type (f_ty f) y = true ->
    is_option_ty (f_ty f) = false /\ f_default f = Some y.
  Proof.
    destruct f as [[[k ft] dflt] sk]. unfold skip_consistent_field. cbn [f_skip f_ty f_default fst snd].
    intros SK SC HT. destruct sk; cbn [should_skip] in SK.
    - discriminate.
    - destruct y as [| | |[|? ?]| | | | | |]; try discriminate.
      destruct dflt as [[| | |[|? ?]| | | | | |]|]; try discriminate.
      destruct ft; try discriminate; split; reflexivity.
    - destruct y as [|[|]| | | | | | | |]; try discriminate.
      destruct dflt as [[|[|]| | | | | | | |]|]; try discriminate.
      destruct ft; try discriminate; split; reflexivity.
    - destruct y as [| | | | | | | | |[|?] p]; try discriminate.
      destruct dflt as [[| | | | | | | | |[|?] [[|? ?]| | | | | | | | |]]|]; try discriminate.
      destruct ft; try discriminate. cbn [has_type] in HT.
      destruct p as [[|? ?]| | | | | | | | |]; try discriminate. split; reflexivity.
  Qed.

  (* the main induction: Deserialize (Serialize x) = x *)
  Theorem roundtrip : forall t x v,
    rt_ok t = true -> has_type t x = true -> encode t x = Some v -> decode vf sq t v = Some x.
  Proof.
    induction t as [| | |i|t IH|t IH|t IH| | |d fs IH|ns|alts IH| |] using sty_ind'; intros x v RT HT E.
    - destruct x; try discriminate. injection E as <-. reflexivity.
    - destruct x; try discriminate. injection E as <-. reflexivity.
    - destruct x; try discriminate. injection E as <-. reflexivity.
    - destruct x; try discriminate. injection E as <-. cbn [decode has_type] in *. now rewrite HT.
    - (* Vec *)
      destruct x as [| | |l| | | | | |]; try discriminate. cbn [encode has_type rt_ok] in *.
      destruct (map_opt (encode t) l) as [vs|] eqn:M; [|discriminate]. injection E as <-. cbn [decode].
      assert (G : map_opt (decode vf sq t) vs = Some l).
      { revert vs M HT. induction l as [|y l IHl]; intros vs M HT; cbn [map_opt] in M.
        - now injection M as <-.
        - destruct (encode t y) as [e|] eqn:Ey; [|discriminate].
          destruct (map_opt (encode t) l) as [r|] eqn:Mr; [|discriminate]. injection M as <-.
          cbn [forallb] in HT. apply andb_true_iff in HT as [H1 H2]. cbn [map_opt].
          rewrite (IH y e RT H1 Ey), (IHl r eq_refl H2). reflexivity. }
      now rewrite G.
    - (* Set *)
      destruct x as [| | |l| | | | | |]; try discriminate. cbn [encode has_type rt_ok] in *.
      destruct (map_opt (encode t) l) as [vs|] eqn:M; [|discriminate]. injection E as <-. cbn [decode].
      assert (G : map_opt (decode vf sq t) vs = Some l).
      { revert vs M HT. induction l as [|y l IHl]; intros vs M HT; cbn [map_opt] in M.
        - now injection M as <-.
        - destruct (encode t y) as [e|] eqn:Ey; [|discriminate].
          destruct (map_opt (encode t) l) as [r|] eqn:Mr; [|discriminate]. injection M as <-.
          cbn [forallb] in HT. apply andb_true_iff in HT as [H1 H2]. cbn [map_opt].
          rewrite (IH y e RT H1 Ey), (IHl r eq_refl H2). reflexivity. }
      now rewrite G.
    - (* Option *)
      destruct x as [| | | |[y|]| | | | |]; try discriminate. cbn [encode has_type rt_ok decode] in *.
      now rewrite (IH y v RT HT E).
    - destruct x; try discriminate. injection E as <-. reflexivity.
    - destruct x; try discriminate. injection E as <-. reflexivity.
    - (* Struct *)
      destruct x as [| | | | | | |vals| |]; try discriminate.
      rewrite encode_struct_unfold in E. destruct (encode_fields vals fs) as [tbl|] eqn:EF; [|discriminate].
      injection E as <-. rewrite rt_ok_struct in RT. apply andb_true_iff in RT as [ND FO].
      rewrite has_type_struct in HT. rewrite decode_struct_unfold.
      assert (KD : keys_declared fs tbl = true).
      { unfold keys_declared. apply forallb_forall. intros k Ik.
        pose proof (encode_fields_keys _ _ _ EF k Ik) as Im. apply in_map_iff in Im as (f & <- & If).
        apply existsb_exists. exists f. split; [exact If|apply beq_refl]. }
      rewrite KD. rewrite andb_false_r.
      (* every field decodes back to its value, by induction over a suffix of the fields *)
      assert (G : forall pre suf sv, fs = pre ++ suf ->
                   typed_fields suf sv = true ->
                   (forall f, In f suf -> rec_get (f_key f) vals = rec_get (f_key f) sv) ->
                   decode_fields vf sq tbl suf = Some sv).
      { intros pre suf. revert pre. induction suf as [|f suf IHs]; intros pre sv Efs T RG.
        - destruct sv; [reflexivity|discriminate].
        - destruct sv as [|[k y] sv]; [discriminate|]. cbn [typed_fields] in T.
          apply andb_true_iff in T as [T T3]. apply andb_true_iff in T as [T1 T2]. apply beq_spec in T1. subst k.
          cbn [decode_fields].
          assert (Inf : In f fs) by (rewrite Efs, in_app_iff; right; now left).
          assert (NDs : nodup_bytes (map f_key (f :: suf)) = true).
          { clear -ND Efs. subst fs. rewrite map_app in ND. induction (map f_key pre) as [|a l IHl]; [exact ND|].
            cbn [app nodup_bytes] in ND. apply andb_true_iff in ND as [_ ND]. now apply IHl. }
          (* the tail *)
          assert (Tl : decode_fields vf sq tbl suf = Some sv).
          { apply (IHs (pre ++ [f])); [now rewrite <- app_assoc|exact T3|].
            intros g Ig. rewrite (RG g (or_intror Ig)). cbn [rec_get].
            assert (NE : beq (f_key g) (f_key f) = false).
            { apply beq_neq. intros Eq. apply (nodup_bytes_notin _ _ NDs). rewrite <- Eq. now apply in_map. }
            now rewrite NE. }
          rewrite Tl.
          (* the head *)
          assert (Hv : field_value vf sq tbl f = Some y).
          { pose proof (RG f (or_introl eq_refl)) as Rf. cbn [rec_get] in Rf. rewrite beq_refl in Rf.
            (* locate f's entry in tbl *)
            assert (FOf : skip_consistent_field f = true /\ (rt_ok (f_ty f) || wd_field f) = true).
            { clear -FO Inf. induction fs as [|g fs IH]; [destruct Inf|]. cbn [fields_ok] in FO.
              apply andb_true_iff in FO as [FO FO3]. apply andb_true_iff in FO as [FO1 FO2].
              destruct Inf as [->|I]; [now split|now apply IH]. }
            destruct FOf as [SC RTf].
            assert (IHf : forall x v, should_skip (f_skip f) x = false -> has_type (f_ty f) x = true ->
                                      encode (f_ty f) x = Some v -> decode vf sq (f_ty f) v = Some x).
            { intros x0 v0 SK0 HT0 E0. apply orb_true_iff in RTf as [RTf|WD].
              - rewrite Forall_forall in IH. exact (IH f Inf x0 v0 RTf HT0 E0).
              - unfold wd_field in WD. destruct (f_ty f); try discriminate. destruct (f_skip f); try discriminate.
                destruct x0 as [| | | | | | | | |[|[|?]] [s0| | | | | | | | |]]; try discriminate.
                cbn [encode] in E0. injection E0 as <-. reflexivity. }
            (* tget (f_key f) tbl is decided by f's own entry: keys are distinct *)
            assert (TG : tget (f_key f) tbl =
                         match encode_field vals f with Some (Some e) => Some (snd e) | _ => None end).
            { clear -EF ND Inf. revert tbl EF. induction fs as [|g fs IHg]; intros tbl EF; [destruct Inf|].
              cbn [encode_fields] in EF.
              destruct (encode_field vals g) as [[e|]|] eqn:Eg; [| |discriminate];
                destruct (encode_fields vals fs) as [r|] eqn:R; try discriminate; injection EF as <-.
              - destruct Inf as [->|I].
                + rewrite Eg. assert (fst e = f_key f).
                  { unfold encode_field in Eg. destruct (rec_get (f_key f) vals) as [y0|]; [|discriminate].
                    destruct (should_skip (f_skip f) y0); [discriminate|].
                    destruct y0 as [| | | |[z|]| | | | |]; try discriminate;
                      destruct (encode (f_ty f) _); try discriminate; injection Eg as <-; reflexivity. }
                  destruct e as [ke ve]. cbn [fst snd] in *. subst ke. cbn [tget]. now rewrite beq_refl.
                + assert (NE : beq (f_key f) (fst e) = false).
                  { apply beq_neq. intros Eq. apply (nodup_bytes_notin _ _ ND).
                    assert (fst e = f_key g).
                    { unfold encode_field in Eg. destruct (rec_get (f_key g) vals) as [y0|]; [|discriminate].
                      destruct (should_skip (f_skip g) y0); [discriminate|].
                      destruct y0 as [| | | |[z|]| | | | |]; try discriminate;
                        destruct (encode (f_ty g) _); try discriminate; injection Eg as <-; reflexivity. }
                    cbn [map]. rewrite <- H, <- Eq. now apply in_map. }
                  destruct e as [ke ve]. cbn [tget fst] in *. rewrite NE.
                  cbn [map nodup_bytes] in ND. apply andb_true_iff in ND as [_ ND]. now apply IHg.
              - destruct Inf as [->|I].
                + rewrite Eg. apply tget_notin. intros Ik.
                  pose proof (encode_fields_keys _ _ _ R _ Ik). now apply (nodup_bytes_notin _ _ ND).
                + cbn [map nodup_bytes] in ND. apply andb_true_iff in ND as [_ ND]. now apply IHg. }
            unfold field_value. rewrite TG. unfold encode_field. rewrite Rf.
            destruct (should_skip (f_skip f) y) eqn:SK.
            - (* skipped: the default restores it *)
              destruct (skip_default f y SK SC T2) as [NO DF]. now rewrite NO, DF.
            - destruct y as [| | | |[z|]| | | | |];
                try (destruct (encode (f_ty f) _) as [e|] eqn:Ee; [|exfalso];
                     [cbn [snd]; now apply IHf|
                      (* encode_fields succeeded, so this field's encode cannot have failed *)
                      clear -EF Inf Rf SK Ee; revert tbl EF; induction fs as [|g fs IHg]; intros tbl EF; [destruct Inf|];
                      cbn [encode_fields] in EF; destruct Inf as [->|I];
                      [unfold encode_field in EF; rewrite Rf, SK, Ee in EF; discriminate|
                       destruct (encode_field vals g) as [[?|]|]; try discriminate;
                       destruct (encode_fields vals fs) eqn:R; try discriminate; eapply IHg; eauto]]).
              (* VOpt None: omitted, and the type must be an Option *)
              destruct (f_ty f); try discriminate. reflexivity. }
          now rewrite Hv. }
      rewrite (G [] fs vals eq_refl HT (fun f _ => eq_refl)). reflexivity.
    - (* unit enum *)
      destruct x; try discriminate. cbn [encode has_type rt_ok decode] in *.
      destruct (nth_error ns i) as [s|] eqn:N; [|discriminate]. injection E as <-.
      now rewrite (index_of_nth ns RT i 0 s N).
    - discriminate.
    - discriminate.
    - discriminate.
  Qed.
End Roundtrip.
