(* ArgvFacts.v -- the option parser reads back exactly what the builders of Argv.v put in. *)
From LV Require Import Base SpecDocs Argv.
From Coq Require Import String.
Open Scope N_scope.
Open Scope list_scope.

Definition add_flags (fl : list (bytes * option bytes)) (o : option parsed) : option parsed :=
  match o with Some p => Some (mkParsed (fl ++ p_flags p) (p_pos p)) | None => None end.

Lemma add_flags_app a c o : add_flags a (add_flags c o) = add_flags (a ++ c) o.
Proof. destruct o as [p|]; cbn; [rewrite app_assoc|]; reflexivity. Qed.

Lemma add_flags_nil o : add_flags [] o = o.
Proof. destruct o as [[f p]|]; reflexivity. Qed.

Definition good_flag (t : flag_table) (f : bytes) (k : flag_kind) : Prop :=
  is_dashdash f = false /\ starts_dashdash f = true /\ split_eq f = (f, None) /\ flag_lookup t f = Some k.

Lemma parse_val t i f v rest :
  good_flag t f FVal -> parse_opts t i (f :: v :: rest) = add_flags [(f, Some v)] (parse_opts t i rest).
Proof.
  intros (H1 & H2 & H3 & H4). cbn [parse_opts]. rewrite H1, H2, H3, H4.
  destruct (parse_opts t i rest); reflexivity.
Qed.

Lemma parse_bool t i f rest :
  good_flag t f FBool -> parse_opts t i (f :: rest) = add_flags [(f, None)] (parse_opts t i rest).
Proof.
  intros (H1 & H2 & H3 & H4). cbn [parse_opts]. rewrite H1, H2, H3, H4.
  destruct (parse_opts t i rest); reflexivity.
Qed.

Lemma parse_vals {A} t i f (g : A -> bytes) l rest :
  good_flag t f FVal ->
  parse_opts t i (flat_map (fun x => [f; g x]) l ++ rest) =
  add_flags (map (fun x => (f, Some (g x))) l) (parse_opts t i rest).
Proof.
  intros G. induction l as [|x l IH]; cbn [flat_map map List.app].
  - symmetry; apply add_flags_nil.
  - rewrite (parse_val t i f (g x) _ G), IH, add_flags_app. reflexivity.
Qed.

Lemma parse_opt_flag t i f o rest :
  good_flag t f FVal ->
  parse_opts t i (opt_flag f o ++ rest) =
  add_flags (match o with Some v => [(f, Some v)] | None => [] end) (parse_opts t i rest).
Proof.
  intros G. destruct o as [v|]; cbn [opt_flag List.app].
  - apply parse_val, G.
  - symmetry; apply add_flags_nil.
Qed.

Lemma parse_if_bool t i f (c : bool) rest :
  good_flag t f FBool ->
  parse_opts t i ((if c then [f] else []) ++ rest) =
  add_flags (if c then [(f, None)] else []) (parse_opts t i rest).
Proof.
  intros G. destruct c; cbn [List.app].
  - apply parse_bool, G.
  - symmetry; apply add_flags_nil.
Qed.

Lemma starts_dash_no_dd a : starts_dash a = false -> is_dashdash a = false /\ starts_dashdash a = false.
Proof.
  unfold is_dashdash. destruct a as [|c [|d r]]; cbn [starts_dash starts_dashdash beq]; auto.
  - intros _. split; [|reflexivity]. destruct (c =? 45); reflexivity.
  - intros ->. split; [reflexivity|]. destruct r; reflexivity.
Qed.

Ltac good := repeat split; vm_compute; reflexivity.

Lemma parse_image_stop t a rest :
  starts_dash a = false -> parse_opts t false (a :: rest) = Some (mkParsed [] (a :: rest)).
Proof.
  intros H. destruct (starts_dash_no_dd a H) as [H1 H2]. cbn [parse_opts]. rewrite H1, H2, H. reflexivity.
Qed.

Theorem docker_run_roundtrip c :
  starts_dash (r_image c) = false ->
  parse_opts docker_run_table false (tl (argv_docker_run c)) = Some (view_docker_run c).
Proof.
  intros Hi. unfold argv_docker_run, view_docker_run. cbn [tl List.app].
  rewrite (parse_val docker_run_table false f_name) by good.
  rewrite (parse_if_bool docker_run_table false f_detach) by good.
  rewrite (parse_if_bool docker_run_table false f_rm) by good.
  rewrite (parse_opt_flag docker_run_table false f_platform) by good.
  rewrite (parse_opt_flag docker_run_table false f_entrypoint) by good.
  rewrite (parse_vals docker_run_table false f_env env_arg) by good.
  rewrite (parse_vals docker_run_table false f_publish publish_arg) by good.
  rewrite (parse_vals docker_run_table false f_mount mount_arg) by good.
  cbn [List.app]. rewrite (parse_image_stop _ _ _ Hi).
  cbn [add_flags p_flags p_pos]. rewrite ?app_nil_r, <- ?app_assoc. reflexivity.
Qed.

Lemma parse_positional_inter t a rest :
  starts_dash a = false ->
  parse_opts t true (a :: rest) =
  match parse_opts t true rest with Some p => Some (mkParsed (p_flags p) (a :: p_pos p)) | None => None end.
Proof.
  intros H. destruct (starts_dash_no_dd a H) as [H1 H2]. cbn [parse_opts]. rewrite H1, H2, H. reflexivity.
Qed.

Theorem pack_build_roundtrip c :
  starts_dash (k_image c) = false ->
  parse_opts pack_build_table true (tl (argv_pack_build c)) = Some (view_pack_build c).
Proof.
  intros Hi. unfold argv_pack_build, view_pack_build. cbn [tl List.app].
  rewrite (parse_positional_inter _ _ _ Hi).
  rewrite (parse_val pack_build_table true g_builder) by good.
  rewrite (parse_val pack_build_table true g_cache) by good.
  rewrite (parse_val pack_build_table true g_cache) by good.
  rewrite (parse_val pack_build_table true g_path) by good.
  rewrite (parse_val pack_build_table true g_pull) by good.
  rewrite (parse_vals pack_build_table true g_buildpack (fun r => r)) by good.
  rewrite (parse_vals pack_build_table true g_env env_arg) by good.
  rewrite (parse_if_bool pack_build_table true g_trust) by good.
  replace (if k_trust_extra c then [g_trust_extra] else []) with ((if k_trust_extra c then [g_trust_extra] else []) ++ [])
    by apply app_nil_r.
  rewrite (parse_if_bool pack_build_table true g_trust_extra) by good.
  cbn [parse_opts add_flags p_flags p_pos List.app]. rewrite ?app_nil_r, <- ?app_assoc. reflexivity.
Qed.

(* KEY=VALUE is split back into KEY and VALUE when KEY has no '=' *)
Lemma split_eq_app k v : ~ In 61 k -> split_eq (k ++ 61 :: v) = (k, Some v).
Proof.
  induction k as [|c k IH]; intros Hk; cbn [List.app split_eq].
  - reflexivity.
  - destruct (N.eqb_spec c 61) as [->|_]; [exfalso; apply Hk; left; reflexivity|].
    rewrite IH; [reflexivity|]. intros H; apply Hk; right; exact H.
Qed.

Theorem env_arg_roundtrip k v : ~ In 61 k -> env_view (env_arg (k, v)) = (k, Some v).
Proof. intros H. unfold env_view, env_arg. cbn [fst snd List.app]. apply split_eq_app, H. Qed.

(* and it is NOT when the key contains '=': the pair (KEY, VALUE) is then not what docker sees *)
Theorem env_arg_eq_in_key_refuted : exists k v, env_view (env_arg (k, v)) <> (k, Some v).
Proof. exists [65; 61; 66], [67]. vm_compute. discriminate. Qed.

(* injectivity: different configurations give different command lines, field by field *)
Theorem docker_run_injective c1 c2 :
  starts_dash (r_image c1) = false -> starts_dash (r_image c2) = false ->
  argv_docker_run c1 = argv_docker_run c2 -> view_docker_run c1 = view_docker_run c2.
Proof.
  intros H1 H2 E. apply (f_equal (@tl bytes)) in E.
  pose proof (docker_run_roundtrip c1 H1) as R1. pose proof (docker_run_roundtrip c2 H2) as R2.
  rewrite E in R1. congruence.
Qed.

(* ---------- the value views ---------- *)
Fixpoint all_below (k : nat) (x : N) (p : N -> bool) : bool :=
  match k with O => true | S k' => p x && all_below k' (x + 1) p end.

Lemma all_below_spec k : forall x p, all_below k x p = true -> forall y, x <= y -> y < x + N.of_nat k -> p y = true.
Proof.
  induction k as [|k IH]; intros x p H y H1 H2.
  - lia.
  - cbn [all_below] in H. apply andb_prop in H. destruct H as [Hx Hr].
    destruct (N.eq_dec x y) as [->|Hne]; [exact Hx|]. apply (IH (x+1) p Hr); lia.
Qed.

(* the domain is finite (u16): a sweep of all 65536 ports, lifted by all_below_spec *)
Lemma publish_roundtrip_all :
  all_below (N.to_nat 65536) 0 (fun n => oN_eqb (publish_view (publish_arg n)) (Some n)) = true.
Proof. vm_compute. reflexivity. Qed.

Theorem publish_roundtrip p : p < 65536 -> publish_view (publish_arg p) = Some p.
Proof.
  intros Hp. pose proof (all_below_spec _ _ _ publish_roundtrip_all p) as H.
  rewrite N2Nat.id in H. specialize (H (N.le_0_l p) Hp).
  destruct (publish_view (publish_arg p)) as [q|]; cbn in H; [|discriminate].
  apply N.eqb_eq in H. congruence.
Qed.

Lemma split_on_nosep sep a : ~ In sep a -> split_on sep a = [a].
Proof.
  induction a as [|c a IH]; intros H; cbn [split_on]; [reflexivity|].
  destruct (N.eqb_spec c sep) as [->|_]; [exfalso; apply H; left; reflexivity|].
  rewrite IH; [reflexivity|]. intros Hin; apply H; right; exact Hin.
Qed.

Lemma split_on_app sep a r : ~ In sep a -> split_on sep (a ++ sep :: r) = a :: split_on sep r.
Proof.
  induction a as [|c a IH]; intros H; cbn [split_on List.app].
  - rewrite N.eqb_refl. reflexivity.
  - destruct (N.eqb_spec c sep) as [->|_]; [exfalso; apply H; left; reflexivity|].
    rewrite IH; [reflexivity|]. intros Hin; apply H; right; exact Hin.
Qed.

Lemma existsb_eqb_false x l : existsb (N.eqb x) l = false -> ~ In x l.
Proof.
  intros H Hin. assert (existsb (N.eqb x) l = true) by (apply existsb_exists; exists x; split; [exact Hin|apply N.eqb_refl]).
  congruence.
Qed.

Theorem mount_roundtrip s t :
  valid_path s = true -> valid_path t = true -> mount_view (mount_arg (s, t)) = mount_expected (s, t).
Proof.
  unfold valid_path. intros Hs Ht. apply Bool.negb_true_iff in Hs, Ht.
  apply existsb_eqb_false in Hs, Ht.
  unfold mount_view, mount_arg, mount_expected. cbn [fst snd].
  change (b "type=bind,source=" ++ s ++ b ",target=" ++ t)
    with (b "type=bind" ++ 44 :: (b "source=" ++ s) ++ 44 :: (b "target=" ++ t)).
  rewrite split_on_app by (vm_compute; intuition discriminate).
  rewrite split_on_app.
  - rewrite split_on_nosep.
    + assert (E1 : split_eq (b "type=bind") = (b "type", Some (b "bind"))) by (vm_compute; reflexivity).
      assert (E2 : split_eq (b "source=" ++ s) = (b "source", Some s)).
      { change (b "source=" ++ s) with (b "source" ++ 61 :: s). rewrite split_eq_app; [reflexivity|].
        vm_compute; intuition discriminate. }
      assert (E3 : split_eq (b "target=" ++ t) = (b "target", Some t)).
      { change (b "target=" ++ t) with (b "target" ++ 61 :: t). rewrite split_eq_app; [reflexivity|].
        vm_compute; intuition discriminate. }
      cbn [map]. rewrite E1, E2, E3. reflexivity.
    + intros H. apply in_app_or in H. destruct H as [H|H]; [vm_compute in H; intuition discriminate|contradiction].
  - intros H. apply in_app_or in H. destruct H as [H|H]; [vm_compute in H; intuition discriminate|contradiction].
Qed.

(* without the guard the reading differs: a comma in a path makes docker see other fields *)
Theorem mount_comma_refuted : exists s t, mount_view (mount_arg (s, t)) <> mount_expected (s, t).
Proof. exists [47; 97; 44; 98], [47; 99]. vm_compute. discriminate. Qed.

(* ---------- the model's command lines pass the judgement ---------- *)
Lemma vals_app f x y : vals f (x ++ y) = vals f x ++ vals f y.
Proof. unfold vals. rewrite filter_app, map_app. reflexivity. Qed.

Lemma vals_map_same {A} f (g : A -> option bytes) l : vals f (map (fun x => (f, g x)) l) = map g l.
Proof.
  unfold vals. induction l as [|x l IH]; cbn; [reflexivity|]. rewrite beq_refl. cbn. f_equal. exact IH.
Qed.

Lemma vals_map_other {A} f f' (g : A -> option bytes) l : beq f' f = false -> vals f (map (fun x => (f', g x)) l) = [].
Proof. intros H. unfold vals. induction l as [|x l IH]; cbn; [reflexivity|]. rewrite H. exact IH. Qed.

Lemma list_eqb_refl {A} (eq : A -> A -> bool) l : (forall x, eq x x = true) -> list_eqb eq l l = true.
Proof. intros H. induction l as [|x l IH]; cbn; [reflexivity|]. rewrite H, IH. reflexivity. Qed.

Lemma obytes_eqb_refl x : obytes_eqb x x = true.
Proof. destruct x; cbn; [apply beq_refl|reflexivity]. Qed.

Lemma kv_eqb_refl x : kv_eqb x x = true.
Proof. unfold kv_eqb. rewrite beq_refl, obytes_eqb_refl. reflexivity. Qed.

Lemma oN_eqb_refl x : oN_eqb x x = true.
Proof. destruct x; cbn; [apply N.eqb_refl|reflexivity]. Qed.

Lemma same_set_refl {A} (eq : A -> A -> bool) l : (forall x, eq x x = true) -> same_set eq l l = true.
Proof.
  intros H. unfold same_set. rewrite Nat.eqb_refl. cbn. apply forallb_forall. intros x Hx.
  apply existsb_exists. exists x. split; [exact Hx|apply H].
Qed.

Lemma env_views l :
  forallb (fun kv : bytes * bytes => valid_key (fst kv)) l = true ->
  map (fun o => env_view (oval o)) (map (fun kv => Some (env_arg kv)) l) = map (fun kv => (fst kv, Some (snd kv))) l.
Proof.
  intros H. rewrite map_map. apply map_ext_in. intros [k v] Hin. cbn [oval fst snd].
  rewrite forallb_forall in H. specialize (H _ Hin). cbn in H. unfold valid_key in H.
  apply Bool.negb_true_iff in H. apply existsb_eqb_false in H. apply env_arg_roundtrip. exact H.
Qed.

Lemma publish_views l :
  forallb (fun p => p <? 65536) l = true ->
  map (fun o => publish_view (oval o)) (map (fun p => Some (publish_arg p)) l) = map Some l.
Proof.
  intros H. rewrite map_map. apply map_ext_in. intros p Hin. cbn [oval].
  rewrite forallb_forall in H. specialize (H _ Hin). apply N.ltb_lt in H. apply publish_roundtrip. exact H.
Qed.

Lemma mount_views l :
  forallb (fun m : bytes * bytes => valid_path (fst m) && valid_path (snd m)) l = true ->
  map (fun o => mount_view (oval o)) (map (fun m => Some (mount_arg m)) l) = map mount_expected l.
Proof.
  intros H. rewrite map_map. apply map_ext_in. intros [s t] Hin. cbn [oval].
  rewrite forallb_forall in H. specialize (H _ Hin). cbn in H. apply andb_prop in H. destruct H.
  apply mount_roundtrip; assumption.
Qed.

Ltac vals_simpl :=
  repeat (rewrite vals_app);
  repeat first
    [ rewrite (vals_map_same _ (fun kv => Some (env_arg kv)))
    | rewrite (vals_map_same _ (fun p => Some (publish_arg p)))
    | rewrite (vals_map_same _ (fun m => Some (mount_arg m)))
    | rewrite (vals_map_same _ (fun r : bytes => Some r))
    | rewrite vals_map_other by (vm_compute; reflexivity) ].

Theorem check_run_model name img platform c :
  valid_ccfg c = true -> starts_dash img = false ->
  check_run c img (argv_docker_run (mk_run name img platform c)) = true.
Proof.
  intros Hv Hi. unfold valid_ccfg in Hv.
  apply andb_prop in Hv. destruct Hv as [Hv HM2]. apply andb_prop in Hv. destruct Hv as [Hv HM1].
  apply andb_prop in Hv. destruct Hv as [Hv HP2]. apply andb_prop in Hv. destruct Hv as [Hv HP1].
  apply andb_prop in Hv. destruct Hv as [HE1 HE2].
  unfold check_run.
  pose proof (docker_run_roundtrip (mk_run name img platform c) Hi) as R.
  unfold argv_docker_run in *. cbn [tl List.app] in R. cbn [List.app]. rewrite beq_refl. cbn [andb].
  rewrite R. unfold view_docker_run, mk_run. cbn [p_pos p_flags r_name r_detach r_remove r_platform r_entrypoint r_env r_ports r_mounts r_image r_command].
  rewrite (list_eqb_refl beq) by apply beq_refl. cbn [andb].
  change (map (fun kv : bytes * bytes => (f_env, Some (env_arg kv))) (c_env c))
    with (map (fun kv : bytes * bytes => (f_env, (fun kv => Some (env_arg kv)) kv)) (c_env c)).
  change (map (fun p : N => (f_publish, Some (publish_arg p))) (c_ports c))
    with (map (fun p : N => (f_publish, (fun p => Some (publish_arg p)) p)) (c_ports c)).
  change (map (fun m : bytes * bytes => (f_mount, Some (mount_arg m))) (c_mounts c))
    with (map (fun m : bytes * bytes => (f_mount, (fun m => Some (mount_arg m)) m)) (c_mounts c)).
  assert (Hvals : forall f,
     vals f ([(f_name, Some name)] ++ [(f_detach, None)] ++ [] ++ [(f_platform, Some platform)] ++
             match c_entrypoint c with Some v => [(f_entrypoint, Some v)] | None => [] end ++
             map (fun kv => (f_env, (fun kv => Some (env_arg kv)) kv)) (c_env c) ++
             map (fun p => (f_publish, (fun p => Some (publish_arg p)) p)) (c_ports c) ++
             map (fun m => (f_mount, (fun m => Some (mount_arg m)) m)) (c_mounts c)) =
     vals f [(f_name, Some name)] ++ vals f [(f_detach, None)] ++ vals f [(f_platform, Some platform)] ++
     vals f (match c_entrypoint c with Some v => [(f_entrypoint, Some v)] | None => [] end) ++
     vals f (map (fun kv => (f_env, (fun kv => Some (env_arg kv)) kv)) (c_env c)) ++
     vals f (map (fun p => (f_publish, (fun p => Some (publish_arg p)) p)) (c_ports c)) ++
     vals f (map (fun m => (f_mount, (fun m => Some (mount_arg m)) m)) (c_mounts c))).
  { intros f. rewrite !vals_app. reflexivity. }
  rewrite !Hvals. clear Hvals.
  rewrite !vals_map_same.
  rewrite !(vals_map_other _ f_env) by (vm_compute; reflexivity).
  rewrite !(vals_map_other _ f_publish) by (vm_compute; reflexivity).
  rewrite !(vals_map_other _ f_mount) by (vm_compute; reflexivity).
  assert (He : forall f, beq f_entrypoint f = false ->
                 vals f (match c_entrypoint c with Some v => [(f_entrypoint, Some v)] | None => [] end) = []).
  { intros f Hf. destruct (c_entrypoint c); [unfold vals; cbn [filter fst map]; rewrite Hf; reflexivity|reflexivity]. }
  rewrite ?(He f_name), ?(He f_detach), ?(He f_rm), ?(He f_env), ?(He f_publish), ?(He f_mount) by (vm_compute; reflexivity).
  assert (He' : vals f_entrypoint (match c_entrypoint c with Some v => [(f_entrypoint, Some v)] | None => [] end) =
                match c_entrypoint c with Some e => [Some e] | None => [] end).
  { destruct (c_entrypoint c); reflexivity. }
  rewrite He'.
  change (vals f_name [(f_name, Some name)]) with [Some name].
  change (vals f_name [(f_detach, None)]) with (@nil (option bytes)).
  change (vals f_name [(f_platform, Some platform)]) with (@nil (option bytes)).
  change (vals f_detach [(f_name, Some name)]) with (@nil (option bytes)).
  change (vals f_detach [(f_detach, None)]) with [@None bytes].
  change (vals f_detach [(f_platform, Some platform)]) with (@nil (option bytes)).
  change (vals f_rm [(f_name, Some name)]) with (@nil (option bytes)).
  change (vals f_rm [(f_detach, None)]) with (@nil (option bytes)).
  change (vals f_rm [(f_platform, Some platform)]) with (@nil (option bytes)).
  change (vals f_entrypoint [(f_name, Some name)]) with (@nil (option bytes)).
  change (vals f_entrypoint [(f_detach, None)]) with (@nil (option bytes)).
  change (vals f_entrypoint [(f_platform, Some platform)]) with (@nil (option bytes)).
  change (vals f_env [(f_name, Some name)]) with (@nil (option bytes)).
  change (vals f_env [(f_detach, None)]) with (@nil (option bytes)).
  change (vals f_env [(f_platform, Some platform)]) with (@nil (option bytes)).
  change (vals f_publish [(f_name, Some name)]) with (@nil (option bytes)).
  change (vals f_publish [(f_detach, None)]) with (@nil (option bytes)).
  change (vals f_publish [(f_platform, Some platform)]) with (@nil (option bytes)).
  change (vals f_mount [(f_name, Some name)]) with (@nil (option bytes)).
  change (vals f_mount [(f_detach, None)]) with (@nil (option bytes)).
  change (vals f_mount [(f_platform, Some platform)]) with (@nil (option bytes)).
  cbn [List.app List.length Nat.eqb andb]. rewrite ?app_nil_r.
  rewrite (list_eqb_refl obytes_eqb) by apply obytes_eqb_refl. cbn [andb].
  rewrite (env_views _ HE1), (publish_views _ HP1), (mount_views _ HM1).
  rewrite (same_set_refl kv_eqb) by apply kv_eqb_refl.
  rewrite (same_set_refl oN_eqb) by apply oN_eqb_refl.
  rewrite (same_set_refl (list_eqb kv_eqb)) by (intros x; apply list_eqb_refl, kv_eqb_refl).
  reflexivity.
Qed.

Theorem check_pack_model img c :
  valid_bcfgv c = true -> starts_dash img = false ->
  check_pack c (argv_pack_build (mk_pack img c)) = Some img.
Proof.
  intros Hv Hi. unfold valid_bcfgv in Hv. apply andb_prop in Hv. destruct Hv as [HE1 HE2].
  unfold check_pack.
  pose proof (pack_build_roundtrip (mk_pack img c) Hi) as R.
  unfold argv_pack_build in *. cbn [tl List.app] in R. cbn [List.app]. rewrite beq_refl.
  rewrite R. unfold view_pack_build, mk_pack.
  cbn [p_pos p_flags k_image k_builder k_build_cache k_launch_cache k_path k_pull_policy k_buildpacks k_env k_trust_builder k_trust_extra].
  change (map (fun r : bytes => (g_buildpack, Some r)) (v_buildpacks c))
    with (map (fun r : bytes => (g_buildpack, (fun r => Some r) r)) (v_buildpacks c)).
  change (map (fun kv : bytes * bytes => (g_env, Some (env_arg kv))) (v_env c))
    with (map (fun kv : bytes * bytes => (g_env, (fun kv => Some (env_arg kv)) kv)) (v_env c)).
  rewrite !vals_app, !vals_map_same.
  rewrite !(vals_map_other _ g_buildpack) by (vm_compute; reflexivity).
  rewrite !(vals_map_other _ g_env) by (vm_compute; reflexivity).
  set (c1 := b "type=build;format=volume;name=" ++ img ++ b ".build-cache").
  set (c2 := b "type=launch;format=volume;name=" ++ img ++ b ".launch-cache").
  set (fixed := [(g_builder, Some (v_builder c)); (g_cache, Some c1); (g_cache, Some c2);
                 (g_path, Some (v_path c)); (g_pull, Some (b "if-not-present"))]).
  change (vals g_builder fixed) with [Some (v_builder c)].
  change (vals g_path fixed) with [Some (v_path c)].
  change (vals g_buildpack fixed) with (@nil (option bytes)).
  change (vals g_env fixed) with (@nil (option bytes)).
  change (vals g_builder ([(g_trust, None)] ++ [(g_trust_extra, None)])) with (@nil (option bytes)).
  change (vals g_path ([(g_trust, None)] ++ [(g_trust_extra, None)])) with (@nil (option bytes)).
  change (vals g_buildpack ([(g_trust, None)] ++ [(g_trust_extra, None)])) with (@nil (option bytes)).
  change (vals g_env ([(g_trust, None)] ++ [(g_trust_extra, None)])) with (@nil (option bytes)).
  cbn [List.app]. rewrite ?app_nil_r.
  rewrite !(list_eqb_refl obytes_eqb) by apply obytes_eqb_refl. cbn [andb].
  rewrite (env_views _ HE1). rewrite (same_set_refl kv_eqb) by apply kv_eqb_refl.
  reflexivity.
Qed.

(* what a passed judgement means for the environment: every configured pair occurs among the
   pairs docker / pack see, and there are exactly as many *)
Lemma beq_true_eq a c : beq a c = true -> a = c.
Proof. apply beq_spec. Qed.

Lemma kv_eqb_eq x y : kv_eqb x y = true -> x = y.
Proof.
  destruct x as [k v], y as [k' v']. unfold kv_eqb. cbn. intros H. apply andb_prop in H. destruct H as [H1 H2].
  apply beq_true_eq in H1. subst. destruct v, v'; cbn in H2; try discriminate; [apply beq_true_eq in H2; subst|]; reflexivity.
Qed.

Theorem same_set_sound {A} (eq : A -> A -> bool) cfg obs :
  (forall x y, eq x y = true -> x = y) -> same_set eq cfg obs = true ->
  List.length cfg = List.length obs /\ forall x, In x cfg -> In x obs.
Proof.
  intros Heq H. unfold same_set in H. apply andb_prop in H. destruct H as [H1 H2].
  apply Nat.eqb_eq in H1. split; [exact H1|]. intros x Hx. rewrite forallb_forall in H2.
  specialize (H2 x Hx). apply existsb_exists in H2. destruct H2 as (y & Hy & E). apply Heq in E. subst. exact Hy.
Qed.
