(* RegexFacts.v -- the identifier patterns, run through the regex engine, accept exactly the
   CNB grammars, for ALL strings (C09). *)
From LV Require Import Base Regex.

Lemma beq_app_cancel (w s s' : list N) : w ++ s = w ++ s' -> s = s'.
Proof. apply app_inv_head. Qed.

(* ---------- literals ---------- *)
Lemma run_lit w a0 s s' : In s' (run (lit w) a0 s) <-> s = w ++ s'.
Proof.
  revert a0 s. induction w as [|x w IH]; intros a0 s; cbn [lit].
  - cbn. split; [intros [<-|[]]; reflexivity|intros ->; now left].
  - cbn [run]. rewrite in_flat_map. split.
    + intros (t & It & Is). destruct s as [|y s]; [destruct It|].
      unfold in_cls in It. cbn [existsb fst snd] in It. rewrite orb_false_r in It.
      destruct ((x <=? y) && (y <=? x)) eqn:E; [|destruct It]. destruct It as [<-|[]].
      apply andb_true_iff in E as [E1 E2]. apply N.leb_le in E1, E2. assert (x = y) by lia. subst y.
      apply IH in Is. now subst.
    + intros ->. exists (w ++ s'). split.
      * cbn [app]. unfold in_cls. cbn [existsb fst snd]. rewrite !N.leb_refl. cbn. now left.
      * now apply IH.
Qed.

Lemma run_alts_lit ws a0 s s' :
  In s' (run (alts (map lit ws)) a0 s) <-> exists w, In w ws /\ s = w ++ s'.
Proof.
  induction ws as [|w ws IH]; cbn [map alts run].
  - split; [intros []|intros (w & [] & _)].
  - rewrite in_app_iff, run_lit, IH. split.
    + intros [->|(w' & I & ->)]; [exists w; split; [now left|reflexivity]|exists w'; split; [now right|reflexivity]].
    + intros (w' & [<-|I] & ->); [now left|right; now exists w'].
Qed.

(* ---------- class+ ---------- *)
Lemma run_char c a0 s s' : In s' (run (RChar c) a0 s) <-> exists x, s = x :: s' /\ in_cls c x = true.
Proof.
  cbn [run]. destruct s as [|x s]; [split; [intros []|intros (x & E & _); discriminate]|].
  destruct (in_cls c x) eqn:E.
  - split; [intros [<-|[]]; now exists x|intros (y & [= -> ->] & _); now left].
  - split; [intros []|intros (y & [= -> ->] & E'); congruence].
Qed.

Lemma plus_run_char c fuel s s' : (length s < fuel)%nat ->
  In s' (plus_run (run (RChar c) false) fuel s) <->
  exists pre, pre <> [] /\ s = pre ++ s' /\ forallb (in_cls c) pre = true.
Proof.
  revert s. induction fuel as [|f IH]; intros s L; [lia|]. cbn [plus_run].
  rewrite in_app_iff, in_flat_map. split.
  - intros [I|(t & It & Is)].
    + apply run_char in I as (x & -> & E). exists [x]. split; [discriminate|]. split; [reflexivity|].
      cbn. now rewrite E.
    + apply run_char in It as (x & -> & E).
      match type of Is with context [if ?b then _ else _] =>
        replace b with true in Is by (symmetry; apply Nat.ltb_lt; cbn [app length]; lia) end.
      apply IH in Is; [|cbn [length] in L; lia]. destruct Is as (pre & NE & -> & F).
      exists (x :: pre). split; [discriminate|]. split; [reflexivity|]. cbn. now rewrite E, F.
  - intros (pre & NE & -> & F). destruct pre as [|x pre]; [congruence|].
    cbn [forallb] in F. apply andb_true_iff in F as [E F]. destruct pre as [|y pre].
    + left. apply run_char. now exists x.
    + right. exists ((y :: pre) ++ s'). split; [apply run_char; now exists x|].
      match goal with |- context [if ?b then _ else _] =>
        replace b with true by (symmetry; apply Nat.ltb_lt; cbn [app length]; lia) end.
      apply IH; [cbn [app length] in L |- *; lia|]. exists (y :: pre). split; [discriminate|]. now split.
Qed.

(* ---------- the two pattern shapes ---------- *)
Definition shape_plain (c : cls) : re := cats [RStart; RPlus (RChar c); REnd].
Definition shape_reserved (ws : list (list N)) (c : cls) : re :=
  cats [RStart; RNegLook (cats [alts (map lit ws); REnd]); RPlus (RChar c); REnd].

Lemma search_anchored r s : (forall t, run r false t = []) ->
  search r true s = match run r true s with [] => false | _ => true end.
Proof.
  intros H. destruct s as [|x s]; cbn [search]; destruct (run r true _); try reflexivity.
  clear -H. induction s as [|y s IH]; cbn [search]; rewrite H; [reflexivity|exact IH].
Qed.

Lemma nonempty_iff {A} (l : list A) : (match l with [] => false | _ => true end) = true <-> exists x, In x l.
Proof. destruct l; split; try discriminate; try (intros [? []]); eauto. intros _. exists a. now left. Qed.

Lemma tail_matches c s :
  (exists r, In r (run (cats [RPlus (RChar c); REnd]) false s)) <->
  (s <> [] /\ forallb (in_cls c) s = true).
Proof.
  cbn [cats run]. split.
  - intros (r & I). apply in_flat_map in I as (t & It & Ir).
    apply plus_run_char in It; [|lia]. destruct It as (pre & NE & -> & F).
    destruct t; [|destruct Ir]. rewrite app_nil_r. split; assumption.
  - intros [NE F]. exists []. apply in_flat_map. exists []. split; [|cbn; now left].
    apply plus_run_char; [lia|]. exists s. rewrite app_nil_r. auto.
Qed.

Lemma flat_map_at0_irrelevant c (l : list (list N)) (f : list N -> bool) :
  flat_map (fun s' => run (cats [RPlus (RChar c); REnd]) (f s') s') l =
  flat_map (fun s' => run (cats [RPlus (RChar c); REnd]) false s') l.
Proof. induction l as [|t l IH]; [reflexivity|]. cbn [flat_map]. now rewrite IH. Qed.

Theorem shape_plain_correct c s :
  is_match (shape_plain c) s = ident_spec (in_cls c) [] s.
Proof.
  unfold is_match. rewrite search_anchored by reflexivity.
  unfold ident_spec. cbn [existsb negb]. rewrite andb_true_r.
  apply Bool.eq_true_iff_eq. rewrite nonempty_iff, andb_true_iff, negb_true_iff.
  unfold shape_plain. change (cats [RStart; RPlus (RChar c); REnd]) with (RCat RStart (cats [RPlus (RChar c); REnd])).
  cbn [run]. cbn [flat_map]. rewrite app_nil_r.
  match goal with |- (exists x, In x (run _ ?b s)) <-> _ => generalize b end. intros b.
  assert (E : run (cats [RPlus (RChar c); REnd]) b s = run (cats [RPlus (RChar c); REnd]) false s) by reflexivity.
  rewrite E, tail_matches. destruct s; cbn [is_empty]; split; intros [A B]; split; congruence.
Qed.

Theorem shape_reserved_correct ws c s :
  is_match (shape_reserved ws c) s = ident_spec (in_cls c) ws s.
Proof.
  unfold is_match. rewrite search_anchored by reflexivity.
  unfold ident_spec. apply Bool.eq_true_iff_eq.
  rewrite nonempty_iff, !andb_true_iff, !negb_true_iff.
  unfold shape_reserved.
  change (cats [RStart; RNegLook (cats [alts (map lit ws); REnd]); RPlus (RChar c); REnd])
    with (RCat RStart (RCat (RNegLook (RCat (alts (map lit ws)) (RCat REnd REps))) (cats [RPlus (RChar c); REnd]))).
  cbn [run flat_map]. rewrite app_nil_r.
  (* the look-ahead *)
  set (look := flat_map _ (run (alts (map lit ws)) _ s)).
  assert (HL : (exists t, In t look) <-> existsb (beq s) ws = true).
  { unfold look. split.
    - intros (t & I). apply in_flat_map in I as (u & Iu & It). apply run_alts_lit in Iu as (w & Iw & ->).
      destruct u; [|destruct It]. rewrite app_nil_r. apply existsb_exists. exists w. split; [exact Iw|apply beq_refl].
    - intros E. apply existsb_exists in E as (w & Iw & E). apply beq_spec in E. subst w. exists [].
      apply in_flat_map. exists []. split; [|cbn; now left]. apply run_alts_lit. exists s. now rewrite app_nil_r. }
  assert (HL1 : look = [] -> existsb (beq s) ws = false).
  { intros E0. apply Bool.not_true_is_false. intros X. apply HL in X as (t & It).
    rewrite E0 in It. destruct It. }
  assert (HL2 : look <> [] -> existsb (beq s) ws = true).
  { intros NE0. apply HL. destruct look as [|t0 ?]; [congruence|]. exists t0. now left. }
  clear HL. destruct look as [|l0 look'].
  - specialize (HL1 eq_refl). clear HL2. cbn [flat_map]. rewrite app_nil_r.
    match goal with |- (exists x, In x (run _ ?b s)) <-> _ => generalize b end. intros b.
    assert (E : run (cats [RPlus (RChar c); REnd]) b s = run (cats [RPlus (RChar c); REnd]) false s) by reflexivity.
    rewrite E, tail_matches, HL1.
    destruct s; cbn [is_empty]; split.
    + intros [A B]; congruence.
    + intros [[A B] C]; discriminate.
    + intros [A B]. repeat split; assumption.
    + intros [[A B] C]. split; [discriminate|assumption].
  - assert (X : existsb (beq s) ws = true) by (apply HL2; discriminate). cbn [flat_map].
    split; [intros (x & [])|]. intros [_ F]. congruence.
Qed.

(* ---------- classes: generated range lists vs the spec's character predicates ---------- *)
Lemma ident_spec_ext ok1 ok2 ws s : Forall (fun x => ok1 x = ok2 x) s ->
  ident_spec ok1 ws s = ident_spec ok2 ws s.
Proof.
  intros F. unfold ident_spec. f_equal. f_equal.
  induction F as [|x l E _ IH]; [reflexivity|]. cbn [forallb]. now rewrite E, IH.
Qed.

Ltac cls_tac :=
  intros; unfold in_cls, is_alnum; cbn [existsb fst snd];
  apply Bool.eq_true_iff_eq;
  repeat rewrite ?orb_true_iff, ?andb_true_iff, ?negb_true_iff, ?N.leb_le, ?N.eqb_eq, ?N.eqb_neq, ?orb_false_r;
  lia.

Lemma cls_dot_spec x : x <= 1114111 -> in_cls cls_dot x = negb (x =? 10).
Proof. unfold cls_dot. cls_tac. Qed.

Lemma cls_process_type_spec x :
  in_cls [(48, 57); (65, 90); (97, 122); (46, 46); (95, 95); (45, 45)] x =
  (is_alnum x || (x =? 46) || (x =? 95) || (x =? 45)).
Proof. cls_tac. Qed.

Lemma cls_buildpack_id_spec x :
  in_cls [(48, 57); (65, 90); (97, 122); (46, 46); (47, 47); (45, 45)] x =
  (is_alnum x || (x =? 46) || (x =? 47) || (x =? 45)).
Proof. cls_tac. Qed.

Lemma cls_execd_key_spec x :
  in_cls [(65, 90); (97, 122); (48, 57); (95, 95); (45, 45)] x =
  (is_alnum x || (x =? 95) || (x =? 45)).
Proof. cls_tac. Qed.

Definition valid_scalars (s : list N) : Prop := Forall (fun x => x <= 1114111) s.

Theorem layer_name_correct s : valid_scalars s ->
  is_match (shape_reserved [w_build; w_launch; w_store] cls_dot) s = spec_layer_name s.
Proof.
  intros V. rewrite shape_reserved_correct. unfold spec_layer_name. apply ident_spec_ext.
  eapply Forall_impl; [|exact V]. intros x L. now apply cls_dot_spec.
Qed.

Theorem process_type_correct s :
  is_match (shape_plain [(48, 57); (65, 90); (97, 122); (46, 46); (95, 95); (45, 45)]) s = spec_process_type s.
Proof.
  rewrite shape_plain_correct. unfold spec_process_type. apply ident_spec_ext.
  apply Forall_forall. intros x _. apply cls_process_type_spec.
Qed.

Theorem buildpack_id_correct s :
  is_match (shape_reserved [w_app; w_config; w_sbom] [(48, 57); (65, 90); (97, 122); (46, 46); (47, 47); (45, 45)]) s
  = spec_buildpack_id s.
Proof.
  rewrite shape_reserved_correct. unfold spec_buildpack_id. apply ident_spec_ext.
  apply Forall_forall. intros x _. apply cls_buildpack_id_spec.
Qed.

Theorem execd_key_correct s :
  is_match (shape_plain [(65, 90); (97, 122); (48, 57); (95, 95); (45, 45)]) s = spec_execd_key s.
Proof.
  rewrite shape_plain_correct. unfold spec_execd_key. apply ident_spec_ext.
  apply Forall_forall. intros x _. apply cls_execd_key_spec.
Qed.
