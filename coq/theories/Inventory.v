(* Inventory.v -- executable model of libherokubuildpack::inventory: resolve / partial_resolve
   (inventory.rs) and the checksum grammar (inventory/checksum.rs, hex::decode/encode).
   Definitions only; proofs in InventoryFacts.v. *)
From LV Require Import Base.

(* ---------- resolution ---------- *)
Section Resolve.
  Context {A V : Type}.
  Variable key : A -> V.                 (* |artifact| &artifact.version *)
  Variable sel : A -> bool.              (* the filter closure: os, arch, requirement *)
  Variable pcmp : V -> V -> option comparison.   (* PartialOrd::partial_cmp *)
  (* which outcomes of item.partial_cmp(acc) make the fold take the item: generated table *)
  Variable replace_on : option comparison -> bool.

  Definition pmax_step (acc : option A) (item : A) : option A :=
    match acc with
    | None => Some item
    | Some a => if replace_on (pcmp (key item) (key a)) then Some item else Some a
    end.

  Definition partial_resolve (l : list A) : option A :=
    fold_left pmax_step (filter sel l) None.

  (* Iterator::max_by_key = reduce(|x, y| match cmp(x, y) { Greater => x, _ => y }) *)
  Variable cmp : V -> V -> comparison.    (* Ord::cmp *)
  Definition max_step (acc : option A) (item : A) : option A :=
    match acc with
    | None => Some item
    | Some a => match cmp (key a) (key item) with Gt => Some a | _ => Some item end
    end.
  Definition resolve (l : list A) : option A :=
    fold_left max_step (filter sel l) None.
End Resolve.

Definition spec_replace_on (c : option comparison) : bool :=
  match c with Some Gt | Some Eq => true | _ => false end.

(* the property for one query, as a relation on the observed answer *)
Definition resolve_spec {A V} (key : A -> V) (sel : A -> bool) (pcmp : V -> V -> option comparison)
           (l : list A) (res : option A) : Prop :=
  match res with
  | Some r => In r l /\ sel r = true /\
              forall a, In a l -> sel a = true -> pcmp (key a) (key r) <> Some Gt
  | None => forall a, In a l -> sel a = false
  end.

(* laws of a (partial) order as Rust's PartialOrd contract states them *)
Record porder_laws {V} (pcmp : V -> V -> option comparison) : Prop := {
  po_irrefl : forall a, pcmp a a <> Some Gt;
  po_trans_ge : forall a b c,
      spec_replace_on (pcmp a b) = true -> spec_replace_on (pcmp b c) = true ->
      spec_replace_on (pcmp a c) = true;
  po_trans_gt_ge : forall a b c,
      pcmp a b = Some Gt -> spec_replace_on (pcmp b c) = true -> pcmp a c = Some Gt
}.

(* ---------- concrete instance used by the correspondence stream ---------- *)
Inductive os := Darwin | Linux.
Inductive arch := Amd64 | Arm64.
Definition os_eqb a b := match a, b with Darwin, Darwin | Linux, Linux => true | _, _ => false end.
Definition arch_eqb a b := match a, b with Amd64, Amd64 | Arm64, Arm64 => true | _, _ => false end.

(* version = pair of naturals; partial order = product order, total order = lexicographic *)
Definition ver := (N * N)%type.
Definition ver_eqb (a b : ver) : bool := N.eqb (fst a) (fst b) && N.eqb (snd a) (snd b).
Definition ver_pcmp (a b : ver) : option comparison :=
  if ver_eqb a b then Some Eq
  else if N.leb (fst a) (fst b) && N.leb (snd a) (snd b) then Some Lt
  else if N.leb (fst b) (fst a) && N.leb (snd b) (snd a) then Some Gt
  else None.
(* the same order with versions that compare to nothing, not even to themselves (first component
   99), like f64::NAN: partial_cmp returns None on them *)
Definition ver_nan (a : ver) : bool := N.eqb (fst a) 99.
Definition ver_pcmp_nan (a b : ver) : option comparison :=
  if ver_nan a || ver_nan b then None else ver_pcmp a b.
Definition ver_cmp (a b : ver) : comparison :=
  match N.compare (fst a) (fst b) with Eq => N.compare (snd a) (snd b) | c => c end.

Record artifact := mkArt { a_ver : ver; a_os : os; a_arch : arch; a_meta : N }.

(* requirement used by the harness: version in an allowed set, metadata >= a minimum *)
Record req := mkReq { r_allowed : list ver; r_meta_min : N }.

Definition art_sel (o : os) (ar : arch) (r : req) (a : artifact) : bool :=
  os_eqb (a_os a) o && arch_eqb (a_arch a) ar &&
  existsb (ver_eqb (a_ver a)) (r_allowed r) && N.leb (r_meta_min r) (a_meta a).

(* ---------- hex and checksums ---------- *)
Definition hex_val (c : N) : option N :=
  if (48 <=? c) && (c <=? 57) then Some (c - 48)
  else if (97 <=? c) && (c <=? 102) then Some (c - 87)
  else if (65 <=? c) && (c <=? 70) then Some (c - 55)
  else None.

Definition hex_digit (n : N) : N := if n <? 10 then 48 + n else 87 + n.

(* hex::decode: odd length or a non-hex character is an error *)
Fixpoint hex_decode (s : bytes) : option bytes :=
  match s with
  | [] => Some []
  | [_] => None
  | h :: l :: s' =>
      match hex_val h, hex_val l, hex_decode s' with
      | Some a, Some b, Some r => Some (16 * a + b :: r)
      | _, _, _ => None
      end
  end.

(* hex::encode: lower case *)
Fixpoint hex_encode (b : bytes) : bytes :=
  match b with
  | [] => []
  | x :: b' => hex_digit (x / 16) :: hex_digit (x mod 16) :: hex_encode b'
  end.

(* str::split_once(':') *)
Fixpoint split_colon (s : bytes) : option (bytes * bytes) :=
  match s with
  | [] => None
  | c :: s' =>
      if c =? 58 then Some ([], s')
      else match split_colon s' with Some (a, b) => Some (c :: a, b) | None => None end
  end.

Inductive cks_error := MissingPrefix | IncompatiblePrefix | InvalidValue | InvalidLength.

Section Checksum.
  Variable name_ok : bytes -> bool.     (* Digest::name_compatible *)
  Variable len_ok : N -> bool.          (* Digest::length_compatible *)

  Definition parse_checksum (s : bytes) : result cks_error (bytes * bytes) :=
    match split_colon s with
    | None => Err MissingPrefix
    | Some (name, hex) =>
        match hex_decode hex with
        | None => Err InvalidValue
        | Some v =>
            if negb (name_ok name) then Err IncompatiblePrefix
            else if negb (len_ok (N.of_nat (length v))) then Err InvalidLength
            else Ok (name, v)
        end
    end.

  Definition show_checksum (c : bytes * bytes) : bytes := fst c ++ [58] ++ hex_encode (snd c).
End Checksum.

Definition is_hex (c : N) : bool := match hex_val c with Some _ => true | None => false end.
Definition all_bytes (b : bytes) : Prop := Forall (fun x => x < 256) b.
