(* LayerEnvReadback.v -- reading back the files of a delta in ANY order (a directory listing is
   sorted by file name, not by behaviour) gives the delta: parse_files is determined by the set of
   files, via extensionality of sorted maps. *)
From LV Require Import Base FS LayerEnv LayerEnvFacts LayerShared LayerEnvFS LayerEnvFSFacts.
From Coq Require Import Permutation.

Lemma dget_dinsert_same b k v d : dget (dinsert b k v d) b = bset k v (dget d b).
Proof. destruct b; reflexivity. Qed.

Lemma dget_dinsert_other b b' k v d : b' <> b -> dget (dinsert b k v d) b' = dget d b'.
Proof. destruct b, b'; intros H; try reflexivity; congruence. Qed.

Lemma beh_eq_dec (a c : beh) : {a = c} + {a <> c}.
Proof. decide equality. Qed.

Lemma delta_ext d1 d2 : delta_wf d1 -> delta_wf d2 ->
  (forall b k, bget k (dget d1 b) = bget k (dget d2 b)) -> d1 = d2.
Proof.
  intros (A1 & A2 & A3 & A4 & A5) (B1 & B2 & B3 & B4 & B5) H.
  destruct d1 as [a1 a2 a3 a4 a5], d2 as [c1 c2 c3 c4 c5]. cbn in *.
  f_equal; apply bmap_ext; try assumption; intros k.
  - apply (H Append k). - apply (H Default k). - apply (H Delim k). - apply (H Override k). - apply (H Prepend k).
Qed.

Section Readback.
  Variable w : writer_table.
  Variable r : reader_table.
  Variable ne : option beh.
  Hypothesis T : tables_inverse w r.

  (* files given abstractly as (behaviour, key, value) triples *)
  Definition file_of (t : beh * bytes * bytes) : name * bytes :=
    (snd (fst t) ++ writer_suffix_of w (fst (fst t)), snd t).

  Definition insert_all (l : list (beh * bytes * bytes)) (d0 : delta) : delta :=
    fold_left (fun d t => dinsert (fst (fst t)) (snd (fst t)) (snd t) d) l d0.

  Lemma parse_files_triples l d0 :
    (forall t, In t l -> snd (fst t) <> []) ->
    parse_files r ne (map file_of l) d0 = insert_all l d0.
  Proof.
    unfold parse_files, insert_all. revert d0. induction l as [|[[b k] v] l IH]; intros d0 NE; cbn [map fold_left]; [reflexivity|].
    change (file_of (b, k, v)) with (k ++ writer_suffix_of w b, v). cbn [fst snd]. rewrite entry_roundtrip; [|exact T|apply (NE (b, k, v)); left; reflexivity].
    apply IH. intros t Ht. apply NE. right. exact Ht.
  Qed.

  Lemma insert_all_wf l : forall d0, delta_wf d0 -> delta_wf (insert_all l d0).
  Proof. induction l as [|[[b k] v] l IH]; intros d0 W; [exact W|]. cbn. apply IH, dinsert_wf, W. Qed.

  Definition tkey (t : beh * bytes * bytes) : beh * bytes := fst t.

  Lemma insert_all_get l : forall d0 b k,
    NoDup (map tkey l) ->
    bget k (dget (insert_all l d0) b) =
    match find (fun t => if beh_eq_dec (fst (fst t)) b then beq (snd (fst t)) k else false) l with
    | Some t => Some (snd t)
    | None => bget k (dget d0 b)
    end.
  Proof.
    induction l as [|[[b' k'] v'] l IH]; intros d0 b k ND; [reflexivity|].
    inversion ND as [|a c Ha Hc]; subst. cbn [insert_all fold_left fst snd find].
    change (fold_left (fun d t => dinsert (fst (fst t)) (snd (fst t)) (snd t) d) l (dinsert b' k' v' d0)) with (insert_all l (dinsert b' k' v' d0)).
    rewrite (IH _ b k Hc).
    destruct (beh_eq_dec b' b) as [->|Hb].
    - destruct (beq k' k) eqn:Ek.
      + apply beq_spec in Ek. subst k'.
        (* the later entries do not contain (b, k) again *)
        destruct (find _ l) as [t|] eqn:Ef.
        * exfalso. apply find_some in Ef as [Ht Hm]. destruct (beh_eq_dec (fst (fst t)) b) as [Eb|]; [|discriminate].
          apply beq_spec in Hm. apply Ha. apply in_map_iff. exists t. split; [|exact Ht].
          destruct t as [[tb tk] tv]. cbn in *. subst. reflexivity.
        * rewrite dget_dinsert_same. apply bget_set_same.
      + destruct (find _ l); [reflexivity|]. rewrite dget_dinsert_same. apply bget_set_other.
        intros ->. rewrite beq_refl in Ek. discriminate.
    - destruct (find _ l); [reflexivity|]. rewrite dget_dinsert_other by (intros E; apply Hb; symmetry; exact E). reflexivity.
  Qed.

  (* the set of files decides: any two orders read back the same *)
  Theorem insert_all_perm l l' : NoDup (map tkey l) -> Permutation l l' -> insert_all l delta_empty = insert_all l' delta_empty.
  Proof.
    intros ND P.
    assert (ND' : NoDup (map tkey l')) by (eapply Permutation_NoDup; [apply Permutation_map; exact P|exact ND]).
    apply delta_ext; try (apply insert_all_wf, delta_empty_wf).
    intros b k. rewrite !insert_all_get by assumption.
    set (p := fun t : beh * bytes * bytes => if beh_eq_dec (fst (fst t)) b then beq (snd (fst t)) k else false).
    (* both finds locate the unique entry with key (b, k), if any *)
    assert (U : forall (m : list (beh * bytes * bytes)) t1 t2, NoDup (map tkey m) -> In t1 m -> In t2 m -> p t1 = true -> p t2 = true -> t1 = t2).
    { intros m t1 t2 Nm I1 I2 P1 P2. unfold p in P1, P2.
      destruct (beh_eq_dec (fst (fst t1)) b) as [E1|]; [|discriminate]. destruct (beh_eq_dec (fst (fst t2)) b) as [E2|]; [|discriminate].
      apply beq_spec in P1, P2.
      assert (K : tkey t1 = tkey t2) by (destruct t1 as [[? ?] ?], t2 as [[? ?] ?]; cbn in *; congruence).
      clear - Nm I1 I2 K. induction m as [|x m IHm]; [contradiction|]. cbn [map] in Nm. inversion Nm as [|a c Ha Hc]; subst.
      destruct I1 as [->|I1], I2 as [->|I2]; try reflexivity.
      - exfalso. apply Ha. rewrite K. apply in_map. exact I2.
      - exfalso. apply Ha. rewrite <- K. apply in_map. exact I1.
      - apply IHm; assumption. }
    destruct (find p l) as [t|] eqn:F1, (find p l') as [t'|] eqn:F2.
    - apply find_some in F1 as [I1 P1]. apply find_some in F2 as [I2 P2].
      assert (t = t') by (apply (U l' t t' ND'); [eapply Permutation_in; eauto|exact I2|exact P1|exact P2]). subst. reflexivity.
    - apply find_some in F1 as [I1 P1]. pose proof (find_none _ _ F2 t (Permutation_in _ P I1)) as X. congruence.
    - apply find_some in F2 as [I2 P2]. pose proof (find_none _ _ F1 t' (Permutation_in _ (Permutation_sym P) I2)) as X. congruence.
    - reflexivity.
  Qed.
End Readback.
