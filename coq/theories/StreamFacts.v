(* StreamFacts.v -- chunking independence of the mapped writer, tee, and the two-pipe streaming
   model: no deadlock, termination, full in-order delivery for EVERY schedule (C19). *)
From LV Require Import Base Stream.

(* ---------- MappedWrite ---------- *)
Section MappedFacts.
  Variable f : bytes -> bytes.
  Variable m : N.

  Lemma fold_write_concat chunks s :
    fold_left (mw_write f m) chunks s = fold_left (mw_byte f m) (concat chunks) s.
  Proof.
    revert s. induction chunks as [|c cs IH]; intros s; [reflexivity|].
    cbn [fold_left concat]. rewrite IH. unfold mw_write. now rewrite fold_left_app.
  Qed.

  Lemma byte_fold input : forall s,
    mw_finish f true (fold_left (mw_byte f m) input s) =
    mw_out s ++ concat (map f (segments m input (mw_buf s))).
  Proof.
    induction input as [|x r IH]; intros s; cbn [fold_left segments].
    - unfold mw_finish. cbn [andb]. destruct (mw_buf s); cbn [is_empty map concat]; now rewrite ?app_nil_r.
    - rewrite IH. unfold mw_byte. destruct (x =? m); cbn [mw_out mw_buf map concat].
      + now rewrite <- app_assoc.
      + reflexivity.
  Qed.

  (* however the input is split across write calls: the mapping of every marker-terminated segment,
     then of the non-empty remainder *)
  Theorem mapped_chunking chunks : mw_run f m true chunks = mapped_spec f m (concat chunks).
  Proof.
    unfold mw_run, mapped_spec. rewrite fold_write_concat, byte_fold. reflexivity.
  Qed.

  Corollary mapped_chunking_independent c1 c2 : concat c1 = concat c2 -> mw_run f m true c1 = mw_run f m true c2.
  Proof. intros E. now rewrite !mapped_chunking, E. Qed.
End MappedFacts.

(* F5: the code as found maps the empty remainder too *)
Theorem empty_remainder_legacy_refuted :
  let pre := fun b : bytes => [62; 32] ++ b in
  mw_run pre 10 false [[102; 111; 111; 10]] = [62; 32; 102; 111; 111; 10; 62; 32] /\
  mapped_spec pre 10 [102; 111; 111; 10] = [62; 32; 102; 111; 111; 10] /\
  mw_run pre 10 true [[102; 111; 111; 10]] = [62; 32; 102; 111; 111; 10].
Proof. vm_compute. repeat split. Qed.

Theorem tee_full chunks : tee_run chunks = (concat chunks, concat chunks).
Proof.
  unfold tee_run.
  assert (G : forall a b, fold_left (fun ab c => (fst ab ++ c, snd ab ++ c)) chunks (a, b) = (a ++ concat chunks, b ++ concat chunks)).
  { induction chunks as [|c cs IH]; intros a b; cbn [fold_left concat fst snd]; [now rewrite !app_nil_r|].
    rewrite IH. now rewrite <- !app_assoc. }
  apply (G [] []).
Qed.

(* ---------- pipes ---------- *)
Section PipesFacts.
  Variable cap : nat.
  Hypothesis cap_pos : (0 < cap)%nat.

  Lemma is_empty_length {A} (l : list A) : is_empty l = true <-> length l = 0%nat.
  Proof. destruct l; cbn; split; intro; try reflexivity; discriminate. Qed.

  (* with two copier threads a state that is not final always has an enabled transition *)
  Theorem no_deadlock s : final s = false -> can_step cap true s = true.
  Proof.
    unfold final, can_step. destruct s as [sc cl po pe ko ke]. unfold pipe_of; cbn [script closed p_out p_err].
    destruct sc as [|[x d] rest].
    - cbn [is_empty andb orb]. destruct cl; cbn; [|reflexivity].
      destruct po, pe; cbn; try reflexivity. discriminate.
    - intros _. destruct d as [|b d]; [reflexivity|].
      match goal with |- context [Nat.ltb ?a ?b] => destruct (Nat.ltb_spec a b) as [L|L] end; [reflexivity|].
      cbn [orb]. destruct x.
      + destruct po; [cbn in L; lia|reflexivity].
      + destruct pe; [cbn in L; lia|]. cbn. now rewrite orb_true_r.
  Qed.

  (* [can_step] is exactly "some transition is enabled" *)
  Theorem can_step_sound par s : can_step cap par s = true -> exists t s', do_step cap par s t = Some s'.
  Proof.
    unfold can_step. destruct s as [sc cl po pe ko ke]. unfold pipe_of; cbn [script closed p_out p_err].
    intros H. apply orb_true_iff in H as [H|H]; [apply orb_true_iff in H as [H|H]|].
    - destruct sc as [|[x d] rest].
      + exists ChildExit. cbn. apply negb_true_iff in H. rewrite H. eauto.
      + destruct d as [|b d].
        * exists (ChildWrite 0). cbn. eauto.
        * exists (ChildWrite 1). apply Nat.ltb_lt in H. unfold do_step, pipe_of. cbn [script p_out p_err].
          destruct x.
          -- assert (E : (Nat.ltb 0 1 && Nat.leb 1 (cap - length po) && Nat.leb 1 (length (b :: d))) = true).
             { repeat (apply andb_true_iff; split); [reflexivity|apply Nat.leb_le; lia|reflexivity]. }
             rewrite E. eauto.
          -- assert (E : (Nat.ltb 0 1 && Nat.leb 1 (cap - length pe) && Nat.leb 1 (length (b :: d))) = true).
             { repeat (apply andb_true_iff; split); [reflexivity|apply Nat.leb_le; lia|reflexivity]. }
             rewrite E. eauto.
    - exists (CopyOut 1). unfold do_step. cbn [p_out]. destruct po; [discriminate|]. cbn. eauto.
    - apply andb_true_iff in H as [G H]. exists (CopyErr 1). unfold do_step. cbn [closed p_out p_err].
      rewrite G. destruct pe; [discriminate|]. cbn. eauto.
  Qed.

  Theorem can_step_complete par s t s' : do_step cap par s t = Some s' -> can_step cap par s = true.
  Proof.
    unfold do_step, can_step. destruct s as [sc cl po pe ko ke]. unfold pipe_of; cbn [script closed p_out p_err].
    destruct t as [k| |k|k].
    - destruct sc as [|[x d] rest]; [discriminate|]. destruct d as [|b d]; [intros _; reflexivity|].
      destruct x;
        (match goal with |- context [Nat.ltb 0 k && Nat.leb k ?r && _] =>
           destruct (Nat.ltb 0 k) eqn:K0; [|discriminate]; destruct (Nat.leb k r) eqn:K1; [|discriminate] end;
         intros _; apply Nat.ltb_lt in K0; apply Nat.leb_le in K1;
         match goal with |- context [Nat.ltb ?a cap] => assert (Nat.ltb a cap = true) as -> by (apply Nat.ltb_lt; lia) end;
         reflexivity).
    - destruct sc; [|discriminate]. destruct cl; [discriminate|]. intros _. reflexivity.
    - destruct (Nat.ltb 0 k) eqn:K0; [|discriminate]. destruct (Nat.leb k (length po)) eqn:K1; [|discriminate].
      intros _. apply Nat.ltb_lt in K0. apply Nat.leb_le in K1. destruct po; [cbn in K1; lia|].
      cbn [is_empty negb]. now rewrite orb_true_r.
    - destruct (par || (cl && is_empty po)) eqn:G; [|discriminate].
      destruct (Nat.ltb 0 k) eqn:K0; [|discriminate]. destruct (Nat.leb k (length pe)) eqn:K1; [|discriminate].
      intros _. apply Nat.ltb_lt in K0. apply Nat.leb_le in K1. destruct pe; [cbn in K1; lia|].
      cbn [is_empty negb andb]. now rewrite orb_true_r.
  Qed.

  (* conservation: delivered ++ in flight ++ still to be written never changes, per stream *)
  Definition carried (s : pstate) (x : stream) : bytes :=
    match x with
    | SOut => k_out s ++ p_out s ++ written (script s) SOut
    | SErr => k_err s ++ p_err s ++ written (script s) SErr
    end.

  Lemma written_cons x d rest y :
    written ((x, d) :: rest) y = (if stream_eqb x y then d else []) ++ written rest y.
  Proof. reflexivity. Qed.

  Theorem step_conserves par s t s' x : do_step cap par s t = Some s' -> carried s' x = carried s x.
  Proof.
    unfold do_step. destruct s as [sc cl po pe ko ke]. unfold pipe_of; cbn [script closed p_out p_err k_out k_err].
    destruct t as [k| |k|k].
    - destruct sc as [|[y d] rest]; [discriminate|]. destruct d as [|b d].
      + destruct (Nat.eqb k 0); [|discriminate]. intros [= <-]. unfold carried.
        cbn [k_out k_err p_out p_err script]. rewrite written_cons. destruct x, y; reflexivity.
      + destruct (_ && _ && _); [|discriminate].
        assert (S : forall z, written (match skipn k (b :: d) with [] => rest | _ => (y, skipn k (b :: d)) :: rest end) z
                              = (if stream_eqb y z then skipn k (b :: d) else []) ++ written rest z).
        { intros z. destruct (skipn k (b :: d)) eqn:E; [now destruct (stream_eqb y z)|]. now rewrite written_cons. }
        assert (FS : forall tl, firstn k (b :: d) ++ skipn k (b :: d) ++ tl = (b :: d) ++ tl).
        { intros tl. now rewrite app_assoc, firstn_skipn. }
        destruct y, x; intros [= <-]; unfold carried; cbn [k_out k_err p_out p_err script];
          rewrite S, written_cons; cbn [stream_eqb]; rewrite <- ?app_assoc; rewrite ?FS; reflexivity.
    - destruct sc; [|discriminate]. destruct cl; [discriminate|]. intros [= <-]. destruct x; reflexivity.
    - destruct (_ && _); [|discriminate]. intros [= <-]. unfold carried. cbn [k_out k_err p_out p_err script].
      destruct x; [|reflexivity]. rewrite <- !app_assoc. rewrite (app_assoc (firstn k po)), firstn_skipn. reflexivity.
    - destruct (_ && _ && _); [|discriminate]. intros [= <-]. unfold carried. cbn [k_out k_err p_out p_err script].
      destruct x; [reflexivity|]. rewrite <- !app_assoc. rewrite (app_assoc (firstn k pe)), firstn_skipn. reflexivity.
  Qed.

  Lemma run_conserves par ts : forall s s' x, run_steps cap par s ts = Some s' -> carried s' x = carried s x.
  Proof.
    induction ts as [|t ts IH]; intros s s' x H; cbn [run_steps] in H; [now injection H as <-|].
    destruct (do_step cap par s t) as [s1|] eqn:D; [|discriminate].
    rewrite (IH _ _ _ H). eapply step_conserves; eauto.
  Qed.

  (* every schedule that reaches a final state delivered, per stream, exactly the bytes the child
     wrote to that stream, in order *)
  Theorem delivers_all par sc ts s :
    run_steps cap par (init sc) ts = Some s -> final s = true ->
    k_out s = written sc SOut /\ k_err s = written sc SErr.
  Proof.
    intros R F. unfold final in F. repeat (apply andb_true_iff in F as [F ?]).
    pose proof (run_conserves par ts _ _ SOut R) as Co. pose proof (run_conserves par ts _ _ SErr R) as Ce.
    unfold carried, init in Co, Ce. cbn [k_out k_err p_out p_err script app] in Co, Ce.
    destruct (script s); [|discriminate]. destruct (p_out s); [|discriminate]. destruct (p_err s); [|discriminate].
    cbn [written flat_map app] in Co, Ce. rewrite !app_nil_r in *. now split.
  Qed.

  (* termination: a strictly decreasing measure, hence every schedule is finite *)
  Definition script_bytes (sc : list (stream * bytes)) : nat := list_sum (map (fun w => length (snd w)) sc).
  Definition mu (s : pstate) : nat :=
    (2 * script_bytes (script s) + length (script s) + length (p_out s) + length (p_err s) + (if closed s then 0 else 1))%nat.

  Lemma script_bytes_cons x d rest : script_bytes ((x, d) :: rest) = (length d + script_bytes rest)%nat.
  Proof. reflexivity. Qed.

  Theorem step_decreases par s t s' : do_step cap par s t = Some s' -> (mu s' < mu s)%nat.
  Proof.
    unfold do_step, mu. destruct s as [sc cl po pe ko ke]. unfold pipe_of; cbn [script closed p_out p_err k_out k_err].
    destruct t as [k| |k|k].
    - destruct sc as [|[y d] rest]; [discriminate|]. destruct d as [|b d].
      + destruct (Nat.eqb k 0); [|discriminate]. intros [= <-]. cbn [script closed p_out p_err].
        rewrite script_bytes_cons. cbn [length]. lia.
      + destruct (Nat.ltb 0 k) eqn:K0; [|discriminate]. cbn [andb].
        destruct (Nat.leb k _) eqn:K1; [|discriminate]. cbn [andb].
        destruct (Nat.leb k (length (b :: d))) eqn:K2; [|discriminate].
        apply Nat.ltb_lt in K0. apply Nat.leb_le in K2.
        assert (LS : (length (skipn k (b :: d)) = length (b :: d) - k)%nat) by apply skipn_length.
        assert (LF : (length (firstn k (b :: d)) = k)%nat) by (apply firstn_length_le; exact K2).
        assert (SB : (2 * script_bytes (match skipn k (b :: d) with [] => rest | _ => (y, skipn k (b :: d)) :: rest end)
                      + length (match skipn k (b :: d) with [] => rest | _ => (y, skipn k (b :: d)) :: rest end)
                      <= 2 * (length (b :: d) - k) + 2 * script_bytes rest + S (length rest))%nat).
        { destruct (skipn k (b :: d)) eqn:E.
          - lia.
          - rewrite script_bytes_cons. cbn [length] in *. lia. }
        destruct y; intros [= <-]; cbn [script closed p_out p_err]; rewrite app_length, LF;
          rewrite (script_bytes_cons _ (b :: d) rest); cbn [length] in *; lia.
    - destruct sc; [|discriminate]. destruct cl; [discriminate|]. intros [= <-]. cbn. lia.
    - destruct (Nat.ltb 0 k) eqn:K0; [|discriminate]. cbn [andb].
      destruct (Nat.leb k (length po)) eqn:K1; [|discriminate]. intros [= <-].
      apply Nat.ltb_lt in K0. apply Nat.leb_le in K1. cbn [script closed p_out p_err]. rewrite skipn_length. lia.
    - destruct (par || _); [|discriminate]. cbn [andb]. destruct (Nat.ltb 0 k) eqn:K0; [|discriminate]. cbn [andb].
      destruct (Nat.leb k (length pe)) eqn:K1; [|discriminate]. intros [= <-].
      apply Nat.ltb_lt in K0. apply Nat.leb_le in K1. cbn [script closed p_out p_err]. rewrite skipn_length. lia.
  Qed.

  Theorem schedules_finite par ts : forall s s', run_steps cap par s ts = Some s' -> (length ts + mu s' <= mu s)%nat.
  Proof.
    induction ts as [|t ts IH]; intros s s' H; cbn [run_steps] in H; [injection H as <-; cbn; lia|].
    destruct (do_step cap par s t) as [s1|] eqn:D; [|discriminate].
    pose proof (step_decreases par s t s1 D). specialize (IH _ _ H). cbn [length]. lia.
  Qed.
End PipesFacts.

(* copying one stream after the other deadlocks as soon as the second stream's pipe fills up *)
Theorem sequential_refuted :
  let sc := [(SErr, [1; 2; 3])] in
  match run_steps 2 false (init sc) [ChildWrite 2] with
  | Some s => final s = false /\ can_step 2 false s = false /\ can_step 2 true s = true
  | None => False
  end.
Proof. vm_compute. repeat split. Qed.
