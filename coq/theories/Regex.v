(* Regex.v -- a small regular-expression engine over Unicode scalar values for the pattern subset
   used by libcnb-data's validated newtypes (anchors, negative look-ahead, alternation of literals,
   bracket classes incl. POSIX names, `.`, `+`).  The engine is an environment model of
   fancy_regex/regex semantics for this subset (trusted base), validated by correspondence.
   Definitions only; proofs in RegexFacts.v. *)
From LV Require Import Base.

(* a character class: inclusive ranges of code points *)
Definition cls := list (N * N).
Definition in_cls (c : cls) (x : N) : bool := existsb (fun r => (fst r <=? x) && (x <=? snd r)) c.

Inductive re :=
| RChar (c : cls)
| RCat (a b : re)
| RAlt (a b : re)
| REps
| RFail
| RStart                  (* ^ : start of haystack (no multi-line mode) *)
| REnd                    (* $ : end of haystack only *)
| RNegLook (a : re)       (* (?!a) *)
| RPlus (a : re)
| RStar (a : re).

(* all remainders s' such that the pattern matches a prefix of s leaving s';
   [at0] tells whether s starts at haystack position 0 *)
Fixpoint plus_run (step : list N -> list (list N)) (fuel : nat) (s : list N) : list (list N) :=
  match fuel with
  | O => []
  | S f =>
      let one := step s in
      one ++ flat_map (fun s' => if Nat.ltb (length s') (length s) then plus_run step f s' else []) one
  end.

Fixpoint run (r : re) (at0 : bool) (s : list N) : list (list N) :=
  match r with
  | RChar c => match s with x :: s' => if in_cls c x then [s'] else [] | [] => [] end
  | RCat a b =>
      flat_map (fun s' => run b (at0 && Nat.eqb (length s') (length s)) s') (run a at0 s)
  | RAlt a b => run a at0 s ++ run b at0 s
  | REps => [s]
  | RFail => []
  | RStart => if at0 then [s] else []
  | REnd => match s with [] => [[]] | _ => [] end
  | RNegLook a => match run a at0 s with [] => [s] | _ => [] end
  | RPlus a => plus_run (run a false) (S (length s)) s
  | RStar a => s :: plus_run (run a false) (S (length s)) s
  end.

(* Regex::is_match: unanchored search *)
Fixpoint search (r : re) (at0 : bool) (s : list N) : bool :=
  match run r at0 s with
  | _ :: _ => true
  | [] => match s with [] => false | _ :: s' => search r false s' end
  end.

Definition is_match (r : re) (s : list N) : bool := search r true s.

(* helpers used by the translator's output *)
Fixpoint lit (w : list N) : re :=
  match w with [] => REps | x :: w' => RCat (RChar [(x, x)]) (lit w') end.
Fixpoint alts (l : list re) : re :=
  match l with [] => RFail | a :: l' => RAlt a (alts l') end.
Fixpoint cats (l : list re) : re :=
  match l with [] => REps | a :: l' => RCat a (cats l') end.

Definition cls_dot : cls := [(0, 9); (11, 1114111)].          (* any scalar value except \n *)
Definition cls_alnum : cls := [(48, 57); (65, 90); (97, 122)].   (* [[:alnum:]] is ASCII-only *)

(* ---------- specification side: the CNB grammar, written independently ---------- *)
Definition is_alnum (x : N) : bool :=
  ((48 <=? x) && (x <=? 57)) || ((65 <=? x) && (x <=? 90)) || ((97 <=? x) && (x <=? 122)).

Definition ident_spec (ok : N -> bool) (reserved : list (list N)) (s : list N) : bool :=
  negb (is_empty s) && forallb ok s && negb (existsb (beq s) reserved).

Definition w_build := [98; 117; 105; 108; 100].
Definition w_launch := [108; 97; 117; 110; 99; 104].
Definition w_store := [115; 116; 111; 114; 101].
Definition w_app := [97; 112; 112].
Definition w_config := [99; 111; 110; 102; 105; 103].
Definition w_sbom := [115; 98; 111; 109].

(* layer name: any characters but newline, not build|launch|store *)
Definition spec_layer_name := ident_spec (fun x => negb (x =? 10)) [w_build; w_launch; w_store].
(* process type: [A-Za-z0-9._-]+ *)
Definition spec_process_type := ident_spec (fun x => is_alnum x || (x =? 46) || (x =? 95) || (x =? 45)) [].
(* buildpack id: [A-Za-z0-9./-]+, not app|config|sbom *)
Definition spec_buildpack_id := ident_spec (fun x => is_alnum x || (x =? 46) || (x =? 47) || (x =? 45)) [w_app; w_config; w_sbom].
(* exec.d output key: [A-Za-z0-9_-]+ *)
Definition spec_execd_key := ident_spec (fun x => is_alnum x || (x =? 95) || (x =? 45)) [].
