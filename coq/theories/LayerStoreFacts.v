(* LayerStoreFacts.v -- per-step theorems of the struct layer API model; they hold from EVERY
   store, hence after every history of requests, writes, tampering and restores. *)
From LV Require Import Base Toml FS LayerEnv LayerShared LayerEnvFS SpecDocs LayerStore.
From Coq Require Import String.
Open Scope N_scope.
Open Scope list_scope.

(* ---------- TOML round trip of the content metadata ---------- *)
Lemma parse_render_types ty : parse_types (render_types ty) = Some ty.
Proof. destruct ty as [[] [] []]; vm_compute; reflexivity. Qed.

Lemma gen_parse_render x : gen_parse (gen_render x) = Some x.
Proof.
  destruct x as [[ty|] [m|]]; unfold gen_render; cbn [fst snd List.app].
  - unfold gen_parse. change (tkeys [(k_types, render_types ty); (k_metadata, TTbl m)]) with [k_types; k_metadata].
    assert (E1 : forallb (fun k => mem_bytes k [k_types; k_metadata]) [k_types; k_metadata] = true) by (vm_compute; reflexivity).
    rewrite E1. 
    assert (E2 : tget k_types [(k_types, render_types ty); (k_metadata, TTbl m)] = Some (render_types ty)) by (vm_compute; reflexivity).
    assert (E3 : tget k_metadata [(k_types, render_types ty); (k_metadata, TTbl m)] = Some (TTbl m)).
    { cbn [tget]. replace (beq k_metadata k_types) with false by (vm_compute; reflexivity). rewrite beq_refl. reflexivity. }
    rewrite E2, E3, parse_render_types. reflexivity.
  - unfold gen_parse. change (tkeys [(k_types, render_types ty)]) with [k_types].
    assert (E1 : forallb (fun k => mem_bytes k [k_types; k_metadata]) [k_types] = true) by (vm_compute; reflexivity).
    rewrite E1.
    assert (E2 : tget k_types [(k_types, render_types ty)] = Some (render_types ty)) by (vm_compute; reflexivity).
    assert (E3 : tget k_metadata [(k_types, render_types ty)] = None) by (vm_compute; reflexivity).
    rewrite E2, E3, parse_render_types. reflexivity.
  - unfold gen_parse. change (tkeys [(k_metadata, TTbl m)]) with [k_metadata].
    assert (E1 : forallb (fun k => mem_bytes k [k_types; k_metadata]) [k_metadata] = true) by (vm_compute; reflexivity).
    rewrite E1.
    assert (E2 : tget k_types [(k_metadata, TTbl m)] = None) by (vm_compute; reflexivity).
    assert (E3 : tget k_metadata [(k_metadata, TTbl m)] = Some (TTbl m)) by (cbn [tget]; rewrite beq_refl; reflexivity).
    rewrite E2, E3. reflexivity.
  - vm_compute. reflexivity.
Qed.

Lemma classify_render x : classify_content (Doc (gen_render x)) = CLcm (fst x) (snd x).
Proof. unfold classify_content. rewrite gen_parse_render. destruct x; reflexivity. Qed.

(* ---------- store laws ---------- *)
Lemma lget_lset_same n v st : lget n (lset n v st) = v.
Proof.
  induction st as [|[k x] r IH]; cbn [lset lget].
  - rewrite beq_refl. reflexivity.
  - destruct (beq n k) eqn:E; cbn [lget]; rewrite E; [reflexivity|exact IH].
Qed.

Lemma lget_lset_other n n' v st : n' <> n -> lget n' (lset n v st) = lget n' st.
Proof.
  intros H. induction st as [|[k x] r IH]; cbn [lset lget].
  - destruct (beq n' n) eqn:E; [apply beq_spec in E; contradiction|reflexivity].
  - destruct (beq n k) eqn:E; cbn [lget].
    + apply beq_spec in E. subst k. destruct (beq n' n) eqn:E'; [apply beq_spec in E'; contradiction|reflexivity].
    + destruct (beq n' k); [reflexivity|exact IH].
Qed.

Definition frame (n : bytes) (st st' : store) : Prop := forall n', n' <> n -> lget n' st' = lget n' st.

Lemma frame_refl n st : frame n st st.
Proof. intros n' _. reflexivity. Qed.
Lemma frame_trans n a b c : frame n a b -> frame n b c -> frame n a c.
Proof. intros H1 H2 n' Hn. rewrite (H2 n' Hn). apply H1, Hn. Qed.
Lemma frame_lset n v st : frame n st (lset n v st).
Proof. intros n' Hn. apply lget_lset_other, Hn. Qed.

(* ---------- the primitives ---------- *)
Lemma read_layer_frame m n st st' r : read_layer m n st = (st', r) -> frame n st st'.
Proof.
  unfold read_layer. destruct (l_dir (lget n st)) as [d|], (l_toml (lget n st)) as [c|]; intros H.
  - destruct (classify_content c) as [| |ty x]; [inversion H; apply frame_refl|inversion H; apply frame_refl|].
    destruct (md_ok m x); inversion H; apply frame_refl.
  - destruct (classify_content doc_empty) as [| |ty x]; [inversion H; apply frame_lset|inversion H; apply frame_lset|].
    destruct (md_ok m x); inversion H; apply frame_lset.
  - inversion H. apply frame_lset.
  - inversion H. apply frame_refl.
Qed.

Lemma write_layer_frame n ty x st : frame n st (write_layer n ty x st).
Proof. apply frame_lset. Qed.
Lemma delete_layer_frame rs n st : frame n st (delete_layer rs n st).
Proof. apply frame_lset. Qed.
Lemma replace_with_frame n f st st' r : replace_with n f st = (st', r) -> frame n st st'.
Proof.
  unfold replace_with. destruct (l_toml (lget n st)) as [c|]; [|intros H; inversion H; apply frame_refl].
  destruct (classify_content c); intros H; inversion H; try apply frame_refl. apply frame_lset.
Qed.
Lemma on_dir_frame n f e1 e2 st st' r : on_dir n f e1 e2 st = (st', r) -> frame n st st'.
Proof.
  unfold on_dir. destruct (l_dir (lget n st)) as [d|]; [|intros H; inversion H; apply frame_refl].
  destruct (f d) as [d' r']. intros H; inversion H. apply frame_lset.
Qed.
Lemma replace_sboms_frame sfx n sb st st' r : replace_layer_sboms sfx n sb st = (st', r) -> frame n st st'.
Proof.
  unfold replace_layer_sboms. destruct (l_dir (lget n st)); intros H; inversion H; [apply frame_lset|apply frame_refl].
Qed.

Lemma create_layer_frame n ty st st' r : create_layer n ty st = (st', r) -> frame n st st'.
Proof.
  unfold create_layer. destruct (read_layer MG n (write_layer n (Some ty) None st)) as [st2 rr] eqn:E.
  intros H. assert (st' = st2) by (destruct rr; inversion H; reflexivity). subst st2.
  eapply frame_trans; [apply write_layer_frame|eapply read_layer_frame; exact E].
Qed.

(* what create_layer leaves behind, from any store *)
Lemma create_layer_post n ty st :
  let l := lget n st in
  create_layer n ty st =
    (lset n (mkLay (Some (match l_dir l with Some d => d | None => fresh_dir end))
                   (Some (Doc (gen_render (Some ty, None)))) (l_sboms l)) st, Ok tt).
Proof.
  cbn zeta. unfold create_layer, write_layer, read_layer. rewrite lget_lset_same. cbn [l_dir l_toml].
  rewrite classify_render. cbn [fst snd md_ok]. reflexivity.
Qed.

Section HandleFacts.
  Variable rm_sboms : bool.

  Theorem handle_layer_frame : forall fuel ty m inv res n st st' calls r,
    handle_layer rm_sboms fuel ty m inv res n st = (st', calls, r) -> frame n st st'.
  Proof.
    induction fuel as [|f IH]; intros ty m inv res n st st' calls r H; cbn [handle_layer] in H;
      destruct (read_layer m n st) as [st1 rr] eqn:ER; pose proof (read_layer_frame _ _ _ _ _ ER) as F1;
      destruct rr as [|oty x| |].
    all: try (destruct (create_layer n ty st1) as [st2 r2] eqn:EC; inversion H; subst;
              eapply frame_trans; [exact F1|eapply create_layer_frame; exact EC]).
    all: try (destruct res as [c|c|];
              [ destruct (replace_layer_types n ty st1) as [st2 r2] eqn:ERp; inversion H; subst;
                eapply frame_trans; [exact F1|eapply replace_with_frame; exact ERp]
              | destruct (create_layer n ty (delete_layer rm_sboms n st1)) as [st2 r2] eqn:EC; inversion H; subst;
                eapply frame_trans; [exact F1|]; eapply frame_trans; [apply delete_layer_frame|eapply create_layer_frame; exact EC]
              | inversion H; subst; exact F1 ]).
    all: try (inversion H; subst; exact F1).
    - (* fuel 0, parse error *)
      destruct (match l_toml (lget n st1) with Some c => classify_content c | None => CSyntax end) as [| |gty gx];
        try (inversion H; subst; exact F1).
      destruct inv as [c|x c|].
      + destruct (create_layer n ty (delete_layer rm_sboms n st1)) as [st2 r2] eqn:EC. inversion H; subst.
        eapply frame_trans; [exact F1|]. eapply frame_trans; [apply delete_layer_frame|eapply create_layer_frame; exact EC].
      + destruct (replace_layer_metadata n x st1) as [st2 [u|e]] eqn:ERp; inversion H; subst;
          (eapply frame_trans; [exact F1|eapply replace_with_frame; exact ERp]).
      + inversion H; subst; exact F1.
    - (* fuel S f, parse error *)
      destruct (match l_toml (lget n st1) with Some c => classify_content c | None => CSyntax end) as [| |gty gx];
        try (inversion H; subst; exact F1).
      destruct inv as [c|x c|].
      + destruct (create_layer n ty (delete_layer rm_sboms n st1)) as [st2 r2] eqn:EC. inversion H; subst.
        eapply frame_trans; [exact F1|]. eapply frame_trans; [apply delete_layer_frame|eapply create_layer_frame; exact EC].
      + destruct (replace_layer_metadata n x st1) as [st2 [u|e]] eqn:ERp.
        * destruct (handle_layer rm_sboms f ty m (IReplace x c) res n st2) as [[st3 calls3] r3] eqn:EH.
          inversion H; subst. eapply frame_trans; [exact F1|]. eapply frame_trans; [eapply replace_with_frame; exact ERp|].
          eapply IH; exact EH.
        * inversion H; subst. eapply frame_trans; [exact F1|eapply replace_with_frame; exact ERp].
      + inversion H; subst; exact F1.
  Qed.
End HandleFacts.

From LV Require Import LayerStoreSpec.

(* ---------- result exactness and post-state of a request ---------- *)
Definition kept_of (m : mty) (inv : inv_dec) (l : lay) : md :=
  match classify_pre m l, inv with
  | PValid x, _ => x
  | PInvalid _, IReplace x _ => x
  | _, _ => None
  end.

Definition exp_post (rm : bool) (ty : ltypes) (m : mty) (inv : inv_dec) (l : lay) (s : lstate) : lay :=
  match s with
  | SRestored _ => mkLay (l_dir l) (Some (Doc (gen_render (Some ty, kept_of m inv l)))) (l_sboms l)
  | SEmptyNew => mkLay (Some fresh_dir) (Some (Doc (gen_render (Some ty, None)))) (l_sboms l)
  | _ => mkLay (Some fresh_dir) (Some (Doc (gen_render (Some ty, None)))) (if rm then [] else l_sboms l)
  end.

Definition inv_ok (m : mty) (inv : inv_dec) : Prop := match inv with IReplace x _ => md_ok m x = true | _ => True end.

Section RequestFacts.
  Variable rm : bool.

  (* the valid-metadata dispatch, from a state whose record for n is known *)
  Lemma valid_dispatch ty res n st d c oty x sb :
    lget n st = mkLay (Some d) (Some c) sb -> classify_content c = CLcm oty x ->
    forall st' r,
      (match res with
       | RErr => (st, Err EBuildpack)
       | RDelete cs => let '(st2, r) := create_layer n ty (delete_layer rm n st) in
                       (st2, match r with Ok _ => Ok (SEmptyRestored cs) | Err e => Err e end)
       | RKeep cs => let '(st2, r) := replace_layer_types n ty st in
                     (st2, match r with Ok _ => Ok (SRestored cs) | Err e => Err e end)
       end) = (st', r) ->
      r = fst (spec_valid res x) /\
      forall s, r = Ok s ->
        lget n st' = match s with
                     | SRestored _ => mkLay (Some d) (Some (Doc (gen_render (Some ty, x)))) sb
                     | _ => mkLay (Some fresh_dir) (Some (Doc (gen_render (Some ty, None)))) (if rm then [] else sb)
                     end.
  Proof.
    intros Hl Hc st' r H. destruct res as [cs|cs|].
    - unfold replace_layer_types, replace_with in H. rewrite Hl in H. cbn [l_toml l_dir l_sboms] in H.
      rewrite Hc in H. inversion H; subst. split; [reflexivity|]. intros s Hs. inversion Hs; subst.
      rewrite lget_lset_same. reflexivity.
    - rewrite create_layer_post in H. unfold delete_layer in H. rewrite lget_lset_same in H.
      cbn [l_dir l_sboms] in H. inversion H; subst. split; [reflexivity|]. intros s Hs. inversion Hs; subst.
      rewrite lget_lset_same. rewrite Hl. reflexivity.
    - inversion H; subst. split; [reflexivity|]. intros s Hs. discriminate.
  Qed.

  Definition dispatch (ty : ltypes) (res : res_dec) (n : bytes) (st : store) : store * result herr lstate :=
    match res with
    | RErr => (st, Err EBuildpack)
    | RDelete cs => let '(st2, r) := create_layer n ty (delete_layer rm n st) in
                    (st2, match r with Ok _ => Ok (SEmptyRestored cs) | Err e => Err e end)
    | RKeep cs => let '(st2, r) := replace_layer_types n ty st in
                  (st2, match r with Ok _ => Ok (SRestored cs) | Err e => Err e end)
    end.

  Lemma handle_valid g ty m inv res n st d c oty x sb :
    lget n st = mkLay (Some d) (Some c) sb -> classify_content c = CLcm oty x -> md_ok m x = true ->
    handle_layer rm g ty m inv res n st = (fst (dispatch ty res n st), [CallRestored x], snd (dispatch ty res n st)).
  Proof.
    intros Hl Hc Hok. unfold dispatch.
    destruct g; cbn [handle_layer]; unfold read_layer; rewrite Hl; cbn [l_dir l_toml]; rewrite Hc, Hok;
      (destruct res as [cs|cs|];
       [ destruct (replace_layer_types n ty st) as [st2 r2]; reflexivity
       | destruct (create_layer n ty (delete_layer rm n st)) as [st2 r2]; reflexivity
       | reflexivity ]).
  Qed.

  Theorem handle_layer_spec : forall f ty m inv res n st st' calls r,
    inv_ok m inv ->
    handle_layer rm (S f) ty m inv res n st = (st', calls, r) ->
    (r, calls) = spec_outcome m inv res (classify_pre m (lget n st)) /\
    forall s, r = Ok s -> lget n st' = exp_post rm ty m inv (lget n st) s.
  Proof.
    intros f ty m inv res n st st' calls r Hinv H.
    cbn [handle_layer] in H. unfold read_layer in H. unfold classify_pre, eff_content, exp_post, kept_of.
    unfold classify_pre, eff_content.
    destruct (lget n st) as [od ot sb] eqn:Hl. cbn [l_dir l_toml l_sboms] in *.
    destruct od as [d|].
    2:{ (* no directory: absent, with or without a stale toml *)
      destruct ot as [c|].
      - rewrite create_layer_post in H. rewrite lget_lset_same in H. cbn [l_dir l_sboms] in H.
        inversion H; subst. split; [reflexivity|]. intros s Hs. inversion Hs; subst.
        rewrite lget_lset_same. reflexivity.
      - rewrite create_layer_post in H. rewrite Hl in H. cbn [l_dir l_sboms] in H.
        inversion H; subst. split; [reflexivity|]. intros s Hs. inversion Hs; subst.
        rewrite lget_lset_same. reflexivity. }
    (* directory exists; normalise a missing toml to the empty document *)
    set (c := match ot with Some c => c | None => doc_empty end) in *.
    set (st1 := match ot with Some _ => st | None => lset n (mkLay (Some d) (Some doc_empty) sb) st end) in *.
    assert (Hl1 : lget n st1 = mkLay (Some d) (Some c) sb).
    { unfold st1, c. destruct ot; [exact Hl|apply lget_lset_same]. }
    destruct (classify_content c) as [| |oty x] eqn:Hc.
    - (* syntax error *)
      rewrite Hl1 in H. cbn [l_toml] in H. rewrite Hc in H. inversion H; subst. split; [reflexivity|]. intros s Hs; discriminate.
    - rewrite Hl1 in H. cbn [l_toml] in H. rewrite Hc in H. inversion H; subst. split; [reflexivity|]. intros s Hs; discriminate.
    - destruct (md_ok m x) eqn:Hok.
      + (* valid metadata *)
        assert (D := valid_dispatch ty res n st1 d c oty x sb Hl1 Hc).
        destruct res as [cs|cs|].
        * destruct (replace_layer_types n ty st1) as [st2 r2] eqn:E. inversion H; subst st' calls r.
          destruct (D st2 _ eq_refl) as [D1 D2].
          split; [cbn [spec_outcome spec_valid fst] in *; rewrite D1; reflexivity|].
          intros s Hs. rewrite (D2 s Hs). rewrite D1 in Hs. inversion Hs; subst. reflexivity.
        * destruct (create_layer n ty (delete_layer rm n st1)) as [st2 r2] eqn:E. inversion H; subst st' calls r.
          destruct (D st2 _ eq_refl) as [D1 D2].
          split; [cbn [spec_outcome spec_valid fst] in *; rewrite D1; reflexivity|].
          intros s Hs. rewrite (D2 s Hs). rewrite D1 in Hs. inversion Hs; subst. reflexivity.
        * inversion H; subst. split; [reflexivity|]. intros s Hs; discriminate.
      + (* metadata does not deserialise as the requested type *)
        rewrite Hl1 in H. cbn [l_toml] in H. rewrite Hc in H.
        destruct inv as [cs|x1 cs|].
        * rewrite create_layer_post in H. unfold delete_layer in H. rewrite lget_lset_same in H. cbn [l_dir l_sboms] in H.
          rewrite Hl1 in H. cbn [l_sboms] in H.
          inversion H; subst. split; [reflexivity|]. intros s Hs. inversion Hs; subst. rewrite lget_lset_same. reflexivity.
        * unfold replace_layer_metadata, replace_with in H. rewrite Hl1 in H. cbn [l_toml l_dir l_sboms] in H. rewrite Hc in H.
          cbn [fst snd] in H.
          set (st2 := lset n (mkLay (Some d) (Some (Doc (gen_render (oty, x1)))) sb) st1) in *.
          assert (Hl2 : lget n st2 = mkLay (Some d) (Some (Doc (gen_render (oty, x1)))) sb) by apply lget_lset_same.
          cbn [inv_ok] in Hinv.
          assert (HV : handle_layer rm f ty m (IReplace x1 cs) res n st2 =
                       (fst (dispatch ty res n st2), [CallRestored x1], snd (dispatch ty res n st2))).
          { eapply handle_valid; [exact Hl2|apply classify_render|exact Hinv]. }
          rewrite HV in H. clear HV.
          assert (D := valid_dispatch ty res n st2 d (Doc (gen_render (oty, x1))) oty x1 sb Hl2 (classify_render (oty, x1))).
          fold (dispatch ty res n st2) in D.
          destruct (dispatch ty res n st2) as [st3 r3] eqn:E. cbn [fst snd] in H. inversion H; subst st' calls r.
          destruct (D st3 r3 eq_refl) as [D1 D2].
          split; [cbn [spec_outcome spec_valid fst] in *; rewrite D1; reflexivity|].
          intros s Hs. rewrite (D2 s Hs). rewrite D1 in Hs.
          destruct res as [cs'|cs'|]; cbn [spec_valid fst] in Hs; inversion Hs; subst; reflexivity.
        * inversion H; subst. split; [reflexivity|]. intros s Hs; discriminate.
  Qed.
End RequestFacts.

(* ---------- requests (BuildContext::cached_layer / uncached_layer) ---------- *)
Theorem request_result rm q n st st' calls r :
  inv_valid q = true -> do_request rm q n st = (st', calls, r) ->
  (r, calls) = spec_request q (classify_pre (req_mty q) (lget n st)).
Proof.
  intros Hv H. destruct q as [l bd m inv res|l bd]; cbn [do_request] in H.
  - apply (handle_layer_spec rm 2 (mkT l bd true) m inv res n st st' calls r); [|exact H].
    destruct inv; cbn in *; auto.
  - destruct (handle_layer rm 3 (mkT l bd false) MG (IDelete 0) (RDelete 0) n st) as [[st2 calls2] r2] eqn:E.
    inversion H; subst. destruct (handle_layer_spec rm 2 (mkT l bd false) MG (IDelete 0) (RDelete 0) n st _ _ _ I E) as [H1 _].
    cbn [spec_request req_mty]. rewrite <- H1. reflexivity.
Qed.

Theorem request_frame rm q n st st' calls r : do_request rm q n st = (st', calls, r) -> frame n st st'.
Proof.
  destruct q as [l bd m inv res|l bd]; cbn [do_request]; intros H.
  - eapply handle_layer_frame; exact H.
  - destruct (handle_layer rm 3 (mkT l bd false) MG (IDelete 0) (RDelete 0) n st) as [[st2 calls2] r2] eqn:E.
    inversion H; subst. eapply handle_layer_frame; exact E.
Qed.

Definition req_inv (q : request) : inv_dec := match q with QCached _ _ _ inv _ => inv | QUncached _ _ => IDelete 0 end.

Theorem request_post rm q n st st' calls s :
  inv_valid q = true -> do_request rm q n st = (st', calls, Ok s) ->
  lget n st' = exp_post rm (req_types q) (req_mty q) (req_inv q) (lget n st) s.
Proof.
  intros Hv H. destruct q as [l bd m inv res|l bd]; cbn [do_request] in H.
  - destruct (handle_layer_spec rm 2 (mkT l bd true) m inv res n st st' calls (Ok s)) as [_ H2]; [|exact H|].
    + destruct inv; cbn in *; auto.
    + apply H2. reflexivity.
  - destruct (handle_layer rm 3 (mkT l bd false) MG (IDelete 0) (RDelete 0) n st) as [[st2 calls2] r2] eqn:E.
    inversion H; subst. destruct (handle_layer_spec rm 2 (mkT l bd false) MG (IDelete 0) (RDelete 0) n st _ _ _ I E) as [_ H2]. apply H2. reflexivity.
Qed.

(* an uncached layer is never reported as restored *)
Theorem uncached_never_restored rm l bd n st st' calls s :
  do_request rm (QUncached l bd) n st = (st', calls, Ok s) -> is_restored s = false.
Proof.
  intros H. pose proof (request_result rm (QUncached l bd) n st st' calls (Ok s) eq_refl H) as R.
  cbn [spec_request] in R. destruct (classify_pre (req_mty (QUncached l bd)) (lget n st)); cbn in R; inversion R; reflexivity.
Qed.

(* ---------- histories ---------- *)
Inductive op := OReq (n : bytes) (q : request) (ws : list wop) | OCorrupt (n : bytes) (c : option content) | ORestore.

Section History.
  Variable sfx : list bytes.
  Variable order : list beh.
  Variable wtab : writer_table.

  Definition run_writes (n : bytes) (ws : list wop) (st : store) : store :=
    fold_left (fun s w => fst (do_write sfx order wtab n w s)) ws st.

  Definition step (st : store) (o : op) : store :=
    match o with
    | OReq n q ws =>
        let '(st1, _, r) := do_request true q n st in
        match r with Ok _ => run_writes n ws st1 | Err _ => st1 end
    | OCorrupt n c => corrupt n c st
    | ORestore => restore st
    end.

  Definition good (l : lay) : Prop := l_dir l = None -> l_sboms l = [].
  Definition Inv (st : store) : Prop := forall n, good (lget n st).

  Lemma Inv_nil : Inv [].
  Proof. intros n _. reflexivity. Qed.

  Lemma Inv_lset n v st : Inv st -> good v -> Inv (lset n v st).
  Proof.
    intros H Hv n'. destruct (beq n' n) eqn:E.
    - apply beq_spec in E. subst. rewrite lget_lset_same. exact Hv.
    - rewrite lget_lset_other; [apply H|]. intros ->. rewrite beq_refl in E. discriminate.
  Qed.

  Lemma read_layer_inv m n st st' r : Inv st -> read_layer m n st = (st', r) -> Inv st'.
  Proof.
    intros HI. unfold read_layer. pose proof (HI n) as G. unfold good in G.
    destruct (l_dir (lget n st)) as [d|], (l_toml (lget n st)) as [c|]; intros H.
    - destruct (classify_content c) as [| |ty x]; [inversion H; subst; exact HI|inversion H; subst; exact HI|].
      destruct (md_ok m x); inversion H; subst; exact HI.
    - assert (HI' : Inv (lset n (mkLay (Some d) (Some doc_empty) (l_sboms (lget n st))) st)) by (apply Inv_lset; [exact HI|intros X; discriminate]).
      destruct (classify_content doc_empty) as [| |ty x]; [inversion H; subst; exact HI'|inversion H; subst; exact HI'|].
      destruct (md_ok m x); inversion H; subst; exact HI'.
    - inversion H; subst. apply Inv_lset; [exact HI|]. intros _. cbn. apply G. reflexivity.
    - inversion H; subst. exact HI.
  Qed.

  Lemma create_layer_inv n ty st st' r : Inv st -> create_layer n ty st = (st', r) -> Inv st'.
  Proof. intros HI. rewrite create_layer_post. intros H; inversion H; subst. apply Inv_lset; [exact HI|intros X; discriminate]. Qed.

  Lemma delete_layer_inv n st : Inv st -> Inv (delete_layer true n st).
  Proof. intros HI. apply Inv_lset; [exact HI|]. intros _. reflexivity. Qed.

  Lemma replace_with_inv n f st st' r : Inv st -> replace_with n f st = (st', r) -> Inv st'.
  Proof.
    intros HI. unfold replace_with. destruct (l_toml (lget n st)) as [c|]; [|intros H; inversion H; subst; exact HI].
    destruct (classify_content c); intros H; inversion H; subst; try exact HI.
    apply Inv_lset; [exact HI|]. exact (HI n).
  Qed.

  Lemma handle_layer_inv : forall fuel ty m inv res n st st' calls r,
    Inv st -> handle_layer true fuel ty m inv res n st = (st', calls, r) -> Inv st'.
  Proof.
    induction fuel as [|f IH]; intros ty m inv res n st st' calls r HI H; cbn [handle_layer] in H;
      destruct (read_layer m n st) as [st1 rr] eqn:ER; pose proof (read_layer_inv _ _ _ _ _ HI ER) as I1;
      destruct rr as [|oty x0| |].
    all: try solve [destruct (create_layer n ty st1) as [st2 r2] eqn:EC; inversion H; subst; eapply create_layer_inv; [exact I1|exact EC]].
    all: try solve [destruct res as [c|c|];
              [ destruct (replace_layer_types n ty st1) as [st2 r2] eqn:ERp; inversion H; subst; eapply replace_with_inv; [exact I1|exact ERp]
              | destruct (create_layer n ty (delete_layer true n st1)) as [st2 r2] eqn:EC; inversion H; subst;
                eapply create_layer_inv; [apply delete_layer_inv; exact I1|exact EC]
              | inversion H; subst; exact I1 ]].
    all: try solve [inversion H; subst; exact I1].
    - destruct (match l_toml (lget n st1) with Some c => classify_content c | None => CSyntax end) as [| |gty gx];
        try (inversion H; subst; exact I1).
      destruct inv as [c|x c|].
      + destruct (create_layer n ty (delete_layer true n st1)) as [st2 r2] eqn:EC. inversion H; subst.
        eapply create_layer_inv; [apply delete_layer_inv; exact I1|exact EC].
      + destruct (replace_layer_metadata n x st1) as [st2 [u|e]] eqn:ERp; inversion H; subst; (eapply replace_with_inv; [exact I1|exact ERp]).
      + inversion H; subst; exact I1.
    - destruct (match l_toml (lget n st1) with Some c => classify_content c | None => CSyntax end) as [| |gty gx];
        try (inversion H; subst; exact I1).
      destruct inv as [c|x c|].
      + destruct (create_layer n ty (delete_layer true n st1)) as [st2 r2] eqn:EC. inversion H; subst.
        eapply create_layer_inv; [apply delete_layer_inv; exact I1|exact EC].
      + destruct (replace_layer_metadata n x st1) as [st2 [u|e]] eqn:ERp.
        * destruct (handle_layer true f ty m (IReplace x c) res n st2) as [[st3 calls3] r3] eqn:EH.
          inversion H; subst. eapply IH; [eapply replace_with_inv; [exact I1|exact ERp]|exact EH].
        * inversion H; subst. eapply replace_with_inv; [exact I1|exact ERp].
      + inversion H; subst; exact I1.
  Qed.

  Lemma do_request_inv q n st st' calls r : Inv st -> do_request true q n st = (st', calls, r) -> Inv st'.
  Proof.
    intros HI. destruct q as [l bd m inv res|l bd]; cbn [do_request]; intros H.
    - eapply handle_layer_inv; eauto.
    - destruct (handle_layer true 3 (mkT l bd false) MG (IDelete 0) (RDelete 0) n st) as [[st2 calls2] r2] eqn:E.
      inversion H; subst. eapply handle_layer_inv; eauto.
  Qed.

  Lemma on_dir_inv n f e1 e2 st st' r : Inv st -> on_dir n f e1 e2 st = (st', r) -> Inv st'.
  Proof.
    intros HI. unfold on_dir. destruct (l_dir (lget n st)) as [d|]; [|intros H; inversion H; subst; exact HI].
    destruct (f d) as [d' r']. intros H; inversion H; subst. apply Inv_lset; [exact HI|intros X; discriminate].
  Qed.

  Lemma do_write_inv n w st : Inv st -> Inv (fst (do_write sfx order wtab n w st)).
  Proof.
    intros HI. destruct w as [x|l|l|p|rel data|rel t]; cbn [do_write].
    - destruct (replace_layer_metadata n x st) as [st' r] eqn:E. eapply replace_with_inv; eauto.
    - destruct (on_dir n _ EWriteIo (fun _ => EWriteIo) st) as [st' r] eqn:E. eapply on_dir_inv; eauto.
    - unfold replace_layer_sboms. destruct (l_dir (lget n st)) eqn:Ed; cbn [fst]; [|exact HI].
      apply Inv_lset; [exact HI|]. intros X. cbn in X. congruence.
    - unfold replace_layer_exec_d. destruct (on_dir n _ EMissingLayer _ st) as [st' r] eqn:E. eapply on_dir_inv; eauto.
    - destruct (on_dir n _ EWriteIo (fun _ => EWriteIo) st) as [st' r] eqn:E. eapply on_dir_inv; eauto.
    - destruct (on_dir n _ EWriteIo (fun _ => EWriteIo) st) as [st' r] eqn:E. eapply on_dir_inv; eauto.
  Qed.

  Lemma run_writes_inv n ws : forall st, Inv st -> Inv (run_writes n ws st).
  Proof. induction ws as [|w ws IH]; intros st HI; [exact HI|]. apply IH, do_write_inv, HI. Qed.

  Lemma lget_map (f : lay -> lay) n st : f lay_empty = lay_empty -> lget n (map (fun kv => (fst kv, f (snd kv))) st) = f (lget n st).
  Proof.
    intros Hf. induction st as [|[k v] r IH]; cbn [map lget fst snd]; [symmetry; exact Hf|].
    destruct (beq n k); [reflexivity|exact IH].
  Qed.

  Lemma lget_restore n st : lget n (restore st) = restore_lay (lget n st).
  Proof. apply lget_map. reflexivity. Qed.

  Lemma restore_lay_good l : good l -> good (restore_lay l).
  Proof.
    intros G. unfold restore_lay. destruct (l_toml l) as [c|]; [|intros _; reflexivity].
    destruct (classify_content c) as [| |[ty|] x]; try (intros _; reflexivity).
    destruct (t_cache ty); [exact G|]. destruct (t_launch ty); intros _; reflexivity.
  Qed.

  Theorem step_inv st o : Inv st -> Inv (step st o).
  Proof.
    intros HI. destruct o as [n q ws|n c|]; cbn [step].
    - destruct (do_request true q n st) as [[st1 calls] r] eqn:E. pose proof (do_request_inv _ _ _ _ _ _ HI E) as I1.
      destruct r; [apply run_writes_inv; exact I1|exact I1].
    - unfold corrupt. apply Inv_lset; [exact HI|]. exact (HI n).
    - intros n. rewrite lget_restore. apply restore_lay_good, HI.
  Qed.

  (* every state reachable from the empty layers directory *)
  Theorem reachable_inv ops : Inv (fold_left step ops []).
  Proof.
    assert (G : forall st, Inv st -> Inv (fold_left step ops st)).
    { induction ops as [|o r IH]; intros st HI; [exact HI|]. apply IH, step_inv, HI. }
    apply G, Inv_nil.
  Qed.

  (* after ANY history: a layer reported as empty is empty -- fresh directory, no metadata, no SBOMs *)
  Theorem empty_is_clean ops q n st' calls s :
    inv_valid q = true ->
    do_request true q n (fold_left step ops []) = (st', calls, Ok s) -> is_restored s = false ->
    lget n st' = mkLay (Some fresh_dir) (Some (Doc (gen_render (Some (req_types q), None)))) [].
  Proof.
    intros Hv H Hs. set (st := fold_left step ops []) in *.
    rewrite (request_post true q n st st' calls s Hv H).
    pose proof (request_result true q n st st' calls (Ok s) Hv H) as R.
    pose proof (reachable_inv ops n) as G. fold st in G. unfold good in G.
    destruct s as [c| |c|c]; [discriminate| | |]; cbn [exp_post]; try reflexivity.
    (* SEmptyNew: only from an absent layer, whose SBOM list is empty by the invariant *)
    f_equal. apply G.
    unfold classify_pre in R. destruct (l_dir (lget n st)); [|reflexivity]. exfalso.
    destruct q as [l bd m inv res|l bd]; cbn [spec_request req_mty] in R;
      destruct (classify_content (eff_content (lget n st))) as [| |oty x]; cbn in R; try discriminate;
      destruct (md_ok _ x); cbn in R; try discriminate.
    all: try (destruct res; cbn in R; discriminate).
    all: try (destruct inv as [c|x1 c|]; cbn in R; try discriminate; destruct res; cbn in R; discriminate).
  Qed.

  (* after ANY history: a layer reported as restored has its directory, SBOMs and metadata intact;
     only the types in its content metadata were refreshed *)
  Theorem restored_is_intact ops q n st' calls c :
    inv_valid q = true ->
    do_request true q n (fold_left step ops []) = (st', calls, Ok (SRestored c)) ->
    let l := lget n (fold_left step ops []) in
    lget n st' = mkLay (l_dir l) (Some (Doc (gen_render (Some (req_types q), kept_of (req_mty q) (req_inv q) l)))) (l_sboms l).
  Proof. intros Hv H. cbn zeta. rewrite (request_post true q n _ st' calls _ Hv H). reflexivity. Qed.

  (* the build-to-build story: what a build leaves in a cached layer is what the next build's
     Keep decision gets back, whatever else happened to other layers *)
  Theorem keep_after_restore st n d ty x sb l bd m inv c :
    lget n st = mkLay (Some d) (Some (Doc (gen_render (Some ty, x)))) sb -> t_cache ty = true -> md_ok m x = true ->
    let '(st', calls, r) := do_request true (QCached l bd m inv (RKeep c)) n (restore st) in
    r = Ok (SRestored c) /\ calls = [CallRestored x] /\
    lget n st' = mkLay (Some d) (Some (Doc (gen_render (Some (mkT l bd true), x)))) sb.
  Proof.
    intros Hl Hc Hok.
    assert (Hr : lget n (restore st) = mkLay (Some d) (Some (Doc (gen_render (None, x)))) sb).
    { rewrite lget_restore, Hl. unfold restore_lay. cbn [l_toml]. rewrite classify_render. cbn [fst snd]. rewrite Hc. reflexivity. }
    cbn [do_request].
    rewrite (handle_valid true 3 (mkT l bd true) m inv (RKeep c) n (restore st) d _ None x sb Hr (classify_render (None, x)) Hok).
    unfold dispatch, replace_layer_types, replace_with. rewrite Hr. cbn [l_toml l_dir l_sboms]. rewrite classify_render.
    cbn [fst snd]. rewrite lget_lset_same. auto.
  Qed.

  (* and what a build leaves in a non-cached layer never comes back as a restored layer *)
  Theorem uncached_does_not_survive st n ty x d sb :
    lget n st = mkLay (Some d) (Some (Doc (gen_render (Some ty, x)))) sb -> t_cache ty = false ->
    l_dir (lget n (restore st)) = None /\ l_sboms (lget n (restore st)) = [].
  Proof.
    intros Hl Hc. rewrite lget_restore, Hl. unfold restore_lay. cbn [l_toml]. rewrite classify_render. cbn [fst snd]. rewrite Hc.
    destruct (t_launch ty); split; reflexivity.
  Qed.
End History.
