(* DepGraph.v -- executable model of libcnb-package/src/dependency_graph.rs:
   create_dependency_graph (first node with a matching id; unknown id = MissingDependency) and
   get_dependencies (petgraph 0.8 DfsPostOrder: explicit stack, discovered/finished maps shared
   across the root nodes).  petgraph is an environment model (trusted base), validated by the
   correspondence stream.  Definitions only. *)
From Coq Require Export List Arith Bool Lia.
Export ListNotations.

Definition mem (x : nat) (l : list nat) : bool := existsb (Nat.eqb x) l.

(* adjacency: node index -> successors in petgraph neighbour-iteration order *)
Definition graph := list (list nat).
Definition succs (g : graph) (u : nat) : list nat := nth u g [].

Record st := mkSt { stack : list nat; disc : list nat; fin : list nat; out : list nat }.

(* one iteration of the loop inside DfsPostOrder::next; None = stack empty (traversal done).
   A returned node (finished.visit(nx) = true) is appended to [out] as get_dependencies does. *)
Definition step (g : graph) (s : st) : option st :=
  match stack s with
  | [] => None
  | nx :: rest =>
      if mem nx (disc s) then
        if mem nx (fin s)
        then Some (mkSt rest (disc s) (fin s) (out s))
        else Some (mkSt rest (disc s) (nx :: fin s) (out s ++ [nx]))
      else
        let d' := nx :: disc s in
        Some (mkSt (rev (filter (fun v => negb (mem v d')) (succs g nx)) ++ nx :: rest) d' (fin s) (out s))
  end.

(* run until the stack is empty; None = out of fuel *)
Fixpoint drain (g : graph) (fuel : nat) (s : st) : option st :=
  match fuel with
  | 0 => None
  | S f => match step g s with None => Some s | Some s' => drain g f s' end
  end.

Definition edge_count (g : graph) : nat := list_sum (map (@length nat) g).
Definition fuel_for (g : graph) : nat := length g + edge_count g + 2.

(* dfs.move_to(idx); while let Some(v) = dfs.next(..) { order.push(v) } *)
Definition visit_root (g : graph) (s : st) (r : nat) : option st :=
  drain g (fuel_for g) (mkSt [r] (disc s) (fin s) (out s)).

Fixpoint visit_roots (g : graph) (s : st) (roots : list nat) : option st :=
  match roots with
  | [] => Some s
  | r :: rs => match visit_root g s r with None => None | Some s' => visit_roots g s' rs end
  end.

Definition st0 : st := mkSt [] [] [] [].

Definition get_dependencies (g : graph) (roots : list nat) : option (list nat) :=
  option_map out (visit_roots g st0 roots).

(* ---- graph construction ---- *)
(* nodes: (id, dependency ids) in discovery order; ids are compared with PartialEq *)
Fixpoint find_index (ids : list nat) (d : nat) (i : nat) : option nat :=
  match ids with
  | [] => None
  | x :: ids' => if Nat.eqb x d then Some i else find_index ids' d (S i)
  end.

Inductive cg_result := CgOk (g : graph) | CgMissing (d : nat).

(* edges of one node, in add_edge order; Err on the first unknown dependency *)
Fixpoint resolve_deps (ids deps : list nat) : nat + list nat :=
  match deps with
  | [] => inr []
  | d :: ds =>
      match find_index ids d 0 with
      | None => inl d
      | Some j => match resolve_deps ids ds with inl e => inl e | inr js => inr (j :: js) end
      end
  end.

Fixpoint create_rows (ids : list nat) (nodes : list (nat * list nat)) : nat + graph :=
  match nodes with
  | [] => inr []
  | (_, deps) :: ns =>
      match resolve_deps ids deps with
      | inl d => inl d
      | inr js =>
          (* petgraph stores outgoing edges as a linked list with the newest first *)
          match create_rows ids ns with inl d => inl d | inr g => inr (rev js :: g) end
      end
  end.

Definition create_graph (nodes : list (nat * list nat)) : cg_result :=
  match create_rows (map fst nodes) nodes with inl d => CgMissing d | inr g => CgOk g end.

(* ---- specification vocabulary ---- *)
Definition edge (g : graph) (u v : nat) : Prop := In v (succs g u).

Inductive reach (g : graph) : nat -> nat -> Prop :=
| reach_refl u : reach g u u
| reach_step u w v : edge g u w -> reach g w v -> reach g u v.

Definition reachable_from (g : graph) (roots : list nat) (x : nat) : Prop :=
  exists r, In r roots /\ reach g r x.

Definition acyclic (g : graph) : Prop :=
  exists rank : nat -> nat, forall u v, edge g u v -> rank v < rank u.

Definition before (v u : nat) (l : list nat) : Prop :=
  exists l1 l2, l = l1 ++ u :: l2 /\ In v l1.

Definition graph_valid (g : graph) : Prop := forall u v, edge g u v -> v < length g.

(* the property, as a relation between (graph, roots) and an output order *)
Definition order_spec (g : graph) (roots out : list nat) : Prop :=
  NoDup out /\ (forall x, In x out <-> reachable_from g roots x) /\
  (forall u v, In u out -> edge g u v -> before v u out).

(* ---- verified boolean oracle for an observed order ---- *)
Fixpoint nodupb (l : list nat) : bool :=
  match l with [] => true | x :: l' => negb (mem x l') && nodupb l' end.

(* every successor of every element occurs strictly earlier *)
Fixpoint deps_firstb (g : graph) (seen : list nat) (l : list nat) : bool :=
  match l with
  | [] => true
  | u :: l' => forallb (fun v => mem v seen) (succs g u) && deps_firstb g (u :: seen) l'
  end.

Definition chk_order (g : graph) (roots out : list nat) : bool :=
  nodupb out && deps_firstb g [] out && forallb (fun r => mem r out) roots &&
  (* nothing unreachable: every element is a root or a successor of some element of out *)
  forallb (fun x => mem x roots || existsb (fun u => mem x (succs g u)) out) out.
