(* LayerEnvFacts.v -- proofs about the LayerEnv model (C04; reused by C03, C10). *)
From LV Require Import Base LayerEnv.
From Coq Require Import Permutation.

(* ---------- one loop step, seen from one variable ---------- *)

Definition upd (d : delta) (b : beh) (n v : bytes) (prev : option bytes) : option bytes :=
  match b with
  | Override => Some v
  | Default => match prev with Some _ => prev | None => Some v end
  | Append => Some (join_append prev (delimiter_for d n) v)
  | Prepend => Some (join_prepend prev (delimiter_for d n) v)
  | Delim => prev
  end.

Lemma step_other d b e n v n' : n' <> n -> bget n' (delta_step d b e (n, v)) = bget n' e.
Proof.
  intros NE. unfold delta_step. destruct b.
  - now rewrite bget_set_other.
  - destruct (bget n e); [reflexivity|]. now rewrite bget_set_other.
  - reflexivity.
  - now rewrite bget_set_other.
  - now rewrite bget_set_other.
Qed.

Lemma step_same d b e n v : bget n (delta_step d b e (n, v)) = upd d b n v (bget n e).
Proof.
  unfold delta_step, upd. destruct b.
  - rewrite bget_set_same. unfold join_append. destruct (bget n e) as [[|x p]|]; reflexivity.
  - destruct (bget n e) eqn:E; [exact E|]. now rewrite bget_set_same.
  - reflexivity.
  - now rewrite bget_set_same.
  - rewrite bget_set_same. unfold join_prepend. destruct (bget n e) as [[|x p]|]; reflexivity.
Qed.

Lemma step_sorted d b e kv : bsorted e -> bsorted (delta_step d b e kv).
Proof.
  destruct kv as [n v]. intros S. unfold delta_step. destruct b; try (apply bset_sorted; exact S).
  - destruct (bget n e); [exact S|]. apply bset_sorted; exact S.
  - exact S.
Qed.

Lemma fold_phase d b n (l : bmap bytes) : bsorted l -> forall e,
  bget n (fold_left (delta_step d b) l e) =
  match bget n l with Some v => upd d b n v (bget n e) | None => bget n e end.
Proof.
  induction l as [|[k v] l IH]; intros S e; cbn [fold_left bget]; [reflexivity|].
  destruct S as [A S]. rewrite (IH S).
  destruct (beq n k) eqn:E.
  - apply beq_spec in E. subst k. rewrite (bget_above n l A). apply step_same.
  - apply beq_neq in E. now rewrite step_other.
Qed.

Lemma fold_phase_sorted d b (l : bmap bytes) e : bsorted e -> bsorted (fold_left (delta_step d b) l e).
Proof.
  revert e. induction l as [|kv l IH]; intros e S; cbn [fold_left]; [exact S|].
  apply IH. now apply step_sorted.
Qed.

(* ---------- LayerEnvDelta::apply, per variable ---------- *)

Lemma delta_apply_var d e n : delta_wf d ->
  bget n (delta_apply spec_beh_order d e) = var_spec d n (bget n e).
Proof.
  intros (S1 & S2 & S3 & S4 & S5).
  unfold delta_apply, spec_beh_order. cbn [fold_left dget].
  rewrite (fold_phase d Prepend n _ S5), (fold_phase d Override n _ S4),
          (fold_phase d Delim n _ S3), (fold_phase d Default n _ S2),
          (fold_phase d Append n _ S1).
  unfold var_spec, upd.
  destruct (bget n (d_append d)), (bget n (d_default d)), (bget n (d_delim d)) eqn:ED,
           (bget n (d_override d)), (bget n (d_prepend d)), (bget n e);
    reflexivity.
Qed.

Lemma delta_apply_sorted order d e : bsorted e -> bsorted (delta_apply order d e).
Proof.
  unfold delta_apply. revert e. induction order as [|b o IH]; intros e S; cbn [fold_left]; [exact S|].
  apply IH. now apply fold_phase_sorted.
Qed.

(* ---------- LayerEnv::apply ---------- *)

Lemma fold_deltas_var ds n : Forall delta_wf ds -> forall e,
  bget n (fold_left (fun acc d => delta_apply spec_beh_order d acc) ds e) =
  fold_left (fun v d => var_spec d n v) ds (bget n e).
Proof.
  induction ds as [|d ds IH]; intros F e; cbn [fold_left]; [reflexivity|].
  inversion F as [|? ? Hd Hds]; subst. rewrite (IH Hds). now rewrite delta_apply_var.
Qed.

Lemma deltas_for_wf t e s : le_wf e -> Forall delta_wf (deltas_for t e s).
Proof.
  intros (W1 & W2 & W3 & W4 & W5 & W6 & W7). unfold deltas_for.
  apply Forall_flat_map. apply Forall_forall. intros f _.
  destruct f; cbn [field_deltas]; try (constructor; [assumption|constructor]).
  destruct s; try constructor.
  destruct (bget p (le_process e)) eqn:G; [|constructor].
  constructor; [|constructor]. apply bget_in in G. eapply W5; eauto.
Qed.

Theorem per_variable t e s e0 n : le_wf e ->
  bget n (le_apply spec_beh_order t e s e0) =
  fold_left (fun v d => var_spec d n v) (deltas_for t e s) (bget n e0).
Proof. intros W. unfold le_apply. apply fold_deltas_var. now apply deltas_for_wf. Qed.

Lemma le_apply_sorted order t e s e0 : bsorted e0 -> bsorted (le_apply order t e s e0).
Proof.
  unfold le_apply. generalize (deltas_for t e s). intros ds. revert e0.
  induction ds as [|d ds IH]; intros e0 S; cbn [fold_left]; [exact S|].
  apply IH. now apply delta_apply_sorted.
Qed.

(* a variable with no entry in a delta is left alone by it *)
Definition delta_mentions (d : delta) (n : bytes) : bool :=
  match bget n (d_append d), bget n (d_default d), bget n (d_override d), bget n (d_prepend d) with
  | None, None, None, None => false
  | _, _, _, _ => true
  end.

Lemma var_spec_unmentioned d n v : delta_mentions d n = false -> var_spec d n v = v.
Proof.
  unfold delta_mentions, var_spec.
  destruct (bget n (d_append d)), (bget n (d_default d)), (bget n (d_override d)),
           (bget n (d_prepend d)); try discriminate. reflexivity.
Qed.

Theorem frame t e s e0 n : le_wf e ->
  (forall d, In d (deltas_for t e s) -> delta_mentions d n = false) ->
  bget n (le_apply spec_beh_order t e s e0) = bget n e0.
Proof.
  intros W H. rewrite per_variable by exact W.
  generalize dependent (bget n e0). induction (deltas_for t e s) as [|d ds IH]; intros v; cbn [fold_left].
  - reflexivity.
  - rewrite var_spec_unmentioned by (apply H; now left). apply IH. intros d' I'. apply H. now right.
Qed.

(* ---------- inserts ---------- *)

Lemma delta_empty_wf : delta_wf delta_empty.
Proof. repeat split. Qed.

Lemma dinsert_wf b n v d : delta_wf d -> delta_wf (dinsert b n v d).
Proof.
  intros (S1 & S2 & S3 & S4 & S5). destruct b; cbn [dinsert]; unfold delta_wf; cbn;
    repeat split; try assumption; apply bset_sorted; assumption.
Qed.

Lemma le_empty_wf : le_wf le_empty.
Proof.
  pose proof delta_empty_wf as D. unfold le_wf, le_empty.
  cbn [le_all le_build le_launch le_process le_paths_build le_paths_launch].
  repeat (split; [first [exact D | exact I | (intros ? ? [])]|]). first [exact D | exact I].
Qed.

Lemma le_insert_wf s b n v e : le_wf e -> le_wf (le_insert s b n v e).
Proof.
  intros (W1 & W2 & W3 & W4 & W5 & W6 & W7). destruct s; unfold le_wf, le_insert;
    cbn [le_all le_build le_launch le_process le_paths_build le_paths_launch];
    refine (conj _ (conj _ (conj _ (conj _ (conj _ (conj _ _))))));
    try assumption; try (apply dinsert_wf; assumption).
  - apply bset_sorted; assumption.
  - intros p' d' I'. apply in_bset in I' as [[-> ->]|I'].
    + apply dinsert_wf. destruct (bget p (le_process e)) eqn:G.
      * apply bget_in in G. eapply W5; eauto.
      * apply delta_empty_wf.
    + eapply W5; eauto.
Qed.

Lemma le_of_inserts_wf l : le_wf (le_of_inserts l).
Proof.
  unfold le_of_inserts. generalize le_empty_wf. generalize le_empty.
  induction l as [|[[[s b] n] v] l IH]; intros e W; cbn [fold_left]; [exact W|].
  apply IH. now apply le_insert_wf.
Qed.

(* key of an insert: (scope, behaviour, name) *)
Definition scope_eqb (a b : scope) : bool :=
  match a, b with
  | SAll, SAll | SBuild, SBuild | SLaunch, SLaunch => true
  | SProcess p, SProcess q => beq p q
  | _, _ => false
  end.
Lemma scope_eqb_spec a b : scope_eqb a b = true <-> a = b.
Proof.
  destruct a, b; cbn; split; intro H; try reflexivity; try discriminate.
  - apply beq_spec in H. now subst.
  - injection H as ->. apply beq_refl.
Qed.
Lemma beh_eqb_spec a b : beh_eqb a b = true <-> a = b.
Proof. destruct a, b; cbn; split; intro H; try reflexivity; discriminate. Qed.

Definition ikey (i : ins) : scope * beh * bytes := let '(s, b, n, _) := i in (s, b, n).

Lemma dinsert_comm b1 n1 v1 b2 n2 v2 d : delta_wf d -> (b1, n1) <> (b2, n2) ->
  dinsert b1 n1 v1 (dinsert b2 n2 v2 d) = dinsert b2 n2 v2 (dinsert b1 n1 v1 d).
Proof.
  intros (S1 & S2 & S3 & S4 & S5) NE.
  destruct b1, b2; cbn [dinsert d_append d_default d_delim d_override d_prepend]; try reflexivity;
    f_equal; apply bset_comm; try assumption; congruence.
Qed.

Lemma dinsert_idem b n v1 v2 d : delta_wf d ->
  dinsert b n v2 (dinsert b n v1 d) = dinsert b n v2 d.
Proof.
  intros (S1 & S2 & S3 & S4 & S5).
  destruct b; cbn [dinsert d_append d_default d_delim d_override d_prepend];
    f_equal; apply bset_idem; assumption.
Qed.

Lemma le_insert_comm s1 b1 n1 v1 s2 b2 n2 v2 e : le_wf e -> (s1, b1, n1) <> (s2, b2, n2) ->
  le_insert s1 b1 n1 v1 (le_insert s2 b2 n2 v2 e) = le_insert s2 b2 n2 v2 (le_insert s1 b1 n1 v1 e).
Proof.
  intros (W1 & W2 & W3 & W4 & W5 & W6 & W7) NE.
  destruct s1 as [| | |p1], s2 as [| | |p2];
    cbn [le_insert le_all le_build le_launch le_process le_paths_build le_paths_launch];
    try reflexivity;
    try (f_equal; apply dinsert_comm; [assumption|congruence]).
  f_equal.
  assert (Wd : forall p, delta_wf (match bget p (le_process e) with Some d => d | None => delta_empty end)).
  { intros p. destruct (bget p (le_process e)) eqn:G; [|apply delta_empty_wf].
    apply bget_in in G. eapply W5; eauto. }
  destruct (beq p1 p2) eqn:E.
  - apply beq_spec in E. subst p2. rewrite !bget_set_same.
    rewrite !bset_idem by assumption. f_equal. apply dinsert_comm; [apply Wd|congruence].
  - apply beq_neq in E. rewrite !bget_set_other by congruence.
    apply bset_comm; [assumption|exact E].
Qed.

Lemma le_insert_idem s b n v1 v2 e : le_wf e ->
  le_insert s b n v2 (le_insert s b n v1 e) = le_insert s b n v2 e.
Proof.
  intros (W1 & W2 & W3 & W4 & W5 & W6 & W7).
  destruct s; cbn [le_insert le_all le_build le_launch le_process le_paths_build le_paths_launch];
    try (f_equal; apply dinsert_idem; assumption).
  rewrite bget_set_same, bset_idem by assumption. f_equal. f_equal. apply dinsert_idem.
  destruct (bget p (le_process e)) eqn:G; [|apply delta_empty_wf].
  apply bget_in in G. eapply W5; eauto.
Qed.

Definition ins_apply (e : layer_env) (i : ins) : layer_env :=
  let '(s, b, n, v) := i in le_insert s b n v e.

Lemma ins_apply_wf e i : le_wf e -> le_wf (ins_apply e i).
Proof. destruct i as [[[s b] n] v]. apply le_insert_wf. Qed.

Lemma fold_ins_wf l e : le_wf e -> le_wf (fold_left ins_apply l e).
Proof. revert e; induction l as [|i l IH]; intros e W; cbn [fold_left]; auto using ins_apply_wf. Qed.

Lemma le_of_inserts_fold l : le_of_inserts l = fold_left ins_apply l le_empty.
Proof. reflexivity. Qed.

(* Insertion order is irrelevant when keys are pairwise distinct. *)
Theorem insert_order l1 l2 : Permutation l1 l2 -> NoDup (map ikey l1) ->
  forall e, le_wf e -> fold_left ins_apply l1 e = fold_left ins_apply l2 e.
Proof.
  induction 1 as [|x l l' P IH|x y l|l l' l'' P1 IH1 P2 IH2]; intros ND e W.
  - reflexivity.
  - cbn [fold_left]. cbn [map] in ND. inversion ND; subst. apply IH; [assumption|now apply ins_apply_wf].
  - cbn [fold_left]. f_equal. cbn [map] in ND.
    destruct x as [[[s1 b1] n1] v1], y as [[[s2 b2] n2] v2]. cbn [ins_apply].
    inversion ND as [|? ? NI _]; subst. cbn [ikey] in NI.
    apply le_insert_comm; [exact W|]. intro E. apply NI. left. exact E.
  - rewrite IH1 by assumption. apply IH2; [|assumption].
    eapply Permutation_NoDup; [|exact ND]. now apply Permutation_map.
Qed.

(* Re-inserting a key: the last value wins. *)
Theorem insert_last_wins s b n v1 v2 e : le_wf e ->
  le_insert s b n v2 (le_insert s b n v1 e) = le_insert s b n v2 e.
Proof. apply le_insert_idem. Qed.

(* ---------- entries of other scopes have no effect ---------- *)

Definition scope_relevant (s' s : scope) : bool :=
  match s' with
  | SAll => true
  | _ => scope_eqb s' s
  end.

Theorem other_scopes_inert order e s s' b n v e0 :
  scope_relevant s' s = false ->
  le_apply order spec_scope_table (le_insert s' b n v e) s e0 = le_apply order spec_scope_table e s e0.
Proof.
  intros R. unfold le_apply. f_equal. unfold deltas_for.
  destruct s' as [| | |p']; [discriminate| | |];
    destruct s as [| | |p]; cbn in R; try discriminate; try reflexivity.
  cbn. rewrite bget_set_other; [reflexivity|]. apply beq_neq. now rewrite beq_sym.
Qed.

(* ---------- verified oracle ---------- *)

(* spec of one application, as a relation between inputs and an observed result *)
Definition apply_spec (e : layer_env) (s : scope) (e0 out : env) : Prop :=
  bsorted out /\
  forall n, bget n out =
            fold_left (fun v d => var_spec d n v) (deltas_for spec_scope_table e s) (bget n e0).

Definition chk_apply (e : layer_env) (s : scope) (e0 out : env) : bool :=
  bsortedb out && bytes_map_eqb out (le_apply spec_beh_order spec_scope_table e s e0).

Theorem chk_apply_correct e s e0 out : le_wf e -> bsorted e0 ->
  chk_apply e s e0 out = true <-> apply_spec e s e0 out.
Proof.
  intros W S0. unfold chk_apply, apply_spec, bytes_map_eqb.
  rewrite andb_true_iff, bsortedb_spec, (bmap_eqb_spec beq beq_spec).
  split.
  - intros [S ->]. split; [exact S|]. intros n. now apply per_variable.
  - intros [S H]. split; [exact S|]. apply bmap_ext; [exact S|now apply le_apply_sorted|].
    intros n. rewrite H. symmetry. now apply per_variable.
Qed.
