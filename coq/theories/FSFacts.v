(* FSFacts.v -- laws of the association-list file system and frame lemmas of the primitives. *)
From LV Require Import Base Toml FS.

(* ---------- path equality / prefix ---------- *)
Lemma path_eqb_spec a b : path_eqb a b = true <-> a = b.
Proof. apply list_eqb_spec. apply beq_spec. Qed.
Lemma path_eqb_refl a : path_eqb a a = true.
Proof. now apply path_eqb_spec. Qed.
Lemma path_eqb_neq a b : path_eqb a b = false <-> a <> b.
Proof.
  split; intro H.
  - intro E. apply path_eqb_spec in E. congruence.
  - destruct (path_eqb a b) eqn:E; [|reflexivity]. apply path_eqb_spec in E. contradiction.
Qed.

Lemma is_prefix_spec d q : is_prefix d q = true <-> exists r, q = d ++ r.
Proof.
  revert q. induction d as [|x d IH]; intros q; cbn [is_prefix].
  - split; [intros _; now exists q|reflexivity].
  - destruct q as [|y q]; [split; [discriminate|intros [r E]; discriminate]|].
    rewrite andb_true_iff, beq_spec, IH. split.
    + intros [-> [r ->]]. now exists r.
    + intros [r E]. injection E as -> ->. split; [reflexivity|now exists r].
Qed.

Lemma is_prefix_refl d : is_prefix d d = true.
Proof. apply is_prefix_spec. exists []. now rewrite app_nil_r. Qed.

Lemma is_prefix_app d r : is_prefix d (d ++ r) = true.
Proof. apply is_prefix_spec. now exists r. Qed.

Lemma is_prefix_trans a b c : is_prefix a b = true -> is_prefix b c = true -> is_prefix a c = true.
Proof.
  rewrite !is_prefix_spec. intros [r ->] [r' ->]. exists (r ++ r'). now rewrite app_assoc.
Qed.

(* not under d => not under any extension of d *)
Lemma not_under_ext d n q : is_prefix d q = false -> is_prefix (d ++ n) q = false.
Proof.
  intros H. destruct (is_prefix (d ++ n) q) eqn:E; [|reflexivity].
  rewrite (is_prefix_trans d (d ++ n) q (is_prefix_app d n) E) in H. discriminate.
Qed.

(* ---------- map laws ---------- *)
Lemma pget_pset_same p v s : pget p (pset p v s) = Some v.
Proof.
  induction s as [|[k v'] s IH]; cbn [pset pget].
  - now rewrite path_eqb_refl.
  - destruct (path_eqb p k) eqn:E; cbn [pget]; rewrite E; [reflexivity|exact IH].
Qed.

Lemma pget_pset_other p q v s : q <> p -> pget q (pset p v s) = pget q s.
Proof.
  intros NE. induction s as [|[k v'] s IH]; cbn [pset pget].
  - apply path_eqb_neq in NE. now rewrite NE.
  - destruct (path_eqb p k) eqn:E; cbn [pget].
    + apply path_eqb_spec in E. subst k. apply path_eqb_neq in NE. now rewrite NE.
    + now rewrite IH.
Qed.

Lemma pget_pdel p q s : pget q (pdel p s) = if path_eqb q p then None else pget q s.
Proof.
  unfold pdel. induction s as [|[k v] s IH]; cbn [filter pget fst].
  - now destruct (path_eqb q p).
  - destruct (path_eqb p k) eqn:E; cbn [negb].
    + apply path_eqb_spec in E. subst k. rewrite IH. destruct (path_eqb q p); reflexivity.
    + cbn [pget]. rewrite IH. destruct (path_eqb q p) eqn:E2; [|reflexivity].
      apply path_eqb_spec in E2. subst q. now rewrite E.
Qed.

Lemma pget_pdel_other p q s : q <> p -> pget q (pdel p s) = pget q s.
Proof. intros NE. rewrite pget_pdel. apply path_eqb_neq in NE. now rewrite NE. Qed.

Lemma pget_premove d q s :
  pget q (premove_under d s) = if is_prefix d q then None else pget q s.
Proof.
  unfold premove_under. induction s as [|[k v] s IH]; cbn [filter pget fst].
  - now destruct (is_prefix d q).
  - destruct (is_prefix d k) eqn:E; cbn [negb].
    + rewrite IH. destruct (is_prefix d q) eqn:E2; [reflexivity|].
      destruct (path_eqb q k) eqn:E3; [|reflexivity]. apply path_eqb_spec in E3. congruence.
    + cbn [pget]. rewrite IH. destruct (path_eqb q k) eqn:E3; [|reflexivity].
      apply path_eqb_spec in E3. subst q. now rewrite E.
Qed.

(* ---------- what a state transformer may touch ---------- *)
(* [only_under d s s']: every path not below d has the same entry in s and s' *)
Definition only_under (d : path) (s s' : fs) : Prop :=
  forall q, is_prefix d q = false -> pget q s' = pget q s.

Lemma only_under_refl d s : only_under d s s.
Proof. intros q _. reflexivity. Qed.

Lemma only_under_trans d s1 s2 s3 : only_under d s1 s2 -> only_under d s2 s3 -> only_under d s1 s3.
Proof. intros H1 H2 q N. now rewrite H2, H1. Qed.

Lemma only_under_weaken d n s s' : only_under (d ++ n) s s' -> only_under d s s'.
Proof. intros H q N. apply H. now apply not_under_ext. Qed.

Lemma only_under_pset d v s : only_under d s (pset d v s).
Proof.
  intros q N. apply pget_pset_other. intros ->. now rewrite is_prefix_refl in N.
Qed.

Lemma only_under_pdel d s : only_under d s (pdel d s).
Proof.
  intros q N. apply pget_pdel_other. intros ->. now rewrite is_prefix_refl in N.
Qed.

Lemma only_under_premove d s : only_under d s (premove_under d s).
Proof. intros q N. rewrite pget_premove. now rewrite N. Qed.

(* ---------- resolution of paths whose prefixes are real directories ---------- *)
Definition valid_name (n : name) : bool :=
  negb (is_empty n) && negb (beq n dot) && negb (beq n dotdot) && negb (existsb (N.eqb 47) n).

Definition is_dir_node (o : option node) : Prop := exists m, o = Some (Dir m).
Definition not_link (o : option node) : Prop := forall t, o <> Some (Link t).

(* every proper prefix of cur ++ comps that extends cur is a real directory *)
Definition real_dirs (s : fs) (cur : path) (comps : list name) : Prop :=
  forall k, (k < length comps)%nat -> is_dir_node (pget (cur ++ firstn k comps) s).

Lemma walk_self s fuel : forall cur comps follow rp,
  Forall (fun n => valid_name n = true) comps ->
  real_dirs s cur comps ->
  (follow = true -> not_link (pget (cur ++ comps) s)) ->
  walk s fuel cur comps follow = Ok rp -> rp = cur ++ comps.
Proof.
  induction fuel as [|f IH]; intros cur comps follow rp V R NL W; [discriminate|].
  destruct comps as [|c rest]; cbn [walk] in W.
  - injection W as <-. now rewrite app_nil_r.
  - inversion V as [|? ? Vc Vr]; subst.
    destruct (R 0%nat ltac:(cbn; lia)) as [m Hm]. cbn [firstn] in Hm. rewrite app_nil_r in Hm.
    rewrite Hm in W. destruct (has_x m); cbn [negb] in W; [|discriminate].
    unfold valid_name in Vc. repeat (apply andb_true_iff in Vc as [Vc ?]).
    rewrite negb_true_iff in *.
    replace (is_empty c) with false in W by (symmetry; assumption).
    replace (beq c dot) with false in W by (symmetry; assumption).
    replace (beq c dotdot) with false in W by (symmetry; assumption).
    cbn [orb] in W.
    assert (E : cur ++ c :: rest = (cur ++ [c]) ++ rest) by (now rewrite <- app_assoc).
    assert (R' : real_dirs s (cur ++ [c]) rest).
    { intros k Lk. specialize (R (S k) ltac:(cbn; lia)). cbn [firstn] in R.
      now rewrite <- app_assoc. }
    destruct rest as [|c2 rest'].
    + (* last component *)
      cbn [is_empty andb] in W.
      match type of W with match ?tm with _ => _ end = _ =>
        assert (P0 : tm = pget (cur ++ [c]) s) by reflexivity; revert W;
        destruct tm as [[mm cc|mm|t]|]; intros W; symmetry in P0; rename P0 into P end.
      * now injection W as <-.
      * apply (IH (cur ++ [c]) [] follow rp) in W; [now rewrite app_nil_r in W| constructor | exact R' |].
        intros Hf. rewrite app_nil_r. rewrite P. intros t. discriminate.
      * destruct follow; cbn [negb] in W; [|now injection W as <-].
        exfalso. apply (NL eq_refl t). exact P.
      * now injection W as <-.
    + cbn [is_empty andb] in W.
      destruct (R 1%nat ltac:(cbn; lia)) as [m1 Hm1]. cbn [firstn] in Hm1.
      match type of W with match ?tm with _ => _ end = _ =>
        replace tm with (Some (Dir m1)) in W by (symmetry; exact Hm1) end.
      rewrite E. apply (IH (cur ++ [c]) (c2 :: rest') follow rp); try assumption.
      intros Hf. rewrite <- E. now apply NL.
Qed.

Lemma resolve_self s p follow rp :
  Forall (fun n => valid_name n = true) p -> real_dirs s [] p ->
  (follow = true -> not_link (pget p s)) ->
  resolve s p follow = Ok rp -> rp = p.
Proof. intros V R NL H. unfold resolve in H. now apply walk_self in H. Qed.

(* ---------- frame of each primitive, in terms of the resolved path ---------- *)
Ltac inv_pair H := injection H as <- <-.

Lemma unlink_frame p s s' r : unlink p s = (s', r) ->
  s' = s \/ exists rp, resolve s p false = Ok rp /\ s' = pdel rp s.
Proof.
  unfold unlink. destruct (resolve s p false) as [rp|e] eqn:R; [|intros H; inv_pair H; now left].
  destruct (pget rp s) as [[m c|m|t]|]; try (intros H; inv_pair H; now left).
  - destruct rp; [intros H; inv_pair H; now left|].
    destruct (parent_writable s _); intros H; inv_pair H; [right; eauto|now left].
  - destruct (parent_writable s rp); intros H; inv_pair H; now left.
  - destruct rp; [intros H; inv_pair H; now left|].
    destruct (parent_writable s _); intros H; inv_pair H; [right; eauto|now left].
Qed.

Lemma rmdir_frame p s s' r : rmdir p s = (s', r) ->
  s' = s \/ exists rp, resolve s p false = Ok rp /\ s' = pdel rp s.
Proof.
  unfold rmdir. destruct (resolve s p false) as [rp|e] eqn:R; [|intros H; inv_pair H; now left].
  destruct (pget rp s) as [[m c|m|t]|]; try (intros H; inv_pair H; now left).
  - destruct (parent_writable s rp); intros H; inv_pair H; now left.
  - destruct rp; [intros H; inv_pair H; now left|].
    destruct (parent_writable s _); [|intros H; inv_pair H; now left].
    destruct (children _ s); intros H; inv_pair H; [right; eauto|now left].
  - destruct (parent_writable s rp); intros H; inv_pair H; now left.
Qed.

Lemma chmod_frame p m s s' r : chmod p m s = (s', r) ->
  s' = s \/ exists rp v, resolve s p true = Ok rp /\ s' = pset rp v s.
Proof.
  unfold chmod. destruct (resolve s p true) as [rp|e] eqn:R; [|intros H; inv_pair H; now left].
  destruct (pget rp s) as [[mm c|mm|t]|]; intros H; inv_pair H; eauto.
Qed.

Lemma readdir_state p s s' r : readdir p s = (s', r) -> s' = s.
Proof.
  unfold readdir. destruct (resolve s p true); [|intros H; now inv_pair H].
  destruct (pget _ s) as [[m c|m|t]|]; try (intros H; now inv_pair H).
  destruct (has_r m); intros H; now inv_pair H.
Qed.

Lemma readdir_ok p s s' rp names : readdir p s = (s', Ok (rp, names)) ->
  resolve s p true = Ok rp /\ names = children rp s /\ is_dir_node (pget rp s).
Proof.
  unfold readdir. destruct (resolve s p true) as [rp'|]; [|discriminate].
  destruct (pget rp' s) as [[m c|m|t]|] eqn:G; try discriminate.
  destruct (has_r m); [|discriminate]. intros [= <- <- <-]. repeat split. now exists m.
Qed.

Lemma stat_state f p s s' r : stat_gen f p s = (s', r) -> s' = s.
Proof.
  unfold stat_gen. destruct (resolve s p f); [|intros H; now inv_pair H].
  destruct (pget _ s); intros H; now inv_pair H.
Qed.

Lemma mkdir_frame p s s' r : mkdir p s = (s', r) ->
  s' = s \/ exists rp, resolve s p false = Ok rp /\ pget rp s = None /\ s' = pset rp (Dir mode_dir_default) s.
Proof.
  unfold mkdir. destruct (resolve s p false) as [rp|e] eqn:R; [|intros H; inv_pair H; now left].
  destruct (pget rp s) eqn:G; [intros H; inv_pair H; now left|].
  destruct rp; [intros H; inv_pair H; now left|].
  destruct (parent_writable s _); intros H; inv_pair H; [right; eauto|now left].
Qed.

Lemma write_frame mn km p data s s' r : write_file_mode mn km p data s = (s', r) ->
  s' = s \/ exists rp v, resolve s p true = Ok rp /\ s' = pset rp v s.
Proof.
  unfold write_file_mode. destruct (resolve s p true) as [rp|e] eqn:R; [|intros H; inv_pair H; now left].
  destruct (pget rp s) as [[m c|m|t]|]; try (intros H; inv_pair H; now left).
  - destruct (has_w m); intros H; inv_pair H; eauto.
  - destruct rp; [intros H; inv_pair H; now left|].
    destruct (parent_writable s _); intros H; inv_pair H; eauto.
Qed.

Lemma read_state p s s' r : read_file p s = (s', r) -> s' = s.
Proof.
  unfold read_file. destruct (resolve s p true); [|intros H; now inv_pair H].
  destruct (pget _ s) as [[m c|m|t]|]; try (intros H; now inv_pair H);
    destruct (has_r m); intros H; now inv_pair H.
Qed.

Lemma remove_dir_all_frame p s s' r : remove_dir_all p s = (s', r) ->
  s' = s \/ exists rp, resolve s p false = Ok rp /\ (s' = pdel rp s \/ s' = premove_under rp s).
Proof.
  unfold remove_dir_all. destruct (resolve s p false) as [rp|e] eqn:R; [|intros H; inv_pair H; now left].
  destruct (pget rp s) as [[m c|m|t]|]; try (intros H; inv_pair H; now left).
  - destruct rp; [intros H; inv_pair H; now left|].
    destruct (parent_writable s _); [|intros H; inv_pair H; now left].
    destruct (subtree_rwx _ s); intros H; inv_pair H; [right; eauto|now left].
  - intros H. apply unlink_frame in H as [->|(rp' & R' & ->)]; [now left|].
    right. exists rp. split; [reflexivity|]. left. congruence.
Qed.

(* ---------- a decidable frame oracle ---------- *)
Lemma tv_eqb_spec a b : tv_eqb a b = true <-> a = b.
Proof.
  revert b. induction a as [s|z|x|l IH|l IH] using tv_ind'; intros b; destruct b; cbn [tv_eqb];
    try (split; intro H; discriminate).
  - rewrite beq_spec. split; congruence.
  - rewrite Z.eqb_eq. split; congruence.
  - rewrite Bool.eqb_true_iff. split; congruence.
  - revert l0. induction IH as [|x l Hx _ IHl]; intros [|y l0]; try (split; intro H; try reflexivity; discriminate).
    rewrite andb_true_iff, Hx. specialize (IHl l0). split.
    + intros [-> H]. apply IHl in H. congruence.
    + intros [= -> ->]. split; [reflexivity|]. now apply IHl.
  - revert l0. induction IH as [|[k x] l Hx _ IHl]; intros [|[k' y] l0]; try (split; intro H; try reflexivity; discriminate).
    cbn [snd] in Hx. rewrite !andb_true_iff, beq_spec, Hx. specialize (IHl l0). split.
    + intros [[-> ->] H]. apply IHl in H. congruence.
    + intros [= -> -> ->]. repeat split. now apply IHl.
Qed.

Lemma content_eqb_spec a b : content_eqb a b = true <-> a = b.
Proof.
  destruct a, b; cbn [content_eqb]; try (split; intro H; discriminate).
  - rewrite beq_spec. split; congruence.
  - rewrite tv_eqb_spec. split; congruence.
Qed.

Lemma node_eqb_spec a b : node_eqb a b = true <-> a = b.
Proof.
  destruct a, b; cbn [node_eqb]; split; intro H; try discriminate; try reflexivity.
  - apply andb_true_iff in H as [H1 H2]. apply N.eqb_eq in H1. apply content_eqb_spec in H2. congruence.
  - injection H as -> ->. rewrite N.eqb_refl. cbn. now apply content_eqb_spec.
  - apply N.eqb_eq in H. congruence.
  - injection H as ->. apply N.eqb_refl.
  - apply beq_spec in H. congruence.
  - injection H as ->. apply beq_refl.
Qed.

Definition onode_eqb : option node -> option node -> bool := opt_eqb node_eqb.
Lemma onode_eqb_spec a b : onode_eqb a b = true <-> a = b.
Proof. apply opt_eqb_spec. apply node_eqb_spec. Qed.

(* every path the predicate does not own has the same entry before and after; deciding it on the
   keys of both states suffices because all other paths are absent from both *)
Definition frame_chk (owned : path -> bool) (pre post : fs) : bool :=
  forallb (fun kv => owned (fst kv) || onode_eqb (pget (fst kv) post) (pget (fst kv) pre)) (pre ++ post).

Lemma pget_none_notin q (s : fs) : (forall v, ~ In (q, v) s) -> pget q s = None.
Proof.
  induction s as [|[k v] s IH]; intros H; [reflexivity|]. cbn [pget].
  destruct (path_eqb q k) eqn:E.
  - apply path_eqb_spec in E. subst k. exfalso. apply (H v). now left.
  - apply IH. intros v' I. apply (H v'). now right.
Qed.

Lemma pget_some_in q (s : fs) n : pget q s = Some n -> In (q, n) s.
Proof.
  induction s as [|[k v] s IH]; cbn [pget]; [discriminate|].
  destruct (path_eqb q k) eqn:E.
  - apply path_eqb_spec in E. subst. intros [= ->]. now left.
  - intros H. right. now apply IH.
Qed.

Theorem frame_chk_correct owned pre post :
  frame_chk owned pre post = true <->
  forall q, owned q = false -> pget q post = pget q pre.
Proof.
  unfold frame_chk. rewrite forallb_forall. split.
  - intros H q NO.
    destruct (pget q pre) as [n|] eqn:G1.
    + apply pget_some_in in G1 as I. specialize (H (q, n) ltac:(apply in_app_iff; now left)).
      cbn [fst] in H. rewrite NO in H. cbn [orb] in H. apply onode_eqb_spec in H. congruence.
    + destruct (pget q post) as [n|] eqn:G2; [|reflexivity].
      apply pget_some_in in G2 as I. specialize (H (q, n) ltac:(apply in_app_iff; now right)).
      cbn [fst] in H. rewrite NO in H. cbn [orb] in H. apply onode_eqb_spec in H. congruence.
  - intros H [k v] _. cbn [fst]. destruct (owned k) eqn:O; [reflexivity|]. cbn [orb].
    apply onode_eqb_spec. now apply H.
Qed.
