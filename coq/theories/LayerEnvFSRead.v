(* LayerEnvFSRead.v -- FS-level read-after-write for one env directory (C10): on any file system
   in which the env directory is exactly what write_to_env_dir leaves for a delta d (theorem
   write_env_dir_exact), LayerEnvDelta::read_from_env_dir returns d -- although the directory
   listing comes back sorted by FILE NAME, an order unrelated to the order the files were written
   in.  Composed with write_env_dir_exact: write, then read, is the identity on deltas, for every
   well-formed delta, every layer directory, whatever the env directory held before. *)
From LV Require Import Base FS FSFacts LayerShared LayerSharedFacts LayerSharedGone LayerEnv LayerEnvFacts
  LayerEnvFS LayerEnvFSFacts Determinism FSInv LayerEnvFSExact LayerEnvReadback.
From Coq Require Import Lia Permutation.
Open Scope N_scope.

(* ---------- a directory listing has no duplicates ---------- *)
Fixpoint lsorted (l : list bytes) : Prop :=
  match l with [] => True | x :: l' => (forall y, In y l' -> bcmp x y = Lt) /\ lsorted l' end.

Lemma insert_sorted_sorted x l : lsorted l -> lsorted (insert_sorted x l).
Proof.
  induction l as [|y l IH]; intros S; cbn [insert_sorted].
  - split; [intros ? []|exact I].
  - destruct S as [A S]. destruct (bcmp x y) eqn:C.
    + split; assumption.
    + split; [|split; assumption]. intros z [<-|Hz]; [exact C|]. eapply bcmp_lt_trans; [exact C|apply A, Hz].
    + split; [|apply IH, S]. intros z Hz. apply in_insert_sorted in Hz as [->|Hz]; [apply bcmp_gt_lt, C|apply A, Hz].
Qed.

Lemma lsorted_nodup l : lsorted l -> NoDup l.
Proof.
  induction l as [|x l IH]; intros S; [constructor|]. destruct S as [A S]. constructor; [|apply IH, S].
  intros Hx. pose proof (A x Hx) as C. rewrite bcmp_refl in C. discriminate.
Qed.

Lemma children_sorted d s : lsorted (children d s).
Proof.
  unfold children.
  assert (G : forall acc, lsorted acc ->
    lsorted (fold_left (fun acc kv => match child_of d (fst kv) with Some n => insert_sorted n acc | None => acc end) s acc)).
  { induction s as [|kv s IH]; intros acc S; cbn [fold_left]; [exact S|].
    apply IH. destruct (child_of d (fst kv)); [apply insert_sorted_sorted, S|exact S]. }
  apply G. exact I.
Qed.

Lemma children_nodup d s : NoDup (children d s).
Proof. apply lsorted_nodup, children_sorted. Qed.

Lemma children_pget d s n : In n (children d s) <-> pget (d ++ [n]) s <> None.
Proof.
  rewrite children_spec. split.
  - intros [v Hv]. eapply in_pget; eauto.
  - intros H. destruct (pget (d ++ [n]) s) as [v|] eqn:E; [|congruence]. exists v. apply pget_in, E.
Qed.

(* ---------- resolving a simple directory itself ---------- *)
Lemma resolve_simple s p follow : simple_dir s p -> resolve s p follow = Ok p.
Proof.
  intros [Vn Dd (m & Hm & _)]. unfold resolve.
  apply (walk_simple s (walk_fuel p) [] p follow).
  - unfold walk_fuel. lia.
  - exact Vn.
  - intros k Hk. cbn [List.app]. apply Dd. lia.
  - cbn [List.app]. rewrite Hm. intros t. discriminate.
Qed.

Definition content_at (q : path) (s : fs) : content :=
  match pget q s with Some (File _ c) => c | _ => Raw [] end.

Lemma nodup_fst_unique {A B} (l : list (A * B)) a b b' : NoDup (map fst l) -> In (a, b) l -> In (a, b') l -> b = b'.
Proof.
  induction l as [|[x y] l IH]; intros ND H1 H2; [contradiction|]. cbn [map fst] in ND. inversion ND as [|u v Hu Hv]; subst.
  destruct H1 as [E1|H1], H2 as [E2|H2].
  - congruence.
  - exfalso. injection E1 as -> ->. apply Hu. change a with (fst (a, b')). apply in_map, H2.
  - exfalso. injection E2 as -> ->. apply Hu. change a with (fst (a, b)). apply in_map, H1.
  - apply IH; assumption.
Qed.

Lemma nodup_map_factor {A B C} (f : A -> B) (g : B -> C) l : NoDup (map (fun x => g (f x)) l) -> NoDup (map f l).
Proof.
  induction l as [|a l IH]; intros H; cbn [map] in *; [constructor|]. inversion H as [|u v Hu Hv]; subst.
  constructor; [|apply IH, Hv]. intros Hin. apply Hu. apply in_map_iff in Hin as (x & E & Hx). apply in_map_iff. exists x. split; [now rewrite E|exact Hx].
Qed.

Section Read.
  Variable wtab : writer_table.
  Variable rtab : reader_table.
  Variable no_ext : option beh.
  Variable reads_process : bool.
  Hypothesis T : tables_inverse wtab rtab.

  (* every entry of the directory is a readable regular file: the read is a fold over the listing *)
  Lemma read_env_dir_files p s m :
    simple_dir s p -> pget p s = Some (Dir m) -> has_r m = true ->
    (forall nm, In nm (children p s) -> valid_name nm = true /\ exists fm c, pget (p ++ [nm]) s = Some (File fm c) /\ has_r fm = true) ->
    read_from_env_dir rtab no_ext reads_process p s =
    (s, Ok (parse_files rtab no_ext (map (fun nm => (nm, content_bytes (content_at (p ++ [nm]) s))) (children p s)) delta_empty)).
  Proof.
    intros SD Hp Hr Hall. unfold read_from_env_dir. unfold bindM at 1. unfold readdir.
    rewrite (resolve_simple s p true SD), Hp, Hr. cbn [snd].
    assert (G : forall names (acc : M delta) d0, acc s = (s, Ok d0) ->
      (forall nm, In nm names -> In nm (children p s)) ->
      fold_left (fun (acc : M delta) (nm : name) =>
                 d <- acc ;;
                 skip <- (fun s => (s, Ok (reads_process && is_dir (p ++ [nm]) s))) ;;
                 if skip : bool then ret d
                 else
                   mc <- read_file (p ++ [nm]) ;;
                   let '(stem, ob) := entry_behaviour rtab no_ext nm in
                   ret (match ob with Some b => dinsert b stem (content_bytes (snd mc)) d | None => d end))
              names acc s =
      (s, Ok (parse_files rtab no_ext (map (fun nm => (nm, content_bytes (content_at (p ++ [nm]) s))) names) d0))).
    { induction names as [|nm names IH]; intros acc d0 Hacc Hsub; cbn [fold_left map]; [exact Hacc|].
      unfold parse_files. cbn [fold_left fst snd].
      change (fold_left _ (map _ names) ?x) with (parse_files rtab no_ext (map (fun nm => (nm, content_bytes (content_at (p ++ [nm]) s))) names) x).
      apply IH; [|intros n Hn; apply Hsub; right; exact Hn].
      destruct (Hall nm (Hsub nm (or_introl eq_refl))) as (Hv & fm & c & Hf & Hfr).
      assert (NL : not_link (pget (p ++ [nm]) s)) by (rewrite Hf; intros t; discriminate).
      unfold bindM at 1. rewrite Hacc. unfold bindM at 1.
      unfold is_dir. rewrite (stat_in_dir s p nm SD Hv NL), Hf. rewrite andb_false_r.
      unfold bindM at 1. unfold read_file. rewrite (resolve_in_dir s p nm true SD Hv NL), Hf, Hfr.
      unfold content_at. rewrite Hf. cbn [snd].
      destruct (entry_behaviour rtab no_ext nm) as [stem ob]. reflexivity. }
    apply (G (children p s) (ret delta_empty) delta_empty); [reflexivity|auto].
  Qed.

  (* triples of a delta, in the order its files are written *)
  Definition triples (order : list beh) (d : delta) : list (beh * bytes * bytes) :=
    flat_map (fun b => map (fun kv => (b, fst kv, snd kv)) (dget d b)) order.

  Lemma delta_files_triples order d : delta_files order wtab d = map (file_of wtab) (triples order d).
  Proof.
    unfold delta_files, triples. induction order as [|b order IH]; cbn [flat_map map]; [reflexivity|].
    rewrite map_app, IH. f_equal. rewrite map_map. reflexivity.
  Qed.

  Lemma triples_nonempty order d : delta_names_nonempty d -> forall t, In t (triples order d) -> snd (fst t) <> [].
  Proof.
    intros (N1 & N2 & N3 & N4 & N5) t Ht. unfold triples in Ht. apply in_flat_map in Ht as (b & _ & Ht).
    apply in_map_iff in Ht as ([k v] & <- & Hkv). cbn [fst snd].
    destruct b; cbn [dget] in Hkv; [eapply N1|eapply N2|eapply N3|eapply N4|eapply N5]; exact Hkv.
  Qed.

  (* what a directory that matches the writer's result for d holds *)
  Lemma written_dir_facts d p s :
    files_ok spec_beh_order wtab d -> delta_is_empty d = false ->
    (forall q, is_prefix p q = true -> pget q s = env_dir_spec spec_beh_order wtab d p q) ->
    pget p s = Some (Dir mode_dir_default) /\
    (forall nm c, In (nm, c) (delta_files spec_beh_order wtab d) -> pget (p ++ [nm]) s = Some (File mode_file_default (Raw c))) /\
    (forall nm, pget (p ++ [nm]) s <> None -> exists c, In (nm, c) (delta_files spec_beh_order wtab d)) /\
    (forall nm, In nm (children p s) -> valid_name nm = true /\ exists fm c, pget (p ++ [nm]) s = Some (File fm c) /\ has_r fm = true).
  Proof.
    intros [ND VF] Hne Spec.
    assert (Hp : pget p s = Some (Dir mode_dir_default)).
    { rewrite (Spec p (is_prefix_refl p)). unfold env_dir_spec. rewrite Hne, path_eqb_refl. reflexivity. }
    assert (Below : forall nm, pget (p ++ [nm]) s =
      match find (fun f => path_eqb (p ++ [nm]) (p ++ [fst f])) (delta_files spec_beh_order wtab d) with
      | Some f => Some (File mode_file_default (Raw (snd f))) | None => None end).
    { intros nm. rewrite (Spec _ (is_prefix_app p [nm])). unfold env_dir_spec. rewrite Hne.
      replace (path_eqb (p ++ [nm]) p) with false by (symmetry; apply path_eqb_neq, snoc_neq_self). reflexivity. }
    assert (InFile : forall nm c, In (nm, c) (delta_files spec_beh_order wtab d) ->
                                  pget (p ++ [nm]) s = Some (File mode_file_default (Raw c))).
    { intros nm c Hin. rewrite Below.
      destruct (find _ _) as [f|] eqn:Ef.
      - apply find_some in Ef as [Hf Ek]. apply path_eqb_spec, app_inv_head in Ek. injection Ek as Ek.
        destruct f as [fn fc]. cbn [fst snd] in *. subst fn. rewrite (nodup_fst_unique _ nm c fc ND Hin Hf). reflexivity.
      - pose proof (find_none _ _ Ef (nm, c) Hin) as X. cbn [fst] in X. rewrite path_eqb_refl in X. discriminate. }
    assert (FileIn : forall nm, pget (p ++ [nm]) s <> None ->
                                exists c, In (nm, c) (delta_files spec_beh_order wtab d)).
    { intros nm Hn. rewrite Below in Hn. destruct (find _ _) as [f|] eqn:Ef; [|congruence].
      apply find_some in Ef as [Hf Ek]. apply path_eqb_spec, app_inv_head in Ek. injection Ek as Ek.
      destruct f as [fn fc]. cbn [fst] in Ek. subst fn. eauto. }
    split; [exact Hp|]. split; [exact InFile|]. split; [exact FileIn|].
    intros nm Hin. apply children_pget in Hin. destruct (FileIn nm Hin) as (c & Hc). split.
    - rewrite Forall_forall in VF. apply (VF (nm, c) Hc).
    - exists mode_file_default, (Raw c). split; [apply InFile, Hc|reflexivity].
  Qed.

  (* any listing with the same SET of files as the writer's reads back as the delta *)
  Lemma parse_files_same_set d (L' : list (name * bytes)) :
    delta_wf d -> delta_names_nonempty d -> NoDup (map fst (delta_files spec_beh_order wtab d)) ->
    NoDup (map fst L') -> (forall f, In f (delta_files spec_beh_order wtab d) <-> In f L') ->
    parse_files rtab no_ext L' delta_empty = d.
  Proof.
    intros W NE ND NDL Same.
    assert (P : Permutation (delta_files spec_beh_order wtab d) L').
    { apply NoDup_Permutation; [eapply NoDup_map_inv; exact ND|eapply NoDup_map_inv; exact NDL|exact Same]. }
    rewrite delta_files_triples in P.
    apply Permutation_sym, Permutation_map_inv in P as (T' & EL & PT).
    rewrite EL.
    assert (NEt : forall t, In t (triples spec_beh_order d) -> snd (fst t) <> []) by (apply triples_nonempty, NE).
    rewrite (parse_files_triples wtab rtab no_ext T T').
    2:{ intros t Ht. apply NEt. eapply Permutation_in; [apply Permutation_sym, PT|exact Ht]. }
    rewrite <- (insert_all_perm (triples spec_beh_order d) T'); [| |exact PT].
    - rewrite <- (parse_files_triples wtab rtab no_ext T _ delta_empty NEt), <- delta_files_triples.
      apply (layout_roundtrip wtab rtab no_ext T d W NE).
    - rewrite delta_files_triples, map_map in ND.
      apply (nodup_map_factor tkey (fun bk => snd bk ++ writer_suffix_of wtab (fst bk))).
      erewrite map_ext; [exact ND|]. intros [[b k] v]. reflexivity.
  Qed.

  (* the env directory is exactly what write_to_env_dir leaves for d; reading it returns d *)
  Theorem read_env_dir_exact d p s :
    simple_dir s p -> delta_wf d -> delta_names_nonempty d -> files_ok spec_beh_order wtab d ->
    delta_is_empty d = false ->
    (forall q, is_prefix p q = true -> pget q s = env_dir_spec spec_beh_order wtab d p q) ->
    read_from_env_dir rtab no_ext reads_process p s = (s, Ok d).
  Proof.
    intros SD W NE FO Hne Spec.
    destruct (written_dir_facts d p s FO Hne Spec) as (Hp & InFile & FileIn & Hall).
    destruct FO as [ND VF].
    rewrite (read_env_dir_files p s mode_dir_default SD Hp eq_refl Hall).
    f_equal. f_equal.
    apply (parse_files_same_set d _ W NE ND).
    - rewrite map_map. cbn [fst]. rewrite map_id. apply children_nodup.
    - intros [nm c]. rewrite in_map_iff. split.
      + intros Hin. exists nm. split.
        * unfold content_at. rewrite (InFile nm c Hin). reflexivity.
        * apply children_pget. rewrite (InFile nm c Hin). discriminate.
      + intros (nm' & E & Hin). injection E as -> E. apply children_pget in Hin. destruct (FileIn nm Hin) as (c' & Hc').
        unfold content_at in E. rewrite (InFile nm c' Hc') in E. cbn [content_bytes] in E. subst c'. exact Hc'.
  Qed.

  (* a directory holding readable files AND sub-directories (env.launch with per-process
     directories): with the per-process reader in place, sub-directories are skipped *)
  Definition file_child (s : fs) (p : path) (nm : name) : bool :=
    match pget (p ++ [nm]) s with Some (File _ _) => true | _ => false end.

  Lemma read_env_dir_mixed p s m :
    reads_process = true ->
    simple_dir s p -> pget p s = Some (Dir m) -> has_r m = true ->
    (forall nm, In nm (children p s) -> valid_name nm = true /\
        ((exists fm c, pget (p ++ [nm]) s = Some (File fm c) /\ has_r fm = true) \/ (exists dm, pget (p ++ [nm]) s = Some (Dir dm)))) ->
    read_from_env_dir rtab no_ext reads_process p s =
    (s, Ok (parse_files rtab no_ext (map (fun nm => (nm, content_bytes (content_at (p ++ [nm]) s)))
                                         (filter (file_child s p) (children p s))) delta_empty)).
  Proof.
    intros RP SD Hp Hr Hall. unfold read_from_env_dir. unfold bindM at 1. unfold readdir.
    rewrite (resolve_simple s p true SD), Hp, Hr. cbn [snd].
    assert (G : forall names (acc : M delta) d0, acc s = (s, Ok d0) ->
      (forall nm, In nm names -> In nm (children p s)) ->
      fold_left (fun (acc : M delta) (nm : name) =>
                 d <- acc ;;
                 skip <- (fun s => (s, Ok (reads_process && is_dir (p ++ [nm]) s))) ;;
                 if skip : bool then ret d
                 else
                   mc <- read_file (p ++ [nm]) ;;
                   let '(stem, ob) := entry_behaviour rtab no_ext nm in
                   ret (match ob with Some b => dinsert b stem (content_bytes (snd mc)) d | None => d end))
              names acc s =
      (s, Ok (parse_files rtab no_ext (map (fun nm => (nm, content_bytes (content_at (p ++ [nm]) s))) (filter (file_child s p) names)) d0))).
    { induction names as [|nm names IH]; intros acc d0 Hacc Hsub; cbn [fold_left filter]; [exact Hacc|].
      destruct (Hall nm (Hsub nm (or_introl eq_refl))) as (Hv & [(fm & c & Hf & Hfr)|(dm & Hd)]).
      - assert (FC : file_child s p nm = true) by (unfold file_child; rewrite Hf; reflexivity).
        rewrite FC. cbn [map]. unfold parse_files. cbn [fold_left fst snd].
        change (fold_left _ (map _ (filter (file_child s p) names)) ?x) with
          (parse_files rtab no_ext (map (fun nm => (nm, content_bytes (content_at (p ++ [nm]) s))) (filter (file_child s p) names)) x).
        apply IH; [|intros n Hn; apply Hsub; right; exact Hn].
        assert (NL : not_link (pget (p ++ [nm]) s)) by (rewrite Hf; intros t; discriminate).
        unfold bindM at 1. rewrite Hacc. unfold bindM at 1.
        unfold is_dir. rewrite (stat_in_dir s p nm SD Hv NL), Hf. rewrite andb_false_r.
        unfold bindM at 1. unfold read_file. rewrite (resolve_in_dir s p nm true SD Hv NL), Hf, Hfr.
        unfold content_at. rewrite Hf. cbn [snd].
        destruct (entry_behaviour rtab no_ext nm) as [stem ob]. reflexivity.
      - assert (FC : file_child s p nm = false) by (unfold file_child; rewrite Hd; reflexivity).
        rewrite FC. apply IH; [|intros n Hn; apply Hsub; right; exact Hn].
        assert (NL : not_link (pget (p ++ [nm]) s)) by (rewrite Hd; intros t; discriminate).
        unfold bindM at 1. rewrite Hacc. unfold bindM at 1.
        unfold is_dir. rewrite (stat_in_dir s p nm SD Hv NL), Hd, RP. reflexivity. }
    apply (G (children p s) (ret delta_empty) delta_empty); [reflexivity|auto].
  Qed.
End Read.
