(* LayerSharedGone.v -- when remove_dir_recursively / delete_layer report success the tree is gone:
   nothing at or below the directory remains, for every well-formed file system, tree shape,
   permission assignment and symlink placement (C11's "the layer is gone", and the justification
   of the atomic delete in LayerStore.v). *)
From LV Require Import Base FS FSFacts LayerShared LayerSharedFacts.
From Coq Require Import Lia.

(* every entry's parent is a directory *)
Definition parent_closed (s : fs) : Prop := forall q n, pget (q ++ [n]) s <> None -> is_dir_node (pget q s).

Lemma pc_absent_below s d : parent_closed s -> pget d s = None -> forall r, pget (d ++ r) s = None.
Proof.
  intros PC H r. induction r as [|n r IH] using rev_ind; [rewrite app_nil_r; exact H|].
  destruct (pget (d ++ r ++ [n]) s) eqn:E; [|reflexivity]. exfalso.
  assert (X : pget ((d ++ r) ++ [n]) s <> None) by (rewrite <- app_assoc; congruence).
  destruct (PC _ _ X) as [m Hm]. congruence.
Qed.

Lemma snoc_neq_self {A} (q : list A) n : q ++ [n] <> q.
Proof. intros E. apply (f_equal (@length A)) in E. rewrite app_length in E. cbn in E. lia. Qed.

Lemma pc_pdel_leaf s p : parent_closed s -> (forall n, pget (p ++ [n]) s = None) -> parent_closed (pdel p s).
Proof.
  intros PC L q n H. rewrite pget_pdel in H. destruct (path_eqb (q ++ [n]) p) eqn:E; [congruence|].
  destruct (PC q n H) as [m Hm]. exists m. rewrite pget_pdel.
  destruct (path_eqb q p) eqn:E2; [|exact Hm].
  apply path_eqb_spec in E2. subst q. rewrite L in H. congruence.
Qed.

Lemma pc_pset_dir s p m : parent_closed s -> is_dir_node (pget p s) -> parent_closed (pset p (Dir m) s).
Proof.
  intros PC D q n H.
  assert (H0 : pget (q ++ [n]) s <> None).
  { destruct (path_eqb (q ++ [n]) p) eqn:E.
    - apply path_eqb_spec in E. rewrite E. destruct D as [m0 ->]. discriminate.
    - apply path_eqb_neq in E. rewrite pget_pset_other in H by exact E. exact H. }
  destruct (PC q n H0) as [m1 Hm1].
  destruct (path_eqb q p) eqn:E.
  - apply path_eqb_spec in E. subst q. exists m. apply pget_pset_same.
  - apply path_eqb_neq in E. exists m1. rewrite pget_pset_other by exact E. exact Hm1.
Qed.

Lemma pc_pset_file s p m c m0 c0 : parent_closed s -> pget p s = Some (File m0 c0) -> parent_closed (pset p (File m c) s).
Proof.
  intros PC F q n H.
  assert (H0 : pget (q ++ [n]) s <> None).
  { destruct (path_eqb (q ++ [n]) p) eqn:E.
    - apply path_eqb_spec in E. rewrite E, F. discriminate.
    - apply path_eqb_neq in E. rewrite pget_pset_other in H by exact E. exact H. }
  destruct (PC q n H0) as [m1 Hm1]. exists m1.
  destruct (path_eqb q p) eqn:E.
  - apply path_eqb_spec in E. subst q. congruence.
  - apply path_eqb_neq in E. rewrite pget_pset_other by exact E. exact Hm1.
Qed.

Lemma children_nil d s : children d s = [] -> forall n, pget (d ++ [n]) s = None.
Proof.
  intros H n. destruct (pget (d ++ [n]) s) as [v|] eqn:E; [|reflexivity]. exfalso.
  assert (I : In n (children d s)) by (apply children_spec; exists v; apply pget_in; exact E).
  rewrite H in I. exact I.
Qed.

(* a file or a link has nothing below it *)
Lemma pc_leaf s p : parent_closed s -> (forall m, pget p s <> Some (Dir m)) -> forall n, pget (p ++ [n]) s = None.
Proof.
  intros PC ND n. destruct (pget (p ++ [n]) s) eqn:E; [|reflexivity]. exfalso.
  assert (X : pget (p ++ [n]) s <> None) by congruence. destruct (PC _ _ X) as [m Hm]. exact (ND m Hm).
Qed.

Section Gone.
  Variable repaired : bool.

  Lemma unlink_self_pc s p s' :
    valid_path p -> real_dirs s [] p -> parent_closed s -> unlink p s = (s', Ok tt) ->
    parent_closed s' /\ pget p s' = None.
  Proof.
    intros V R PC H. unfold unlink in H.
    destruct (resolve s p false) as [rp|e] eqn:Rs; [|discriminate].
    apply resolve_self in Rs; [|assumption|assumption|discriminate]. subst rp.
    destruct (pget p s) as [[m c|m|t]|] eqn:G; try discriminate.
    - destruct p as [|x p']; [discriminate|]. destruct (parent_writable s (x :: p')); [|discriminate].
      inversion H; subst. split; [|rewrite pget_pdel, path_eqb_refl; reflexivity].
      apply pc_pdel_leaf; [exact PC|]. apply pc_leaf; [exact PC|]. intros m'. rewrite G. discriminate.
    - destruct (parent_writable s p); discriminate.
    - destruct p as [|x p']; [discriminate|]. destruct (parent_writable s (x :: p')); [|discriminate].
      inversion H; subst. split; [|rewrite pget_pdel, path_eqb_refl; reflexivity].
      apply pc_pdel_leaf; [exact PC|]. apply pc_leaf; [exact PC|]. intros m'. rewrite G. discriminate.
  Qed.

  Lemma rmdir_self_pc s p s' :
    valid_path p -> real_dirs s [] p -> parent_closed s -> rmdir p s = (s', Ok tt) ->
    parent_closed s' /\ pget p s' = None.
  Proof.
    intros V R PC H. unfold rmdir in H.
    destruct (resolve s p false) as [rp|e] eqn:Rs; [|discriminate].
    apply resolve_self in Rs; [|assumption|assumption|discriminate]. subst rp.
    destruct (pget p s) as [[m c|m|t]|] eqn:G; try discriminate.
    - destruct (parent_writable s p); discriminate.
    - destruct p as [|x p']; [discriminate|]. destruct (parent_writable s (x :: p')); [|discriminate].
      destruct (children (x :: p') s) eqn:C; [|discriminate]. inversion H; subst.
      split; [|rewrite pget_pdel, path_eqb_refl; reflexivity].
      apply pc_pdel_leaf; [exact PC|apply children_nil; exact C].
    - destruct (parent_writable s p); discriminate.
  Qed.

  Lemma chmod_self_pc s p m s' :
    valid_path p -> real_dirs s [] p -> not_link (pget p s) -> parent_closed s -> chmod p m s = (s', Ok tt) -> parent_closed s'.
  Proof.
    intros V R NL PC H. unfold chmod in H.
    destruct (resolve s p true) as [rp|e] eqn:Rs; [|discriminate].
    apply resolve_self in Rs; [|assumption|assumption|intros _; exact NL]. subst rp.
    destruct (pget p s) as [[mm c|mm|t]|] eqn:G; try discriminate; inversion H; subst.
    - eapply pc_pset_file; eauto.
    - apply pc_pset_dir; [exact PC|]. exists mm. exact G.
  Qed.

  Lemma iter_pc (f : name -> M unit) d : forall names s s',
    (forall n s1 s2, In n names -> valid_fs s1 -> real_dirs s1 [] d -> is_dir_node (pget d s1) -> parent_closed s1 ->
        f n s1 = (s2, Ok tt) -> only_under (d ++ [n]) s1 s2 /\ keys_shrink s1 s2 /\ parent_closed s2) ->
    valid_fs s -> real_dirs s [] d -> is_dir_node (pget d s) -> parent_closed s ->
    iterM f names s = (s', Ok tt) ->
    parent_closed s' /\ only_below d s s' /\ keys_shrink s s'.
  Proof.
    induction names as [|n names IH]; intros s s' Hf V R D PC H; cbn [iterM] in H.
    - unfold ret in H. inversion H; subst. split; [exact PC|split; [apply only_below_refl|apply keys_shrink_refl]].
    - unfold bindM in H. destruct (f n s) as [s1 [u|e]] eqn:F; [|discriminate]. destruct u.
      destruct (Hf n s s1 (or_introl eq_refl) V R D PC F) as (O & K & PC1).
      pose proof (under_child_only_below _ _ _ _ O) as OB.
      assert (V1 : valid_fs s1) by (eapply keys_shrink_valid; eauto).
      assert (R1 : real_dirs s1 [] d) by (eapply real_dirs_transfer; [apply only_below_under; exact OB|exact R]).
      assert (D1 : is_dir_node (pget d s1)) by (rewrite OB; [exact D|now right]).
      destruct (IH s1 s') as (PC2 & O2 & K2); try assumption.
      { intros n' sa sb I. apply Hf. now right. }
      split; [exact PC2|]. split; [eapply only_below_trans; eauto|eapply keys_shrink_trans; eauto].
  Qed.

  Theorem rdr_gone : forall fuel d s s',
    valid_path d -> valid_fs s -> real_dirs s [] d -> parent_closed s ->
    (repaired = true \/ not_link (pget d s)) ->
    remove_dir_recursively repaired fuel d s = (s', Ok tt) ->
    parent_closed s' /\ forall r, pget (d ++ r) s' = None.
  Proof.
    induction fuel as [|f IH]; intros d s s' Vd Vs R PC NLh H; cbn [remove_dir_recursively] in H; [discriminate|].
    unfold bindM at 1 in H.
    assert (T : exists top, (if repaired then lstat d else ret (Dir 0)) s = (s, top) /\
                (forall n, top = Ok n -> (exists t, n = Link t /\ pget d s = Some (Link t)) \/
                                         (not_link (pget d s) /\ forall t, n <> Link t))).
    { destruct repaired.
      - destruct (lstat d s) as [s0 top] eqn:L. pose proof (stat_state _ _ _ _ _ L). subst s0.
        exists top. split; [reflexivity|]. intros n ->. unfold lstat, stat_gen in L.
        destruct (resolve s d false) as [rp|] eqn:Rs; [|discriminate].
        apply resolve_self in Rs; [|assumption|assumption|discriminate]. subst rp.
        destruct (pget d s) as [nd|] eqn:G; [|discriminate]. injection L as <-.
        destruct nd; [right|right|left; eauto]; split; intros t; discriminate.
      - exists (Ok (Dir 0)). split; [reflexivity|]. intros n [= <-]. right.
        destruct NLh as [?|?]; [discriminate|]. split; [assumption|intros t; discriminate]. }
    destruct T as (top & ET & Htop). rewrite ET in H. clear ET.
    destruct top as [top|e]; [|discriminate].
    destruct (Htop top eq_refl) as [(t & -> & Gt)|[NL NT]].
    { (* a symlink at the top: only the link goes *)
      destruct (unlink_self_pc _ _ _ Vd R PC H) as [PC' G']. split; [exact PC'|]. apply pc_absent_below; assumption. }
    assert (Body : (chmod d mode_0777 ;;;
             pl <- readdir d ;;
             iterM (fun n => e <- entry_node (fst pl) n ;;
                      match e with
                      | Some (Dir _) => remove_dir_recursively repaired f (d ++ [n])
                      | _ => unlink (d ++ [n])
                      end) (snd pl) ;;; rmdir d) s = (s', Ok tt)).
    { destruct top; [exact H|exact H|]. exfalso. now apply (NT target). }
    clear H. unfold bindM at 1 in Body.
    destruct (chmod d mode_0777 s) as [s1 r1] eqn:C.
    destruct (chmod_self_frame _ _ _ _ _ Vd R NL C) as (O1 & K1 & D1).
    destruct r1 as [u|e]; [|discriminate]. destruct u.
    pose proof (chmod_self_pc _ _ _ _ Vd R NL PC C) as PC1.
    assert (V1 : valid_fs s1) by (eapply keys_shrink_valid; eauto).
    assert (R1 : real_dirs s1 [] d) by (eapply real_dirs_transfer; eauto).
    unfold bindM at 1 in Body.
    destruct (readdir d s1) as [s2 r2] eqn:RD. pose proof (readdir_state _ _ _ _ RD). subst s2.
    destruct r2 as [[rp names]|e]; [|discriminate].
    apply readdir_ok in RD as (Rs & -> & Drp).
    assert (NL1 : not_link (pget d s1)).
    { intros t E. unfold chmod in C.
      destruct (resolve s d true) as [rp'|] eqn:Rs0; [|discriminate].
      apply resolve_self in Rs0; [|assumption|assumption|intros _; exact NL]. subst rp'.
      destruct (pget d s) as [[mm c|mm|t0]|] eqn:G; try discriminate;
        injection C as <-; rewrite pget_pset_same in E; discriminate. }
    apply resolve_self in Rs; [|assumption|assumption|intros _; exact NL1]. subst rp.
    cbn [fst snd] in Body. unfold bindM at 1 in Body.
    match type of Body with context [iterM ?ff ?nn s1] => destruct (iterM ff nn s1) as [s3 r3] eqn:IT end.
    destruct r3 as [u3|e]; [|discriminate]. destruct u3.
    apply iter_pc with (d := d) in IT as (PC3 & O3 & K3); try assumption.
    2:{ intros n sa sb I Va Ra Da PCa F. unfold bindM, entry_node in F.
        assert (Vn : valid_path (d ++ [n])) by (apply (valid_child s1); [exact V1|exact I]).
        destruct (pget (d ++ [n]) sa) as [[mm c|mm|t]|] eqn:G.
        - destruct (unlink_self_frame _ _ _ _ Vn (real_dirs_child _ _ _ Ra Da) F) as [O K].
          destruct (unlink_self_pc _ _ _ Vn (real_dirs_child _ _ _ Ra Da) PCa F) as [P _]. auto.
        - destruct (rdr_frame repaired f (d ++ [n]) sa sb (Ok tt) Vn Va (real_dirs_child _ _ _ Ra Da)) as [O K];
            [right; intros t E; congruence|exact F|].
          destruct (IH (d ++ [n]) sa sb Vn Va (real_dirs_child _ _ _ Ra Da) PCa) as [P _];
            [right; intros t E; congruence|exact F|]. auto.
        - destruct (unlink_self_frame _ _ _ _ Vn (real_dirs_child _ _ _ Ra Da) F) as [O K].
          destruct (unlink_self_pc _ _ _ Vn (real_dirs_child _ _ _ Ra Da) PCa F) as [P _]. auto.
        - destruct (unlink_self_frame _ _ _ _ Vn (real_dirs_child _ _ _ Ra Da) F) as [O K].
          destruct (unlink_self_pc _ _ _ Vn (real_dirs_child _ _ _ Ra Da) PCa F) as [P _]. auto. }
    assert (O13 : only_under d s s3).
    { eapply only_under_trans; [exact O1|apply only_below_under; exact O3]. }
    assert (R3 : real_dirs s3 [] d) by (eapply real_dirs_transfer; eauto).
    destruct (rmdir_self_pc _ _ _ Vd R3 PC3 Body) as [PC' G'].
    split; [exact PC'|]. apply pc_absent_below; assumption.
  Qed.
End Gone.

(* delete_layer: when the recursive removal succeeded and delete_layer reports success, nothing
   at or below <layers>/<name> remains (the sibling files it unlinks afterwards cannot bring
   anything back) *)
Lemma sibling_not_below (layers : path) (n m : name) r : m <> n -> layers ++ [n] ++ r <> layers ++ [m].
Proof.
  intros Hne E. apply app_inv_head in E. destruct r; cbn in E; inversion E; congruence.
Qed.

Lemma name_app_neq (n x : name) : x <> [] -> n ++ x <> n.
Proof. intros Hx E. apply (f_equal (@length _)) in E. rewrite app_length in E. destruct x; [congruence|cbn in E; lia]. Qed.

Theorem delete_layer_tree_gone sfxs layers n s s1 s' :
  valid_path layers -> valid_name n = true -> Forall sfx_ok sfxs ->
  valid_fs s -> real_dirs s [] (layers ++ [n]) -> parent_closed s ->
  remove_dir_recursively true (rdr_fuel s) (layers ++ [n]) s = (s1, Ok tt) ->
  delete_layer true true sfxs layers n s = (s', Ok tt) ->
  forall r, pget (layers ++ [n] ++ r) s' = None.
Proof.
  intros Vl Vn Vs Vf R PC HR H r.
  destruct (rdr_gone true _ _ _ _ (valid_path_snoc _ _ Vl Vn) Vf R PC (or_introl eq_refl) HR) as [PC1 G1].
  destruct (rdr_frame true _ _ _ _ _ (valid_path_snoc _ _ Vl Vn) Vf R (or_introl eq_refl) HR) as [O1 K1].
  assert (R1 : real_dirs s1 [] (layers ++ [n])) by (eapply real_dirs_transfer; eauto).
  unfold delete_layer in H. unfold bindM at 1 in H.
  unfold default_on_not_found at 1 in H. rewrite HR in H.
  unfold bindM at 1 in H.
  destruct (default_on_not_found (unlink (layers ++ [toml_name n])) s1) as [s2 r2] eqn:D2.
  apply default_on_not_found_state in D2 as [r0' D2].
  assert (Vt : valid_name (toml_name n) = true) by (apply valid_name_app; [exact Vn|cbn; lia|reflexivity]).
  apply unlink_self_at in D2 as [O2 K2]; [|now apply valid_path_snoc|eapply real_dirs_sibling; eauto].
  assert (E2 : forall r, pget (layers ++ [n] ++ r) s2 = None).
  { intros ry. rewrite O2; [rewrite app_assoc; apply G1|].
    apply sibling_not_below. unfold toml_name. apply name_app_neq. discriminate. }
  destruct r2 as [u2|e]; [|discriminate].
  assert (R2 : real_dirs s2 [] (layers ++ [n])) by (eapply only_at_real_dirs; eauto).
  clear - Vl Vn Vs E2 R2 H.
  revert s2 E2 R2 H. induction sfxs as [|sx sfxs IH]; intros s2 E2 R2 H; cbn [iterM] in H.
  - unfold ret in H. inversion H; subst. apply E2.
  - inversion Vs as [|? ? Sx Ss]; subst. unfold bindM at 1 in H.
    destruct (default_on_not_found (unlink (layers ++ [sbom_name n sx])) s2) as [s3 r3] eqn:D3.
    apply default_on_not_found_state in D3 as [rx D3].
    assert (Vsx : valid_name (sbom_name n sx) = true).
    { unfold sbom_name. apply valid_name_app; [exact Vn|rewrite app_length; cbn; lia|].
      rewrite existsb_app. cbn [existsb]. cbn. exact Sx. }
    apply unlink_self_at in D3 as [O3 K3]; [|now apply valid_path_snoc|eapply real_dirs_sibling; eauto].
    destruct r3 as [u3|e]; [|discriminate].
    apply (IH Ss s3); [|eapply only_at_real_dirs; eauto|exact H].
    intros ry. rewrite O3; [apply E2|]. apply sibling_not_below. unfold sbom_name. apply name_app_neq. discriminate.
Qed.
