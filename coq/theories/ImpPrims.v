(* ImpPrims.v -- meaning of the Rust library calls that occur in the function bodies the translator
   turns into Gallina statement by statement (translator/src/imp.rs).  These definitions are the
   environment model of std: HashMap<OsString, OsString> is the sorted map of Base.v (iteration
   order is not observable in the translated bodies), OsString / Vec<u8> are byte lists. *)
From LV Require Import Base.

(* Option<OsString>::unwrap_or_default *)
Definition opt_default (o : option bytes) : bytes := match o with Some x => x | None => [] end.

(* HashMap::contains_key *)
Definition env_contains (n : bytes) (e : bmap bytes) : bool :=
  match bget n e with Some _ => true | None => false end.
