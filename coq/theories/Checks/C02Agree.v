(* C02Agree.v -- correspondence: every observed handle_layer call = the executable model of the
   trait API with the GENERATED tables and flags (callback log, result, returned layer data, and
   the whole layers directory afterwards). *)
From LV Require Import Base Toml FS FSFacts LayerEnv LayerEnvFacts LayerShared LayerEnvFS SpecDocs LayerStore LayerStoreSpec LayerTrait.
From LV.Checks Require Import C03Hold C01Hold C01Agree C02Hold.
From LVGen Require GenLayerShared GenLayerEnv.
Open Scope N_scope.
Open Scope list_scope.

Definition g_handle :=
  t_handle GenLayerShared.delete_layer_removes_sboms GenLayerShared.trait_keep_refreshes_only GenLayerShared.sbom_suffixes GenLayerEnv.beh_order GenLayerEnv.writer_suffix
           GenLayerEnv.reader_suffix GenLayerEnv.reader_no_ext GenLayerEnv.layer_path_specs GenLayerEnv.path_list_separator
           GenLayerEnv.reads_process 3.

Definition g_probes_agree (e : layer_env) (probes : probe_set) (outs : list (list (bytes * bytes))) : bool :=
  Nat.eqb (List.length probes) (List.length outs) &&
  forallb (fun po => let '((sc, e0), out) := po in
                     bytes_map_eqb (bof_list out) (le_apply GenLayerEnv.beh_order GenLayerEnv.scope_fields e sc (bof_list e0)))
          (combine probes outs).

Definition step_agrees (names : list bytes) (probes : probe_set) (pre : store) (s : obs_step) : bool :=
  match s with
  | XHandle n L r calls post =>
      let '(st', mcalls, mr) := g_handle L n pre in
      tcalls_same calls (map (proj_tcall (tl_m L)) mcalls) && store_same names st' post && store_docs_agree names post &&
      match r, mr with
      | TOk ty x outs, Ok d => otypes_eqb ty (d_types d) && omd_same x (proj_md (tl_m L) (d_md d)) && g_probes_agree (d_env d) probes outs
      | TErr e, Err e' => herr_eqb e e'
      | _, _ => false
      end
  | XCorrupt n c post => store_same names (corrupt n c pre) post
  | XRestore post => store_same names (restore pre) post
  end.

Definition agrees (c : case) : bool :=
  GenLayerShared.trait_dispatch_shape_ok && GenLayerShared.trait_keep_rereads && GenLayerShared.execd_copy_shape_ok &&
  (fix go (pre : store) (l : list obs_step) : bool :=
     match l with [] => true | s :: r => step_agrees (k_names c) (k_probes c) pre s && go (step_post pre s) r end) [] (k_steps c).
