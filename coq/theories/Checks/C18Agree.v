(* C18Agree.v -- correspondence: observed answers = executable model with GENERATED tables
   (exact index, including which of several maximal artifacts is returned; exact error kind). *)
From LV Require Import Base Toml Serde Inventory InventoryFacts InventoryToml.
From LV.Checks Require Import C18Hold.
From LVGen Require GenInventory GenSerde.

Fixpoint index_of {A} (f : A -> bool) (l : list A) (i : nat) : option nat :=
  match l with [] => None | x :: l' => if f x then Some i else index_of f l' (S i) end.

(* run the model on (index, artifact) pairs so the returned position is observable *)
Definition idx_arts (arts : list artifact) : list (nat * artifact) := combine (seq 0 (length arts)) arts.

Definition onat_eqb (a b : option nat) : bool :=
  match a, b with Some x, Some y => Nat.eqb x y | None, None => true | _, _ => false end.

Definition err_eqb (a b : cks_error) : bool :=
  match a, b with
  | MissingPrefix, MissingPrefix | IncompatiblePrefix, IncompatiblePrefix
  | InvalidValue, InvalidValue | InvalidLength, InvalidLength => true
  | _, _ => false
  end.

Definition query_agrees (arts : list artifact) (q : query) : bool :=
  let sel := fun ia : nat * artifact => art_sel (q_os q) (q_arch q) (q_req q) (snd ia) in
  let key := fun ia : nat * artifact => a_ver (snd ia) in
  onat_eqb (q_partial q) (option_map fst (partial_resolve key sel ver_pcmp GenInventory.replace_on (idx_arts arts))) &&
  onat_eqb (q_pnan q) (option_map fst (partial_resolve key sel ver_pcmp_nan GenInventory.replace_on (idx_arts arts))) &&
  onat_eqb (q_total q) (option_map fst (resolve key sel ver_cmp (idx_arts arts))).

Definition agrees (c : case) : bool :=
  match c with
  | CResolve arts qs => forallb (query_agrees arts) qs
  | CChecksum512 s o =>
      match parse_checksum (beq GenInventory.sha512_name) (N.eqb spec_sha512_len) s, o with
      | Ok (n, v), CkOk n' v' _ _ => beq n n' && beq v v'
      | Err e, CkErr e' => err_eqb e e'
      | _, _ => false
      end
  | CChecksum s o =>
      match parse_checksum (beq GenInventory.sha256_name) (N.eqb spec_sha256_len) s, o with
      | Ok (n, v), CkOk n' v' _ _ => beq n n' && beq v v'
      | Err e, CkErr e' => err_eqb e e'
      | _, _ => false
      end
  | CToml arts tree p r =>
      (* the text the implementation wrote is, as a tree, what the model's Serialize of the
         REGENERATED schema produces, and the model's Deserialize reads it back *)
      p && r && toml_reads_back arts tree &&
      match tree, encode (GenSerde.s_Inventory toml_V TyString toml_M) (inv_sval arts) with
      | Some t, Some t' => tv_same t t'
      | _, _ => false
      end
  end.
