(* C01FsAgree.v -- correspondence: result and directory afterwards are those of
   shared::replace_layer_sboms as regenerated statement by statement from the source. *)
From LV Require Import Base FS FSFacts LayerShared ImpPrims ImpTypes.
From LV.Checks Require Import C01FsHold.
From LVGen Require GenLayerSharedImp.

Definition fmt_of (i : N) : sbom_format := match i with 0 => CycloneDxJson | 1 => SpdxJson | _ => SyftJson end.

Definition res_agrees (o : fs_res) (m : result errno unit) : bool :=
  match o, m with
  | ROk, Ok _ => true
  | RErrno e, Err e' => errno_eqb e e'
  | ROther, Err _ => true
  | _, _ => false
  end.

Definition agrees (c : case) : bool :=
  let '(s', r) := GenLayerSharedImp.gen_replace_layer_sboms (f_layers c) (f_name c)
                    (map (fun fd => (fmt_of (fst fd), snd fd)) (f_sboms c)) (f_pre c) in
  res_agrees (f_res c) r && fs_eqb s' (f_post c).
