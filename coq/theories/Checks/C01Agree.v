(* C01Agree.v -- correspondence: every step of the observed history = the executable model with
   the GENERATED flags and tables; and on every TOML document seen, the hand-written reading of
   the content metadata (gen_parse) = the serde schema regenerated from libcnb-data. *)
From LV Require Import Base Toml FS LayerEnv LayerShared LayerEnvFS SpecDocs Serde LayerStore LayerStoreSpec.
From LV.Checks Require Import C01Hold.
From LVGen Require GenLayerShared GenLayerEnv GenSerde.
Open Scope N_scope.
Open Scope list_scope.

Definition g_rm := GenLayerShared.delete_layer_removes_sboms.
Definition g_sfx := GenLayerShared.sbom_suffixes.

(* gen_parse against the generated schema of LayerContentMetadata<GenericMetadata> *)
Definition serde_view (t : tv) : option (option ltypes * md) :=
  match decode (fun _ _ => true) true (GenSerde.s_LayerContentMetadata (TyOption TyTable)) t with
  | Some (VRec [(_, ty); (_, VOpt x)]) =>
      match (match ty with
             | VOpt None => Some None
             | VOpt (Some (VRec [(_, VBool l); (_, VBool bd); (_, VBool c)])) => Some (Some (mkT l bd c))
             | _ => None
             end), (match x with None => Some None | Some (VTbl m) => Some (Some m) | Some _ => None end) with
      | Some a, Some c => Some (a, c)
      | _, _ => None
      end
  | _ => None
  end.

Definition view_same (x y : option (option ltypes * md)) : bool :=
  match x, y with
  | None, None => true
  | Some (a, p), Some (c, q) => otypes_eqb a c && omd_same p q
  | _, _ => false
  end.

Definition doc_agrees (c : content) : bool :=
  match c with Doc t => view_same (gen_parse t) (serde_view t) | Raw _ => true end.

Definition store_docs_agree (names : list bytes) (st : store) : bool :=
  forallb (fun n => match l_toml (lget n st) with Some c => doc_agrees c | None => true end) names.

Definition g_write := do_write g_sfx GenLayerEnv.beh_order GenLayerEnv.writer_suffix.

Definition step_agrees (names : list bytes) (pre : store) (s : obs_step) : bool :=
  match s with
  | XReq n q r calls post ws =>
      let '(st1, mcalls, mr) := do_request g_rm q n pre in
      res_same r mr && calls_proj_same (req_mty q) calls mcalls && store_same names st1 post && store_docs_agree names post &&
      (fix go (pre : store) (ws : list (wop * bool * store)) : bool :=
         match ws with
         | [] => true
         | (w, ok, p) :: rest =>
             let '(st2, wr) := g_write n w pre in
             Bool.eqb ok (match wr with Ok _ => true | Err _ => false end) && store_same names st2 p &&
             store_docs_agree names p && go p rest
         end) post ws
  | XCorrupt n c post => store_same names (corrupt n c pre) post
  | XRestore post => store_same names (restore pre) post && store_docs_agree names post
  end.

Definition agrees (c : case) : bool :=
  list_eqb beq g_sfx spec_sbom_suffixes &&
  (fix go (pre : store) (l : list obs_step) : bool :=
     match l with [] => true | s :: r => step_agrees (k_names c) pre s && go (step_post pre s) r end) [] (k_steps c).
