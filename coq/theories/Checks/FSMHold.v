(* FSMHold.v -- validation stream for the environment model FS.v itself: a sequence of primitive
   std::fs calls on a real sandbox vs the model.  There is no property here; [holds] is the same
   comparison as [agrees] so that a wrong environment model is reported with its failing case. *)
From LV Require Import Base FS.

Inductive fop :=
| OMkdir (p : path) | OCreateDirAll (p : path) | OWrite (p : path) (c : bytes) | ORead (p : path)
| OUnlink (p : path) | ORmdir (p : path) | ORemoveDirAll (p : path) | OChmod (p : path) (m : N)
| OSymlink (t : bytes) (p : path) | OCopy (p q : path) | OReaddir (p : path)
| OStat (p : path) | OLstat (p : path) | OExists (p : path) | OIsDir (p : path) | OIsFile (p : path).

Inductive fres :=
| RUnit | RErr (e : errno) | RBytes (c : content) | RNames (l : list bytes)
| RKind (k : kind) (m : N) | RBool (b : bool) | ROtherErr.

Definition of_unit (r : fs * result errno unit) : fs * fres :=
  match r with (s, Ok _) => (s, RUnit) | (s, Err e) => (s, RErr e) end.

Definition node_mode (n : node) : N := match n with File m _ => m | Dir m => m | Link _ => 511 end.

Definition run_op (o : fop) (s : fs) : fs * fres :=
  match o with
  | OMkdir p => of_unit (mkdir p s)
  | OCreateDirAll p => of_unit (create_dir_all (S (length p)) p s)
  | OWrite p c => of_unit (write_file p (Raw c) s)
  | ORead p => match read_file p s with (s', Ok mc) => (s', RBytes (snd mc)) | (s', Err e) => (s', RErr e) end
  | OUnlink p => of_unit (unlink p s)
  | ORmdir p => of_unit (rmdir p s)
  | ORemoveDirAll p => of_unit (remove_dir_all p s)
  | OChmod p m => of_unit (chmod p m s)
  | OSymlink t p => of_unit (symlink t p s)
  | OCopy p q => of_unit (copy_file p q s)
  | OReaddir p => match readdir p s with (s', Ok pl) => (s', RNames (snd pl)) | (s', Err e) => (s', RErr e) end
  | OStat p => match stat p s with (s', Ok n) => (s', RKind (kind_of_node n) (node_mode n)) | (s', Err e) => (s', RErr e) end
  | OLstat p => match lstat p s with (s', Ok n) => (s', RKind (kind_of_node n) (node_mode n)) | (s', Err e) => (s', RErr e) end
  | OExists p => (s, RBool (exists_ p s))
  | OIsDir p => (s, RBool (is_dir p s))
  | OIsFile p => (s, RBool (is_file p s))
  end.

Definition kind_eqb (a b : kind) : bool :=
  match a, b with KFile, KFile | KDir, KDir | KLink, KLink => true | _, _ => false end.

Definition fres_eqb (a b : fres) : bool :=
  match a, b with
  | RUnit, RUnit => true
  | RErr e, RErr e' => errno_eqb e e'
  | ROtherErr, RErr e' => negb (errno_eqb e' ENOENT)   (* errno the harness does not map *)
  | RBytes c, RBytes c' => content_eqb c c'
  | RNames l, RNames l' => list_eqb beq l l'
  | RKind k m, RKind k' m' => kind_eqb k k' && (match k with KLink => true | _ => m =? m' end)
  | RBool b, RBool b' => Bool.eqb b b'
  | _, _ => false
  end.

Record case := mkCase {
  c_init : fs;                       (* below the sandbox root; the root itself is added *)
  c_ops : list (fop * fres);         (* operation, observed result *)
  c_final : fs                       (* observed snapshot, root entry included *)
}.

Definition root_entry : path * node := ([], Dir mode_dir_default).

Fixpoint run_ops (ops : list (fop * fres)) (s : fs) (ok : bool) : fs * bool :=
  match ops with
  | [] => (s, ok)
  | (o, r) :: ops' => let '(s', r') := run_op o s in run_ops ops' s' (ok && fres_eqb r r')
  end.

Definition agrees_fs (c : case) : bool :=
  let '(s, ok) := run_ops (c_ops c) (root_entry :: c_init c) true in
  ok && fs_eqb s (c_final c).

Definition holds (c : case) : bool := agrees_fs c.
Definition branch_of (c : case) : N := N.of_nat (length (c_ops c)).
