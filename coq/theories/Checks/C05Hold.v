(* C05Hold.v -- C05 case record and spec-side judgement (SPEC exit statuses). *)
From LV Require Import Base Runtime RuntimeFacts.
From Coq Require Import ZArith.

(* what was found on disk afterwards, per output file *)
Inductive fobs := FAbsent | FPre | FNew | FOther.   (* absent / untouched pre-existing / expected new content / anything else *)

Record case := mkCase {
  c_cfg : cfg;
  c_pre : bool;                 (* output files (plan for detect; launch.toml and SBOM files for build) existed before *)
  c_store_pre : bool;           (* store.toml existed before (it is an input as well as an output) *)
  c_exit : Z;
  c_detect_entered : nat; c_build_entered : nat; c_on_error : nat;   (* marker counts *)
  c_f_plan : fobs; c_f_launch : fobs; c_f_store : fobs;
  c_f_bsboms : list (sbom_fmt * fobs); c_f_lsboms : list (sbom_fmt * fobs)
}.

Definition fobs_eqb (a b : fobs) : bool :=
  match a, b with FAbsent, FAbsent | FPre, FPre | FNew, FNew | FOther, FOther => true | _, _ => false end.

Definition expect (pre written : bool) : fobs := if written then FNew else if pre then FPre else FAbsent.

Definition judge (K : codes) (c : case) : bool :=
  let o := runtime K (c_cfg c) in
  let pre := c_pre c in
  Z.eqb (c_exit c) (o_exit o) &&
  Nat.eqb (c_on_error c) (o_on_error o) &&
  Nat.eqb (c_detect_entered c + c_build_entered c) (if o_entered o then 1 else 0) &&
  (match c_exe (c_cfg c) with ExDetect => Nat.eqb (c_build_entered c) 0 | ExBuild => Nat.eqb (c_detect_entered c) 0 | ExOther => true end) &&
  match c_exe (c_cfg c) with
  | ExDetect => fobs_eqb (c_f_plan c) (expect pre (o_plan o))
  | ExBuild =>
      fobs_eqb (c_f_launch c) (expect pre (o_launch o)) &&
      fobs_eqb (c_f_store c) (expect (c_store_pre c) (o_store o)) &&
      forallb (fun fo => fobs_eqb (snd fo) (expect pre (existsb (fmt_eqb (fst fo)) (o_bsboms o)))) (c_f_bsboms c) &&
      forallb (fun fo => fobs_eqb (snd fo) (expect pre (existsb (fmt_eqb (fst fo)) (o_lsboms o)))) (c_f_lsboms c)
  | ExOther => true
  end.

Definition holds (c : case) : bool := judge spec_codes c.

Definition branch_of (c : case) : N :=
  let o := runtime spec_codes (c_cfg c) in
  Z.to_N (o_exit o) + (if o_entered o then 1000 else 0) + 10000 * N.of_nat (o_on_error o).
