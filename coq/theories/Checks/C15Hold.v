(* C15Hold.v -- C15 case record (a generated workspace, one `cargo libcnb package` invocation, what
   it printed and left in the package directory) and the spec-side judgement. *)
From LV Require Import Base SpecDocs PkgDesc PackageCmd.
Open Scope N_scope.
Open Scope list_scope.

Record case := mkCase {
  k_ws : list bp; k_inv : inv; k_root : bytes;
  (* observed *)
  k_exit_ok : bool;
  k_stdout : list bytes;
  k_dirs : list (bytes * list (bytes * entry));   (* every buildpack directory below <package-dir>/<target>/<profile>
                                                     that is new or changed: absolute path, sorted entries *)
  k_untouched : bool;       (* everything else below the package directory is byte-identical to before *)
  k_order : list bytes      (* ids in the order the tool announced packaging them ("[i/n] Building <id>") *)
}.

(* every buildpack is packaged after the workspace buildpacks it depends on *)
Definition order_ok (ws : list bp) (order : list bytes) : bool :=
  (fix go (seen l : list bytes) : bool :=
     match l with
     | [] => true
     | id :: r =>
         match find_bp id ws with
         | Some x => forallb (fun d => mem_id d seen || negb (mem_id d (map b_id ws))) (lib_deps x)
         | None => true
         end && go (id :: seen) r
     end) [] order.

Definition entry_eqb (x y : entry) : bool :=
  match x, y with
  | EDir, EDir | ESameToml, ESameToml => true
  | EBin p, EBin q | ELink p, ELink q | EText p, EText q => beq p q
  | EPackageToml u o d, EPackageToml v q e => beq u v && beq o q && list_eqb beq d e
  | _, _ => false
  end.

Definition row_eqb (x y : bytes * entry) : bool := beq (fst x) (fst y) && entry_eqb (snd x) (snd y).

(* same rows, order irrelevant *)
Definition tree_same (x y : list (bytes * entry)) : bool :=
  Nat.eqb (List.length x) (List.length y) && forallb (fun r => existsb (row_eqb r) y) x && forallb (fun r => existsb (row_eqb r) x) y.

Definition spec_tree (c : case) (x : bp) : list (bytes * entry) := tree absolutize (k_root c) (k_inv c) x.

Definition holds (c : case) : bool :=
  let i := k_inv c in let ws := k_ws c in
  k_untouched c &&
  if run_ok i ws then
    k_exit_ok c &&
    list_eqb beq (k_stdout c) (stdout_lines i ws) &&
    order_ok (filter packable ws) (k_order c) &&
    (* exactly the selected buildpacks have a (re)written directory, each holding exactly its tree *)
    Nat.eqb (List.length (k_dirs c)) (List.length (selected i ws)) &&
    forallb (fun id => match find_bp id (filter packable ws) with
                       | Some x => existsb (fun d => beq (fst d) (dest i id) && tree_same (snd d) (spec_tree c x)) (k_dirs c)
                       | None => false
                       end) (selected i ws)
  else negb (k_exit_ok c) && match k_stdout c with [] => true | _ => false end.

Definition branch_of (c : case) : N :=
  N.of_nat (List.length (k_ws c)) + 10 * N.of_nat (List.length (selected (k_inv c) (k_ws c))) +
  (if run_ok (k_inv c) (k_ws c) then 0 else 1000).
