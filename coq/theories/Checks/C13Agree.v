(* C13Agree.v -- correspondence: observed graph and orders = the executable model, exactly
   (including petgraph's neighbour order and the resulting post-order). *)
From LV Require Import DepGraph DepGraphFacts.
From LV.Checks Require Import C13Hold.
From LVGen Require GenDepGraph.

Definition graph_eqb (a b : graph) : bool :=
  if list_eq_dec (list_eq_dec Nat.eq_dec) a b then true else false.

Definition order_eqb (a b : option (list nat)) : bool :=
  match a, b with
  | None, None => true
  | Some x, Some y => if list_eq_dec Nat.eq_dec x y then true else false
  | _, _ => false
  end.

Definition model_order (ids : list nat) (g : graph) (roots : list nat) : option (list nat) :=
  match resolve_roots ids roots with
  | None => None
  | Some rs => get_dependencies g rs
  end.

Definition agrees (c : case) : bool :=
  match c_obs_graph c with
  | None =>
      match create_graph (c_nodes c), c_obs_missing c with
      | CgMissing _, Some _ => true
      | _, _ => false
      end
  | Some g =>
      match create_graph (c_obs_nodes c) with
      | CgOk gm =>
          graph_eqb g gm &&
          forallb (fun ro => order_eqb (snd ro) (model_order (map fst (c_obs_nodes c)) gm (fst ro))) (c_orders c)
      | CgMissing _ => false
      end
  end.
