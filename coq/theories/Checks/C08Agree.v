(* C08Agree.v -- correspondence: the GENERATED schemas, interpreted by Serde.v, accept and decode
   exactly as the implementation does. *)
From LV Require Import Base Toml Serde SpecDocs.
From LV.Checks Require Import C08Hold.
From LVGen Require GenSerde.

Definition gen_schema (k : doc_kind) : sty :=
  match k with
  | DBuildpack => GenSerde.s_BuildpackDescriptor (TyOption TyTable)
  | DPlan => GenSerde.s_BuildpackPlan
  | DLayer => GenSerde.s_LayerContentMetadata (TyOption TyTable)
  | DLaunch => GenSerde.s_Launch
  | DStore => GenSerde.s_Store
  | DPackage => GenSerde.s_PackageDescriptor
  end.

(* serde derive as it is: sequences are accepted for structs *)
Definition agrees (c : case) : bool := judge (gen_schema (c_kind c)) spec_vf true c.
