(* C01Hold.v -- C01 case record (an observed history of the struct layer API over a layers
   directory, abstracted per layer name) and its spec-side judgement. *)
From LV Require Import Base Toml FS LayerEnv LayerShared LayerEnvFS SpecDocs LayerStore LayerStoreSpec.
Open Scope N_scope.
Open Scope list_scope.

Inductive obs_step :=
| XReq (n : bytes) (q : request) (r : result herr lstate) (calls : list call) (post : store)
       (ws : list (wop * bool * store))            (* each LayerRef write: the op, Ok?, store after it *)
| XCorrupt (n : bytes) (c : option content) (post : store)
| XRestore (post : store).

Record case := mkCase { k_names : list bytes; k_extra : bool (* unexpected entries in the layers dir *); k_steps : list obs_step }.

Definition proj_call (m : mty) (c : call) : call :=
  match c with CallRestored x => CallRestored (proj_md m x) | CallInvalid x => CallInvalid x end.

Definition others_same (names : list bytes) (n : bytes) (pre post : store) : bool :=
  forallb (fun n' => beq n' n || lay_same (lget n' pre) (lget n' post)) names.

Definition toml_class (l : lay) : content_class := match l_toml l with Some c => classify_content c | None => CSyntax end.

Definition otypes_eqb (x y : option ltypes) : bool :=
  match x, y with Some a, Some c => ltypes_eqb a c | None, None => true | _, _ => false end.

(* last SBOM given per format *)
Definition expected_sboms (l : list (nat * bytes)) : list (bytes * bytes) :=
  fold_left (fun acc s => sbom_set (nth (fst s) spec_sbom_suffixes []) (snd s) acc) l [].

Definition write_ok (names : list bytes) (n : bytes) (pre : store) (w : wop * bool * store) : bool :=
  let '(wo, ok, post) := w in
  let l := lget n pre in let l' := lget n post in
  others_same names n pre post &&
  if negb ok then true else
  match wo with
  | WMeta x =>
      ofs_eqb (l_dir l') (l_dir l) && sboms_same (l_sboms l') (l_sboms l) &&
      match toml_class l, toml_class l' with
      | CLcm ty _, CLcm ty' x' => otypes_eqb ty ty' && omd_same x' x
      | _, _ => false
      end
  | WSboms sb =>
      ofs_eqb (l_dir l') (l_dir l) && ocontent_same (l_toml l') (l_toml l) &&
      sboms_same (l_sboms l') (expected_sboms sb)
  | WExecd progs =>
      ocontent_same (l_toml l') (l_toml l) && sboms_same (l_sboms l') (l_sboms l) &&
      match l_dir l' with
      | Some d' =>
          forallb (fun p => match snd p with
                            | Some (mode, data) => match pget [n_execd; fst p] d' with
                                                   | Some (File m' (Raw dt)) => (m' =? mode) && beq dt data
                                                   | _ => false
                                                   end
                            | None => true
                            end) progs &&
          forallb (fun kv => negb (is_prefix [n_execd] (fst kv)) ||
                             match fst kv with
                             | [_] => true
                             | [_; nm] => existsb (fun p => beq (fst p) nm) progs
                             | _ => false
                             end) d'
      | None => false
      end
  | WEnv _ => ocontent_same (l_toml l') (l_toml l) && sboms_same (l_sboms l') (l_sboms l)
  | WFile rel data =>
      ocontent_same (l_toml l') (l_toml l) && sboms_same (l_sboms l') (l_sboms l) &&
      match l_dir l' with
      | Some d' => match pget rel d' with Some (File _ (Raw dt)) => beq dt data | _ => false end
      | None => false
      end
  | WLink rel t =>
      ocontent_same (l_toml l') (l_toml l) && sboms_same (l_sboms l') (l_sboms l) &&
      match l_dir l' with
      | Some d' => match pget rel d' with Some (Link t') => beq t' t | _ => false end
      | None => false
      end
  end.

Fixpoint writes_ok (names : list bytes) (n : bytes) (pre : store) (ws : list (wop * bool * store)) : bool :=
  match ws with
  | [] => true
  | w :: r => write_ok names n pre w && writes_ok names n (snd w) r
  end.

Definition step_post (pre : store) (s : obs_step) : store :=
  match s with
  | XReq _ _ _ _ post ws => match rev ws with (_, _, p) :: _ => p | [] => post end
  | XCorrupt _ _ post => post
  | XRestore post => post
  end.

Definition calls_proj_same (m : mty) (calls ecalls : list call) : bool := calls_same calls (map (proj_call m) ecalls).

(* request_ok of LayerStoreSpec with the typed projection of the callback log *)
Definition request_holds (names : list bytes) (n : bytes) (q : request) (pre post : store)
           (r : result herr lstate) (calls : list call) : bool :=
  let cls := classify_pre (req_mty q) (lget n pre) in
  let '(er, ecalls) := spec_request q cls in
  calls_proj_same (req_mty q) calls ecalls && request_ok names n q pre post r ecalls.

Definition step_holds (names : list bytes) (pre : store) (s : obs_step) : bool :=
  match s with
  | XReq n q r calls post ws =>
      request_holds names n q pre post r calls &&
      match r with Ok _ => writes_ok names n post ws | Err _ => match ws with [] => true | _ => false end end
  | XCorrupt _ _ _ => true
  | XRestore _ => true
  end.

Definition holds (c : case) : bool :=
  negb (k_extra c) &&
  (fix go (pre : store) (l : list obs_step) : bool :=
     match l with [] => true | s :: r => step_holds (k_names c) pre s && go (step_post pre s) r end) [] (k_steps c).

Definition branch_of (c : case) : N :=
  N.of_nat (List.length (k_steps c)) +
  100 * N.of_nat (List.length (filter (fun s => match s with XReq _ _ (Ok (SRestored _)) _ _ _ => true | _ => false end) (k_steps c))).
