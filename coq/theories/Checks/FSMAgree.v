From LV Require Import Base FS.
From LV.Checks Require Import FSMHold.
Definition agrees (c : case) : bool := agrees_fs c.
