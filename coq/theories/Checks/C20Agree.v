(* C20Agree.v -- correspondence: the inventory of unordered containers, unordered loops and clock /
   randomness sources regenerated from the source is the reviewed one (so the theorems of
   Determinism.v cover every order-sensitive site), and the model -- a function of its inputs --
   predicts equality. *)
From LV Require Import Base SpecDocs.
From LV.Checks Require Import C20Hold.
From LVGen Require GenDeterminism GenLayerShared.
From Coq Require Import String.
Open Scope string_scope.
Open Scope N_scope.
Open Scope list_scope.

Definition spec_loops : list (bytes * bytes) :=
  [ (b "libcnb/src/layer/shared.rs", b "exec_d_programs");       (* copy loop: Determinism.copy_loop_order_irrelevant *)
    (b "libcnb/src/layer_env.rs", b "&self.process") ].            (* one directory per process: writes_order_irrelevant *)

Definition spec_hash : list (bytes * N) :=
  [ (b "libcnb/src/env.rs", 1); (b "libcnb/src/layer/shared.rs", 1); (b "libcnb/src/layer/struct_api/mod.rs", 1);
    (b "libcnb/src/layer/trait_api/handling.rs", 1); (b "libcnb/src/layer/trait_api/mod.rs", 3); (b "libcnb/src/layer_env.rs", 1);
    (b "libcnb-data/src/buildpack/mod.rs", 2); (b "libcnb-data/src/exec_d.rs", 2) ].

Definition pair_eqb (x y : bytes * bytes) : bool := beq (fst x) (fst y) && beq (snd x) (snd y).
Definition row_eqb (x y : bytes * N) : bool := beq (fst x) (fst y) && (snd x =? snd y).

Fixpoint list_eqb' {A} (eq : A -> A -> bool) (x y : list A) : bool :=
  match x, y with [], [] => true | a :: x', c :: y' => eq a c && list_eqb' eq x' y' | _, _ => false end.

Definition inventory_ok : bool :=
  list_eqb' pair_eqb GenDeterminism.unordered_loops spec_loops &&
  list_eqb' row_eqb GenDeterminism.hash_container_mentions spec_hash &&
  match GenDeterminism.clock_or_random_mentions with [] => true | _ => false end &&
  GenDeterminism.toml_tables_sorted &&      (* no preserve_order feature: toml::Table is a BTreeMap *)
  GenLayerShared.execd_copy_shape_ok.     (* distinct names = distinct destinations: hypothesis of copy_loop_order_irrelevant *)

Definition agrees (c : case) : bool := inventory_ok && k_equal c.
