(* C07Hold.v -- C07 case record and spec-side judgement: an independent reader applying the CNB
   field names and defaults to the tree parsed (by Python tomllib) from the text libcnb wrote
   must recover exactly the intended document. *)
From LV Require Import Base Toml Serde SerdeFacts SpecDocs Builders BuildersFacts Platform.

Inductive case :=
| CPlan (calls : list bp_call) (tree : option tv)
| CLaunch (calls : list lcall) (tree : option tv) (readback : option sval)
| CDoc (k : doc_kind) (value : sval) (tree : option tv) (readback : option sval)
| CExecd (pairs : list (bytes * bytes)) (tree : option tv) (fd3 : option (option tv)).
        (* tree: toml::to_string; fd3: Some (parse of what write_exec_d_program_output wrote) when exercised *)

Definition osval_eqb (a b : option sval) : bool :=
  match a, b with Some x, Some y => sval_eqb x y | None, None => true | _, _ => false end.

Fixpoint group_eqb (a b : list group) : bool :=
  match a, b with
  | [], [] => true
  | (p, r) :: a', (p', r') :: b' =>
      list_eqb beq p p' &&
      list_eqb (fun x y => beq (fst x) (fst y) && tv_same (TTbl (snd x)) (TTbl (snd y))) r r' &&
      group_eqb a' b'
  | _, _ => false
  end.

Definition execd_expected (pairs : list (bytes * bytes)) : tv :=
  TTbl (map (fun kv => (fst kv, TStr (snd kv))) pairs).

(* every string of a launch document is a Rust String -- UTF-8 by construction -- except the working
   directory, a PathBuf: one that is not UTF-8 has no TOML representation *)
Definition launch_representable (calls : list lcall) : bool :=
  forallb (fun p => match p_wd p with Some d => utf8_valid d | None => true end) (l_processes (intended_launch calls)).

Definition holds (c : case) : bool :=
  match c with
  | CLaunch calls ot rb =>
      if launch_representable calls then
        match ot with
        | Some t => let want := v_launch (intended_launch calls) in
                    osval_eqb (decode spec_vf false spec_Launch t) (Some want) && osval_eqb rb (Some want)
        | None => false
        end
      else
        (* a value that cannot be written is a reported failure, never a silently altered document *)
        match ot with None => true | Some _ => false end
  | CPlan calls (Some t) =>
      match read_build_plan t with Some gs => group_eqb gs (intended_groups calls) | None => false end
  | CDoc k v (Some t) rb =>
      osval_eqb (decode spec_vf false (spec_schema k) t) (Some v) &&
      osval_eqb rb (Some (norm_val (spec_schema k) v))
  | CExecd pairs (Some t) fd3 =>
      tv_same t (execd_expected pairs) &&
      match fd3 with Some (Some t3) => tv_same t3 (execd_expected pairs) | Some None => false | None => true end
  | _ => false      (* not valid TOML, or serialisation failed *)
  end.

Definition branch_of (c : case) : N :=
  match c with CPlan l _ => N.of_nat (length l) | CLaunch l _ _ => 100 + N.of_nat (length l)
             | CDoc _ _ _ _ => 200 | CExecd l _ _ => 300 + N.of_nat (length l) end.
