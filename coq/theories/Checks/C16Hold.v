(* C16Hold.v -- C16 case record and spec-side judgement of an observed run. *)
From LV Require Import Base TestRun.
Open Scope nat_scope.

Record case := mkCase {
  k_cfg : bcfg; k_body : tbody; k_fails : list nat;
  (* observed *)
  k_trace : list (option ev);     (* None: a command line the reader does not recognise *)
  k_outcome : outcome;
  k_leftover : nat;               (* entries left in TMPDIR *)
  k_own : nat;                    (* distinct generated names seen *)
  k_names_ok : bool               (* every name is a random libcnbtest_ identifier (or IMAGE.build-cache / .launch-cache) *)
}.

Definition somes {A} (l : list (option A)) : list A := flat_map (fun o => match o with Some x => [x] | None => [] end) l.
Definition all_some {A} (l : list (option A)) : bool := forallb (fun o => match o with Some _ => true | None => false end) l.

Definition holds (c : case) : bool :=
  all_some (k_trace c) && k_names_ok c && trace_ok (somes (k_trace c)) (k_outcome c) (k_leftover c) (k_own c).

Definition fails_of (l : list nat) (n : nat) : bool := existsb (Nat.eqb n) l.

Fixpoint tbody_size (t : tbody) : nat :=
  match t with TEnd | TPanicNow => 1 | TStep _ k => S (tbody_size k) | TRebuild _ i _ => S (tbody_size i) end.

Definition branch_of (c : case) : N :=
  N.of_nat (tbody_size (k_body c)) + 100 * N.of_nat (length (k_fails c)) +
  match k_outcome c with ODone => 0 | OPanic => 10000 | OAbort => 20000 end.
