(* C06Agree.v -- correspondence: the dumped contexts = the model with the GENERATED schemas and
   the translator's reading of context_target. *)
From LV Require Import Base Toml FS Serde SpecDocs Platform.
From LV.Checks Require Import C06Hold.
From LVGen Require GenSerde GenRuntime.

Definition agrees (c : case) : bool :=
  judge (GenSerde.s_ComponentBuildpackDescriptor (TyOption TyTable)) GenSerde.s_BuildpackPlan GenSerde.s_Store
        GenRuntime.rt_arch_variant_error_silenced true c.
