(* C13LtAgree.v -- the libcnb-test route uses the same two functions as `cargo libcnb package`
   (C13Agree runs the regenerated tables against them); here the observation has no more detail
   than the judgement of C13LtHold, so the correspondence is that judgement. *)
From LV.Checks Require Import C13LtHold.
Definition agrees (c : case) : bool := holds c.
