(* C07Agree.v -- correspondence: the tree libcnb wrote = Serde.encode of the builder model's value
   under the GENERATED schemas. *)
From LV Require Import Base Toml Serde SerdeFacts SpecDocs Builders BuildersFacts.
From LV.Checks Require Import C07Hold C08Agree.
From LVGen Require GenSerde.

Definition otv_same (a b : option tv) : bool :=
  match a, b with Some x, Some y => tv_same x y | None, None => true | _, _ => false end.

Definition agrees (c : case) : bool :=
  match c with
  | CPlan calls t => otv_same t (encode GenSerde.s_BuildPlan (v_build_plan (bp_build calls)))
  | CLaunch calls t rb =>
      (* serde's PathBuf serializer fails on a path that is not UTF-8: nothing is written *)
      if launch_representable calls then otv_same t (encode GenSerde.s_Launch (v_launch (build_launch calls)))
      else match t with None => true | Some _ => false end
  | CDoc k v t rb => otv_same t (encode (gen_schema k) v)
  | CExecd pairs t _ => otv_same t (Some (execd_expected pairs))
  end.
