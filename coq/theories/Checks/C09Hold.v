(* C09Hold.v -- C09 case record and verified-oracle judgement (spec grammars only). *)
From LV Require Import Base Regex Version.

Record ident_obs := mkIO {
  io_parse : bool;                  (* FromStr accepted *)
  io_deser : bool;                  (* TOML deserialisation accepted *)
  io_display : option bytes;        (* Display of the parsed value (UTF-8) *)
  io_ser : option bytes;            (* serialised string *)
  io_deser_display : option bytes;  (* Display of the deserialised value *)
  io_macro : option bool            (* compile-time literal macro accepted (when exercised) *)
}.

Inductive case :=
| CIdent (s : list N) (utf8 : bytes) (ln pt bi ek : ident_obs)
| CVersion (s : bytes) (parsed deser : option (N * N * N)) (display : option bytes)
| CApi (s : bytes) (parsed deser : option (N * N)) (display : option bytes)
| CVShow (v : N * N * N) (shown : bytes) (back_eq : bool) (api_shown : bytes) (api_back_eq : bool).

Definition obytes_eqb := opt_eqb beq.

Definition ident_ok (expected : bool) (utf8 : bytes) (o : ident_obs) : bool :=
  Bool.eqb (io_parse o) expected && Bool.eqb (io_deser o) expected &&
  match io_macro o with Some m => Bool.eqb m expected | None => true end &&
  (if expected
   then obytes_eqb (io_display o) (Some utf8) && obytes_eqb (io_ser o) (Some utf8) &&
        obytes_eqb (io_deser_display o) (Some utf8)
   else true).

Definition triple_eqb (a b : N * N * N) : bool :=
  let '(x, y, z) := a in let '(x', y', z') := b in (x =? x') && (y =? y') && (z =? z').
Definition pair_eqb (a b : N * N) : bool := (fst a =? fst b) && (snd a =? snd b).

Definition holds (c : case) : bool :=
  match c with
  | CIdent s utf8 ln pt bi ek =>
      ident_ok (spec_layer_name s) utf8 ln && ident_ok (spec_process_type s) utf8 pt &&
      ident_ok (spec_buildpack_id s) utf8 bi && ident_ok (spec_execd_key s) utf8 ek
  | CVersion s parsed deser display =>
      let m := parse_version parse_u64_strict s in
      opt_eqb triple_eqb parsed m && opt_eqb triple_eqb deser m &&
      obytes_eqb display (option_map show_version m)
  | CApi s parsed deser display =>
      let m := parse_api parse_u64_strict s in
      opt_eqb pair_eqb parsed m && opt_eqb pair_eqb deser m &&
      obytes_eqb display (option_map show_api m)
  | CVShow v shown back_eq api_shown api_back_eq =>
      let '(x, y, z) := v in
      beq shown (show_version v) && back_eq && beq api_shown (show_api (x, y)) && api_back_eq
  end.

Definition branch_of (c : case) : N :=
  match c with
  | CIdent s _ _ _ _ _ =>
      (if spec_layer_name s then 1 else 0) + (if spec_process_type s then 2 else 0) +
      (if spec_buildpack_id s then 4 else 0) + (if spec_execd_key s then 8 else 0)
  | CVersion s _ _ _ => match parse_version parse_u64_strict s with Some _ => 101 | None => 100 end
  | CApi s _ _ _ => match parse_api parse_u64_strict s with Some _ => 111 | None => 110 end
  | CVShow _ _ _ _ _ => 120
  end.
