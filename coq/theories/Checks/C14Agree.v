(* C14Agree.v -- correspondence with the stack-machine model of normalize_path. *)
From LV Require Import Base Toml FS Regex PkgDesc PkgDescFacts.
From LV.Checks Require Import C14Hold.
Definition agrees (c : case) : bool :=
  judge (normalize_deps spec_buildpack_id (c_paths c) (c_parent c) (c_deps c)) c.
