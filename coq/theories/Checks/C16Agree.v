(* C16Agree.v -- correspondence: the observed command trace, outcome and temp-dir count are the
   model's, with the Drop / ownership facts as the translator reads them from the source. *)
From LV Require Import Base TestRun.
From LV.Checks Require Import C16Hold.
From LVGen Require GenLibcnbTest.
Open Scope nat_scope.

Definition outcome_eqb (a b : outcome) : bool :=
  match a, b with ODone, ODone | OPanic, OPanic | OAbort, OAbort => true | _, _ => false end.

Fixpoint evs_eqb (a b : list ev) : bool :=
  match a, b with
  | [], [] => true
  | x :: a', y :: b' => ev_eqb x y && evs_eqb a' b'
  | _, _ => false
  end.

Definition shape_ok : bool :=
  GenLibcnbTest.gen_container_drop_removes && GenLibcnbTest.gen_resources_drop_shape_ok &&
  GenLibcnbTest.gen_build_names_ok && GenLibcnbTest.gen_build_internal_ownership_ok &&
  GenLibcnbTest.gen_rebuild_moves_resources && GenLibcnbTest.gen_sbom_tempdir_owned &&
  GenLibcnbTest.gen_dockerremovecontainercommand_force && GenLibcnbTest.gen_dockerremoveimagecommand_force &&
  GenLibcnbTest.gen_dockerremovevolumecommand_force.

Definition agrees (c : case) : bool :=
  shape_ok && all_some (k_trace c) &&
  let '(s, o) := run_scenario (fails_of (k_fails c)) GenLibcnbTest.gen_container_drop_repaired
                              GenLibcnbTest.gen_early_container_context (k_cfg c) (k_body c) in
  evs_eqb (s_tr s) (somes (k_trace c)) && outcome_eqb o (k_outcome c) && Nat.eqb (length (s_live s)) (k_leftover c) &&
  Nat.eqb (s_next s) (k_own c).
