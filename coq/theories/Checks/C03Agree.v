(* C03Agree.v -- correspondence: every step's result and the file system after it = the
   executable model instantiated with the GENERATED tables and flags. *)
From LV Require Import Base FS FSFacts LayerEnv LayerEnvFacts LayerShared LayerEnvFS.
From LV.Checks Require Import C03Hold.
From LV Require Import ImpPrims ImpFacts.
From LVGen Require GenLayerEnv GenLayerEnvImp.

Definition g_write (e : layer_env) (dir : path) : M unit :=
  write_to_layer_dir GenLayerEnv.beh_order GenLayerEnv.writer_suffix e dir.
(* the writer as regenerated statement by statement from layer_env.rs *)
Definition g_write_regenerated (e : layer_env) (dir : path) : M unit :=
  let en := entries_of GenLayerEnv.beh_order in
  GenLayerEnvImp.gen_write_to_layer_dir (en (le_all e)) (en (le_build e)) (en (le_launch e))
    (map (fun pd => (fst pd, en (snd pd))) (le_process e)) dir.
Definition g_read (dir : path) : M layer_env :=
  read_from_layer_dir GenLayerEnv.reader_suffix GenLayerEnv.reader_no_ext GenLayerEnv.layer_path_specs
                      GenLayerEnv.path_list_separator GenLayerEnv.reads_process dir.

Definition err_agrees (o : option errno) (m : errno) : bool :=
  match o with Some e => errno_eqb e m | None => negb (errno_eqb m ENOENT) end.

Definition probes_agree (e : layer_env) (probes : list (scope * list (bytes * bytes)))
           (outs : list (list (bytes * bytes))) : bool :=
  Nat.eqb (length probes) (length outs) &&
  forallb (fun po => let '((sc, e0), out) := po in
                     bytes_map_eqb out (le_apply GenLayerEnv.beh_order GenLayerEnv.scope_fields e sc (bof_list e0)))
          (combine probes outs).

Definition step_agrees (dir : path) (pre : fs) (st : step * step_res * fs) : bool :=
  let '(stp, res, post) := st in
  match stp with
  | SWrite l =>
      (let '(s', r) := g_write (le_of_inserts l) dir pre in
       fs_eqb s' post && match r, res with Ok _, SOk _ => true | Err m, SErr o => err_agrees o m | _, _ => false end) &&
      (let '(s', r) := g_write_regenerated (le_of_inserts l) dir pre in
       fs_eqb s' post && match r, res with Ok _, SOk _ => true | Err m, SErr o => err_agrees o m | _, _ => false end)
  | SRead probes =>
      let '(s', r) := g_read dir pre in
      fs_eqb s' post && match r, res with
                        | Ok e, SOk outs => probes_agree e probes outs
                        | Err m, SErr o => err_agrees o m
                        | _, _ => false
                        end
  | SReadWrite =>
      let '(s1, r1) := g_read dir pre in
      match r1 with
      | Err m => fs_eqb s1 post && match res with SErr o => err_agrees o m | _ => false end
      | Ok e =>
          let '(s2, r2) := g_write e dir s1 in
          fs_eqb s2 post && match r2, res with Ok _, SOk _ => true | Err m, SErr o => err_agrees o m | _, _ => false end
      end
  end.

Definition agrees (c : case) : bool :=
  (fix go (pre : fs) (l : list (step * step_res * fs)) : bool :=
     match l with
     | [] => true
     | st :: l' => step_agrees (c_dir c) pre st && go (snd st) l'
     end) (c_init c) (c_steps c).
