(* C13LtHold.v -- C13 through libcnb-test: a test build that names a buildpack of the Cargo
   workspace (BuildpackReference::WorkspaceBuildpack / CurrentCrate) packages that buildpack and
   everything it transitively depends on, and nothing else; only a dependency on an unknown
   buildpack (or an unknown selection) is an error.  Which set that is, is the set of
   [get_dependencies] (DepGraphFacts.deps_first: its output is exactly the reachable set). *)
From LV Require Import DepGraph DepGraphFacts.
From LV.Checks Require Import C13Hold.
From Coq Require Import NArith.

Record case := mkLt {
  l_nodes : list (nat * list nat);       (* generated: (id, dependency ids) per buildpack directory of the workspace *)
  l_root : nat;                          (* the selected buildpack *)
  l_ok : bool;                           (* observed: the build went through to `pack build` *)
  l_packaged : list nat;                 (* observed: buildpacks packaged next to the one handed to pack *)
  l_chosen : option nat                  (* observed: the buildpack handed to pack with --buildpack *)
}.

Definition onat_eqb (a b : option nat) : bool :=
  match a, b with Some x, Some y => Nat.eqb x y | None, None => true | _, _ => false end.

Definition expected_set (c : case) : option (list nat) :=
  let ids := map fst (l_nodes c) in
  match create_graph (l_nodes c) with
  | CgOk g =>
      match resolve_roots ids [l_root c] with
      | Some rs => option_map (map (fun i => nth i ids 0)) (get_dependencies g rs)
      | None => None
      end
  | CgMissing _ => None
  end.

Definition holds (c : case) : bool :=
  match expected_set c with
  | Some s => l_ok c && set_eqb (l_packaged c) s && onat_eqb (l_chosen c) (Some (l_root c))
  | None => negb (l_ok c)
  end.

Definition branch_of (c : case) : N := N.of_nat (length (l_packaged c)).
