(* C05Agree.v -- correspondence: the observed process outcome = the model with the GENERATED exit
   status constants. *)
From LV Require Import Base Runtime RuntimeFacts.
From LV.Checks Require Import C05Hold.
From LVGen Require GenRuntime.
Definition agrees (c : case) : bool := judge GenRuntime.exit_codes c.
