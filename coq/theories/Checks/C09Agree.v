(* C09Agree.v -- correspondence: observed acceptance = the regex engine run on the GENERATED
   pattern ASTs / the version model with the GENERATED component parser. *)
From LV Require Import Base Regex Version.
From LV.Checks Require Import C09Hold.
From LVGen Require GenRegex GenVersion.

Definition ident_agrees (m : bool) (o : ident_obs) : bool :=
  Bool.eqb (io_parse o) m && Bool.eqb (io_deser o) m &&
  match io_macro o with Some x => Bool.eqb x m | None => true end.

Definition agrees (c : case) : bool :=
  match c with
  | CIdent s utf8 ln pt bi ek =>
      ident_agrees (is_match GenRegex.layer_name_re s) ln &&
      ident_agrees (is_match GenRegex.process_type_re s) pt &&
      ident_agrees (is_match GenRegex.buildpack_id_re s) bi &&
      ident_agrees (is_match GenRegex.execd_key_re s) ek
  | CVersion s parsed deser display =>
      let m := parse_version GenVersion.version_component_parser s in
      opt_eqb triple_eqb parsed m && opt_eqb triple_eqb deser m &&
      obytes_eqb display (option_map show_version m)
  | CApi s parsed deser display =>
      let m := parse_api GenVersion.api_component_parser s in
      opt_eqb pair_eqb parsed m && opt_eqb pair_eqb deser m &&
      obytes_eqb display (option_map show_api m)
  | CVShow v shown back_eq api_shown api_back_eq => holds c
  end.
