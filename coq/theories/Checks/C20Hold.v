(* C20Hold.v -- C20 case record: the outputs of two separate processes on the same inputs. *)
From LV Require Import Base.
Open Scope N_scope.

Record case := mkCase {
  k_kind : N;            (* 1 = struct-API history, 2 = trait-API history, 5 = phase executable *)
  k_files : nat;         (* files + directories compared *)
  k_bytes : nat;
  k_equal : bool         (* byte-identical trees (names, modes, contents) *)
}.

Definition holds (c : case) : bool := k_equal c.
Definition branch_of (c : case) : N := k_kind c * 1000 + N.of_nat (Nat.min (k_files c) 999).
