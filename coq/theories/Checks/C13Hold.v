(* C13Hold.v -- C13 case record and verified-oracle judgement (no generated tables). *)
From LV Require Import DepGraph DepGraphFacts.
From Coq Require Import NArith.

Record case := mkCase {
  c_nodes : list (nat * list nat);            (* generated: (id, dependency ids) per directory *)
  c_obs_nodes : list (nat * list nat);        (* implementation: graph nodes in index order *)
  c_obs_graph : option graph;                 (* implementation: neighbours per node; None = error *)
  c_obs_missing : option nat;                 (* implementation: id named by MissingDependency *)
  c_orders : list (list nat * option (list nat))  (* root ids, observed order as node indices / None = error *)
}.

Definition node_eqb (a b : nat * list nat) : bool :=
  Nat.eqb (fst a) (fst b) && (if list_eq_dec Nat.eq_dec (snd a) (snd b) then true else false).

Definition count_node (n : nat * list nat) (l : list (nat * list nat)) : nat :=
  length (filter (node_eqb n) l).

Definition same_nodes (a b : list (nat * list nat)) : bool :=
  Nat.eqb (length a) (length b) && forallb (fun n => Nat.eqb (count_node n a) (count_node n b)) a.

Definition set_eqb (a b : list nat) : bool :=
  forallb (fun x => mem x b) a && forallb (fun x => mem x a) b.

Definition idx_of (ids : list nat) (d : nat) : nat :=
  match find_index ids d 0 with Some j => j | None => 0 end.

Fixpoint resolve_roots (ids roots : list nat) : option (list nat) :=
  match roots with
  | [] => Some []
  | r :: rs =>
      match find_index ids r 0, resolve_roots ids rs with
      | Some i, Some is => Some (i :: is)
      | _, _ => None
      end
  end.

Definition has_missing (nodes : list (nat * list nat)) : bool :=
  let ids := map fst nodes in
  existsb (fun nd => existsb (fun d => negb (mem d ids)) (snd nd)) nodes.

Definition edges_match (nodes : list (nat * list nat)) (g : graph) : bool :=
  let ids := map fst nodes in
  Nat.eqb (length g) (length nodes) &&
  forallb (fun i => set_eqb (succs g i) (map (idx_of ids) (snd (nth i nodes (0, [])))))
          (seq 0 (length nodes)).

Definition order_ok (ids : list nat) (g : graph) (ro : list nat * option (list nat)) : bool :=
  match resolve_roots ids (fst ro), snd ro with
  | None, None => true                       (* unknown root node is an error *)
  | Some rs, Some o => chk_order g rs o      (* verified: chk_order_correct *)
  | _, _ => false
  end.

Definition holds (c : case) : bool :=
  let ids := map fst (c_nodes c) in
  match c_obs_graph c with
  | None =>
      has_missing (c_nodes c) &&
      match c_obs_missing c with
      | Some d => negb (mem d ids) && existsb (fun nd => mem d (snd nd)) (c_nodes c)
      | None => false
      end
  | Some g =>
      negb (has_missing (c_nodes c)) && same_nodes (c_nodes c) (c_obs_nodes c) &&
      edges_match (c_obs_nodes c) g &&
      forallb (order_ok (map fst (c_obs_nodes c)) g) (c_orders c)
  end.

Definition branch_of (c : case) : N :=
  match c_obs_graph c with
  | None => 0%N
  | Some g => N.of_nat (1 + edge_count g)
  end.
