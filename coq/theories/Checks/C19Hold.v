(* C19Hold.v -- C19 case record and spec-side judgement. *)
From LV Require Import Base Stream StreamFacts.

Inductive mapper := MPrefix | MDup | MLen | MId.

(* decimal rendering for the "len" mapper *)
Fixpoint dec_digits (fuel : nat) (n : N) (acc : bytes) : bytes :=
  match fuel with
  | O => acc
  | S f => let acc' := (48 + n mod 10) :: acc in if n <? 10 then acc' else dec_digits f (n / 10) acc'
  end.
Definition show_nat (n : nat) : bytes := dec_digits 20 (N.of_nat n) [].

Definition mapper_fn (k : mapper) : bytes -> bytes :=
  match k with
  | MPrefix => fun b => [62; 32] ++ b
  | MDup => fun b => b ++ b
  | MLen => fun b => [91] ++ show_nat (length b) ++ [93]
  | MId => fun b => b
  end.

Inductive case :=
| CMapped (k : mapper) (marker : N) (chunks : list bytes) (out : bytes)
| CTee (chunks : list bytes) (a b : bytes)
| CCommand (script : list (stream * nat)) (ok : bool) (code0 : bool) (stdout_eq stderr_eq : bool)
           (so_len se_len : nat) (so_ok se_ok : bool) (slow : bool).
           (* so_ok / se_ok: the delivered bytes have the expected order-sensitive checksum *)

Definition holds (c : case) : bool :=
  match c with
  | CMapped k mk chunks out => beq out (mapped_spec (mapper_fn k) mk (concat chunks))
  | CTee chunks a b => beq a (concat chunks) && beq b (concat chunks)
  | CCommand script ok code0 oeq eeq sol sel sok sek slow =>
      ok && code0 && oeq && eeq && sok && sek && negb slow &&
      Nat.eqb sol (list_sum (map (fun w => match fst w with SOut => snd w | SErr => 0%nat end) script)) &&
      Nat.eqb sel (list_sum (map (fun w => match fst w with SErr => snd w | SOut => 0%nat end) script))
  end.

Definition branch_of (c : case) : N :=
  match c with CMapped _ _ l _ => N.of_nat (length l) | CTee l _ _ => 100 + N.of_nat (length l)
             | CCommand s _ _ _ _ _ _ _ _ _ => 200 + N.of_nat (length s) end.
