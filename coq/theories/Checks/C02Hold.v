(* C02Hold.v -- C02 case record (an observed history of BuildContext::handle_layer calls with data
   callbacks, tampering and lifecycle restores) and its spec-side judgement. *)
From LV Require Import Base Toml FS FSFacts LayerEnv LayerEnvFacts LayerShared LayerEnvFS SpecDocs LayerStore LayerStoreSpec LayerTrait.
From LV.Checks Require Import C03Hold C01Hold.
Open Scope N_scope.
Open Scope list_scope.

Definition probe_set := list (scope * list (bytes * bytes)).

Inductive tres :=
| TOk (ty : option ltypes) (x : md) (probe_out : list (list (bytes * bytes)))   (* returned LayerData *)
| TErr (e : herr).

Inductive obs_step :=
| XHandle (n : bytes) (L : tlayer) (r : tres) (calls : list tcall) (post : store)
| XCorrupt (n : bytes) (c : option content) (post : store)
| XRestore (post : store).

Record case := mkCase { k_names : list bytes; k_extra : bool; k_probes : probe_set; k_steps : list obs_step }.

Definition tcall_same (x y : tcall) : bool :=
  match x, y with
  | TCreate a, TCreate c => Bool.eqb a c
  | TStrategy p, TStrategy q | TUpdate p, TUpdate q | TMigrate p, TMigrate q => omd_same p q
  | _, _ => false
  end.
Fixpoint tcalls_same (x y : list tcall) : bool :=
  match x, y with [], [] => true | a :: x', c :: y' => tcall_same a c && tcalls_same x' y' | _, _ => false end.

Definition proj_tcall (m : mty) (c : tcall) : tcall :=
  match c with TStrategy x => TStrategy (proj_md m x) | TUpdate x => TUpdate (proj_md m x) | _ => c end.

(* the specification of the callback log (same function as LayerTraitFacts.spec_tcalls) *)
Definition strategy_calls (L : tlayer) (x : md) : list tcall :=
  TStrategy x :: match tl_strategy L with DKeep | DErrStrategy => [] | DUpdate => [TUpdate x] | DRecreate => [TCreate true] end.
Definition spec_tcalls (L : tlayer) (cls : pre_class) : list tcall :=
  match cls with
  | PAbsent => [TCreate true]
  | PValid x => strategy_calls L x
  | PInvalid gx => TMigrate gx :: match tl_migrate L with GErr => [] | GRecreate => [TCreate true] | GReplace x' => strategy_calls L x' end
  | PBroken => []
  end.

Definition has_create (l : list tcall) : bool := existsb (fun c => match c with TCreate _ => true | _ => false end) l.
Definition has_update (l : list tcall) : bool := existsb (fun c => match c with TUpdate _ => true | _ => false end) l.

Definition under_execd (q : path) : bool := is_prefix [n_execd] q.

(* what a create / update result must have left in the layer *)
Definition result_on_disk (r : lresult) (l' : lay) : bool :=
  sboms_same (l_sboms l') (expected_sboms (r_sboms r)) &&
  match l_dir l' with
  | Some d' =>
      layout_exact [] (match r_env r with Some i => le_of_inserts i | None => le_empty end) d' &&
      forallb (fun p => match snd p with
                        | Some (mode, data) => match pget [n_execd; fst p] d' with
                                               | Some (File m' (Raw dt)) => (m' =? mode) && beq dt data
                                               | _ => false
                                               end
                        | None => true
                        end) (r_execd r) &&
      forallb (fun kv => negb (under_execd (fst kv)) ||
                         match fst kv with
                         | [_] => negb (match r_execd r with [] => true | _ => false end)
                         | [_; nm] => existsb (fun p => beq (fst p) nm) (r_execd r)
                         | _ => false
                         end) d' &&
      forallb (fun f => match pget (fst f) d' with Some (File _ (Raw dt)) => beq dt (snd f) | _ => false end) (r_files r)
  | None => false
  end.

(* a layer created from scratch holds nothing but what the result accounts for *)
Definition nothing_else (r : lresult) (d' : fs) : bool :=
  forallb (fun kv => match fst kv with
                     | [] => true
                     | _ => under_env [] (fst kv) || under_execd (fst kv) ||
                            existsb (fun f => is_prefix (fst kv) (fst f)) (r_files r)
                     end) d'.

(* the environment handle_layer returns is read back from the layer: the callback's entries plus the
   implicit layer paths of the bin/lib/include/pkgconfig directories now present in it (C10) *)
Definition with_paths (e : layer_env) (d : fs) : layer_env :=
  let e0 := read_layer_paths spec_layer_paths spec_sep [] d in
  mkLE (le_all e) (le_build e) (le_launch e) (le_process e) (le_paths_build e0) (le_paths_launch e0).

Definition ok_or_bp (r : tres) : bool := match r with TOk _ _ _ => true | TErr EBuildpack => true | TErr _ => false end.

(* the specified handling (repairs on, CNB tables) on the observed pre-state *)
Definition spec_handle :=
  t_handle true true spec_sbom_suffixes spec_beh_order spec_writer_table spec_reader_table spec_no_ext
           spec_layer_paths spec_sep true 3.

Definition handle_holds (names : list bytes) (probes : probe_set) (n : bytes) (L : tlayer) (pre post : store)
           (r : tres) (calls : list tcall) : bool :=
  let cls := classify_pre (tl_m L) (lget n pre) in
  let ecalls := spec_tcalls L cls in
  others_same names n pre post &&
  (negb (ok_or_bp r) || tcalls_same calls (map (proj_tcall (tl_m L)) ecalls)) &&
  match r with
  | TErr _ =>
      (* the call must not fail where the specified handling succeeds *)
      match snd (spec_handle L n pre) with Ok _ => false | Err _ => true end
  | TOk ty x outs =>
      let l' := lget n post in
      otypes_eqb ty (Some (tl_types L)) &&
      match toml_class l' with
      | CLcm ty' x' => otypes_eqb ty' (Some (tl_types L)) && omd_same (proj_md (tl_m L) x') x   (* returned = on disk, as the metadata type reads it *)
      | _ => false
      end &&
      if has_create ecalls then
        match tl_create L, l_dir l' with
        | COk res, Some d' =>
            omd_same x (r_md res) && result_on_disk res l' && nothing_else res d' &&
            probes_ok (with_paths (match r_env res with Some i => le_of_inserts i | None => le_empty end) d') probes outs
        | _, _ => false
        end
      else if has_update ecalls then
        match tl_update L, l_dir l' with
        | COk res, Some d' =>
            omd_same x (r_md res) && result_on_disk res l' &&
            probes_ok (with_paths (match r_env res with Some i => le_of_inserts i | None => le_empty end) d') probes outs
        | _, _ => false
        end
      else
        (* keep: nothing but the types changes *)
        ofs_eqb (l_dir l') (l_dir (lget n pre)) && sboms_same (l_sboms l') (l_sboms (lget n pre)) &&
        match toml_class l', (match cls, tl_migrate L with
                              | PValid x0, _ => x0
                              | PInvalid _, GReplace x1 => x1
                              | _, _ => None
                              end) with
        | CLcm _ x', kept => omd_same x' kept          (* on disk: every key, known to the type or not *)
        | _, _ => false
        end
  end.

Definition step_post (pre : store) (s : obs_step) : store :=
  match s with XHandle _ _ _ _ post => post | XCorrupt _ _ post => post | XRestore post => post end.

Definition step_holds (names : list bytes) (probes : probe_set) (pre : store) (s : obs_step) : bool :=
  match s with
  | XHandle n L r calls post => handle_holds names probes n L pre post r calls
  | _ => true
  end.

Definition holds (c : case) : bool :=
  negb (k_extra c) &&
  (fix go (pre : store) (l : list obs_step) : bool :=
     match l with [] => true | s :: r => step_holds (k_names c) (k_probes c) pre s && go (step_post pre s) r end) [] (k_steps c).

Definition branch_of (c : case) : N :=
  N.of_nat (List.length (k_steps c)) +
  100 * N.of_nat (List.length (filter (fun s => match s with XHandle _ _ (TOk _ _ _) _ _ => true | _ => false end) (k_steps c))).
