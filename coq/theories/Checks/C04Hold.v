(* C04Hold.v -- C04 case record and verified-oracle judgement (SPEC tables only; does not
   depend on generated files, so it still evaluates when the tie is broken). *)
From LV Require Import Base LayerEnv LayerEnvFacts.

Record case := mkCase {
  c_ins : list ins;
  c_ins2 : list ins;              (* a permutation of c_ins chosen by the generator *)
  c_scope : scope;
  c_env0 : list (bytes * bytes);
  c_out : list (bytes * bytes);   (* implementation: apply of LayerEnv built from c_ins, sorted by key *)
  c_out2 : list (bytes * bytes);  (* implementation: same for c_ins2 *)
  c_le_eq : bool;                 (* implementation: LayerEnv(c_ins) == LayerEnv(c_ins2) *)
  c_env0_unchanged : bool         (* implementation: the &Env argument is unchanged *)
}.

Fixpoint nodup_keys (l : list ins) : bool :=
  match l with
  | [] => true
  | i :: l' =>
      negb (existsb (fun j => let '(s, b, n) := ikey i in let '(s', b', n') := ikey j in
                              scope_eqb s s' && beh_eqb b b' && beq n n') l') && nodup_keys l'
  end.

Definition holds (c : case) : bool :=
  chk_apply (le_of_inserts (c_ins c)) (c_scope c) (bof_list (c_env0 c)) (c_out c) &&
  chk_apply (le_of_inserts (c_ins2 c)) (c_scope c) (bof_list (c_env0 c)) (c_out2 c) &&
  c_env0_unchanged c &&
  (* insertion order must not matter when keys are pairwise distinct *)
  (if nodup_keys (c_ins c) then c_le_eq c && bytes_map_eqb (c_out c) (c_out2 c) else true).

(* which model branches a case exercises (for the evidence distribution) *)
Definition branch_of (c : case) : N :=
  let e := le_of_inserts (c_ins c) in
  N.of_nat (length (deltas_for spec_scope_table e (c_scope c))).
