(* C17Hold.v -- C17 case record and spec-side judgement: the logged command lines of one build
   with one started container, read back by the reference option grammar. *)
From LV Require Import Base SpecDocs Argv.
From Coq Require Import String.
Open Scope N_scope.
Open Scope list_scope.

Record case := mkCase {
  k_builder : bytes; k_app_dir : bytes; k_buildpacks : list bytes; k_benv : list (bytes * bytes);
  k_pre : bool;                                  (* an app_dir_preprocessor is configured *)
  k_ccfg : ccfg;
  (* observed *)
  k_manifest : bytes; k_tmp : bytes;
  k_cmds : list (bytes * list bytes);            (* program, argv *)
  k_copy_ok : bool;            (* the --path directory holds the fixture's files plus the preprocessor's change *)
  k_fixture_untouched : bool   (* the fixture directory is byte-identical afterwards *)
}.

Fixpoint is_prefix (p s : bytes) : bool :=
  match p, s with
  | [], _ => true
  | x :: p', y :: s' => (x =? y) && is_prefix p' s'
  | _, [] => false
  end.

Definition is_sub (prog sub : string) (c : bytes * list bytes) : bool :=
  beq (fst c) (b prog) && match snd c with x :: _ => beq x (b sub) | [] => false end.

Definition pack_builds (c : case) := filter (is_sub "pack" "build") (k_cmds c).
Definition docker_runs (c : case) := filter (is_sub "docker" "run") (k_cmds c).

Definition observed_path (argv : list bytes) : option bytes :=
  match parse_opts pack_build_table true (tl argv) with
  | Some p => match vals g_path (p_flags p) with [Some x] => Some x | _ => None end
  | None => None
  end.

Definition path_ok (c : case) (pth : bytes) : bool :=
  k_fixture_untouched c &&
  if k_pre c then is_prefix (k_tmp c ++ [47]) pth && k_copy_ok c
  else beq pth (path_join (k_manifest c) (k_app_dir c)).

Definition bv (c : case) (pth : bytes) : bcfgv := mkBV (k_builder c) pth (k_buildpacks c) (k_benv c).

Definition holds (c : case) : bool :=
  match pack_builds c, docker_runs c with
  | [pa], [ra] =>
      match observed_path (snd pa) with
      | Some pth =>
          path_ok c pth &&
          match check_pack (bv c pth) (snd pa) with
          | Some img => check_run (k_ccfg c) img (snd ra)
          | None => false
          end
      | None => false
      end
  | _, _ => false
  end.

Definition nontrivial (c : case) : bool := valid_ccfg (k_ccfg c) && valid_bcfgv (bv c []).

Definition branch_of (c : case) : N :=
  (if k_pre c then 1 else 0) + 2 * N.of_nat (List.length (c_env (k_ccfg c))) +
  20 * N.of_nat (List.length (c_mounts (k_ccfg c))) + 200 * N.of_nat (List.length (k_buildpacks c)).
