(* C04Agree.v -- correspondence: implementation output = model instantiated with the
   GENERATED tables, on one case. *)
From LV Require Import Base LayerEnv LayerEnvFacts.
From LV.Checks Require Import C04Hold.
From LVGen Require GenLayerEnv.

Definition model_out (l : list ins) (c : case) : env :=
  le_apply GenLayerEnv.beh_order GenLayerEnv.scope_fields (le_of_inserts l) (c_scope c) (bof_list (c_env0 c)).

Definition agrees (c : case) : bool :=
  bytes_map_eqb (c_out c) (model_out (c_ins c) c) &&
  bytes_map_eqb (c_out2 c) (model_out (c_ins2 c) c) &&
  Bool.eqb (c_le_eq c) (le_eqb (le_of_inserts (c_ins c)) (le_of_inserts (c_ins2 c))).

