(* C04Agree.v -- correspondence: implementation output = model instantiated with the
   GENERATED tables, on one case. *)
From LV Require Import Base LayerEnv LayerEnvFacts.
From LV.Checks Require Import C04Hold.
From LVGen Require GenLayerEnv.

(* the model run with the loop body of LayerEnvDelta::apply as the translator regenerated it from
   the source (GenLayerEnv.gen_delta_step), not with the hand-written delta_step *)
Definition gen_delta_apply (order : list beh) (d : delta) (e : env) : env :=
  fold_left (fun e b => fold_left (fun e kv => GenLayerEnv.gen_delta_step d b e (fst kv) (snd kv)) (dget d b) e) order e.
Definition gen_le_apply (order : list beh) (t : scope_table) (e : layer_env) (s : scope) (e0 : env) : env :=
  fold_left (fun acc d => gen_delta_apply order d acc) (deltas_for t e s) e0.

Definition model_out (l : list ins) (c : case) : env :=
  gen_le_apply GenLayerEnv.beh_order GenLayerEnv.scope_fields (le_of_inserts l) (c_scope c) (bof_list (c_env0 c)).

Definition agrees (c : case) : bool :=
  bytes_map_eqb (c_out c) (model_out (c_ins c) c) &&
  bytes_map_eqb (c_out2 c) (model_out (c_ins2 c) c) &&
  Bool.eqb (c_le_eq c) (le_eqb (le_of_inserts (c_ins c)) (le_of_inserts (c_ins2 c))).

