(* C12Hold.v -- C12 case record (one operation, its fault-free run and one run per injected fault)
   and the spec-side judgement. *)
From LV Require Import Base FaultProp.
Open Scope N_scope.

Record frun := mkRun {
  f_k : nat;            (* 1-based index of the file-system call that was made to fail *)
  f_errno : N;
  f_ok : bool;          (* the public call (or the phase) reported success *)
  f_crash : bool;       (* the process died instead of returning *)
  f_calls : nat;        (* counted calls made in this run *)
  f_same : bool         (* the directory afterwards equals the one of the fault-free run *)
}.

Record case := mkCase {
  k_n : nat;            (* counted calls of the fault-free run *)
  k_ok0 : bool;         (* the fault-free run reported success *)
  k_runs : list frun
}.

(* never success while the directory differs from what a successful call produces; never a crash *)
Definition run_holds (r : frun) : bool := negb (f_crash r) && (negb (f_ok r) || f_same r).

Definition holds (c : case) : bool := k_ok0 c && forallb run_holds (k_runs c).

Definition branch_of (c : case) : N := N.of_nat (k_n c).
