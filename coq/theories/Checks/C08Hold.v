(* C08Hold.v -- C08 case record and spec-side judgement: the document decoded with the SPEC
   schemas and validators must be what the implementation returned (or both reject). *)
From LV Require Import Base Toml Serde SpecDocs.

Record case := mkCase {
  c_kind : doc_kind;
  c_doc : tv;                     (* the generated document (tree) *)
  c_impl_tree : option tv;        (* the toml crate's own reading of the rendered text *)
  c_parsed : option sval          (* implementation: parsed value, None = rejected *)
}.

Definition judge (schema : sty) (vf : nat -> bytes -> bool) (sq : bool) (c : case) : bool :=
  (* the text layer: the crate reads the text as the intended tree *)
  match c_impl_tree c with Some t => tv_same t (c_doc c) | None => false end &&
  match decode vf sq schema (c_doc c), c_parsed c with
  | Some x, Some y => sval_eqb (norm_val schema x) y
  | None, None => true
  | _, _ => false
  end.

(* the CNB formats require a table wherever the format defines a table *)
Definition holds (c : case) : bool := judge (spec_schema (c_kind c)) spec_vf false c.

Definition branch_of (c : case) : N :=
  match decode spec_vf false (spec_schema (c_kind c)) (c_doc c) with Some _ => 1 | None => 0 end +
  2 * match c_kind c with DBuildpack => 0 | DPlan => 1 | DLayer => 2 | DLaunch => 3 | DStore => 4 | DPackage => 5 end.
