(* C14Hold.v -- C14 case record and spec-side judgement. *)
From LV Require Import Base Toml FS Regex PkgDesc PkgDescFacts.

Inductive res :=
| ROk (deps : list bytes) (bp_uri : bytes) (os : bytes) (bp_toml_same : bool)   (* read back from the written package.toml *)
| RMissing (id : bytes)
| RInvalidId
| ROtherErr.

Record case := mkCase {
  c_parent : bytes;                 (* directory of the original package.toml (real absolute path) *)
  c_deps : list bytes;              (* dependency uris of the original *)
  c_bp_uri : bytes; c_os : bytes;
  c_paths : list (bytes * bytes);   (* buildpack id -> packaged location *)
  c_res : res
}.

(* spec: libcnb:<id> -> location of exactly that id (unknown id = error, never kept or dropped);
   relative path -> the absolute dot-free path it denotes relative to the original package.toml;
   everything else verbatim *)
Definition spec_dep (paths : list (bytes * bytes)) (parent u : bytes) : result nerr bytes :=
  let abs := fun p => if is_abs p then p else render_abs (denote (components (parent ++ [47] ++ p))) in
  match classify u with
  | ULibcnb id =>
      if negb (spec_buildpack_id id) then Err (EInvalidId id)
      else match lookup_path id paths with
           | None => Err (EMissingPath id)
           | Some p => Ok (match classify p with UPath q => abs q | _ => p end)
           end
  | UPath p => Ok (abs p)
  | UOther => Ok u
  end.

Fixpoint spec_deps (paths : list (bytes * bytes)) (parent : bytes) (l : list bytes) : result nerr (list bytes) :=
  match l with
  | [] => Ok []
  | u :: l' =>
      match spec_dep paths parent u with
      | Err e => Err e
      | Ok v => match spec_deps paths parent l' with Err e => Err e | Ok r => Ok (v :: r) end
      end
  end.

Definition judge (expected : result nerr (list bytes)) (c : case) : bool :=
  match expected, c_res c with
  | Ok r, ROk deps bp os same => list_eqb beq deps r && beq bp (c_bp_uri c) && beq os (c_os c) && same
  | Err (EMissingPath id), RMissing id' => beq id id'
  | Err (EInvalidId _), RInvalidId => true
  | _, _ => false
  end.

Definition holds (c : case) : bool := judge (spec_deps (c_paths c) (c_parent c) (c_deps c)) c.

Definition branch_of (c : case) : N :=
  match c_res c with ROk _ _ _ _ => 1 | RMissing _ => 2 | RInvalidId => 3 | ROtherErr => 4 end +
  10 * N.of_nat (length (c_deps c)).
