(* C17Agree.v -- correspondence: the logged command lines are exactly the model's, and the
   translator's reading of docker.rs / pack.rs is the one the model was written from. *)
From LV Require Import Base SpecDocs Argv ArgvTypes.
From LV.Checks Require Import C17Hold.
From LVGen Require GenLibcnbTest.
From Coq Require Import String.
Open Scope N_scope.
Open Scope list_scope.

Definition spec_docker_run_lits : list bytes :=
  map b ["docker"; "run"; "--name"; "--detach"; "--rm"; "--platform"; "--entrypoint"; "--env";
         "{env_key}={env_value}"; "--publish"; "127.0.0.1::{port}"; "--mount"; "type=bind,source={},target={}"]%string.
Definition spec_pack_build_lits : list bytes :=
  map b ["pack"; "build"; "--builder"; "--cache"; "type=build;format=volume;name={}"; "--cache";
         "type=launch;format=volume;name={}"; "--path"; "--pull-policy"; "always"; "if-not-present"; "never";
         "--buildpack"; "--env"; "{env_key}={env_value}"; "--trust-builder"; "--trust-extra-buildpacks"]%string.

Definition shape_ok : bool :=
  list_eqb beq GenLibcnbTest.gen_docker_run_lits spec_docker_run_lits &&
  list_eqb beq GenLibcnbTest.gen_pack_build_lits spec_pack_build_lits &&
  GenLibcnbTest.gen_pack_new_defaults_ok && GenLibcnbTest.gen_start_container_detaches.

Definition agrees (c : case) : bool :=
  shape_ok &&
  match pack_builds c, docker_runs c with
  | [pa], [ra] =>
      match snd pa, snd ra, observed_path (snd pa) with
      | _ :: img :: _, _ :: _ :: name :: _, Some pth =>
          list_eqb beq (snd pa) (argv_pack_build (mk_pack img (bv c pth))) &&
          list_eqb beq (snd ra) (argv_docker_run (mk_run name img (b "linux/amd64") (k_ccfg c))) &&
          (* ... and the builders as the translator regenerated them from docker.rs / pack.rs *)
          (let k := k_ccfg c in
           list_eqb beq (b "docker" :: snd ra)
             (GenLibcnbTest.gen_docker_run_argv name true false (Some (b "linux/amd64")) (c_entrypoint k) (c_env k)
                (c_ports k) (c_mounts k) img (c_command k))) &&
          (let v := bv c pth in
           list_eqb beq (b "pack" :: snd pa)
             (GenLibcnbTest.gen_pack_build_argv img (v_builder v) (img ++ b ".build-cache") (img ++ b ".launch-cache") (v_path v)
                PullIfNotPresent (map BpId (v_buildpacks v)) (v_env v) true true))
      | _, _, _ => false
      end
  | _, _ => false
  end.
