(* C11Agree.v -- correspondence: observed result and final tree = the executable model, with the
   repair flags and SBOM suffix table read from the source by the translator. *)
From LV Require Import Base Toml FS FSFacts LayerShared.
From LV.Checks Require Import C11Hold.
From LV Require Import ImpPrims ImpTypes.
From LVGen Require GenLayerShared GenLayerSharedImp.

Definition model (c : case) : fs * result errno unit :=
  match c_op c with
  | OpDeleteLayer =>
      delete_layer GenLayerShared.rdr_checks_symlink GenLayerShared.delete_layer_removes_sboms
                   GenLayerShared.sbom_suffixes (c_layers c) (c_name c) (c_pre c)
  | OpRdr =>
      remove_dir_recursively GenLayerShared.rdr_checks_symlink (rdr_fuel (c_pre c))
                             (c_layers c ++ [c_name c]) (c_pre c)
  | OpRecreate => (c_post c, Ok tt)       (* compared with recreate_model in `agrees` *)
  | OpReadLayer =>
      (* read_layer as regenerated from shared.rs; parsing succeeds in the model (a parse error comes after every
         file-system effect and is accepted by res_agrees_read) *)
      let '(s', r) := GenLayerSharedImp.gen_read_layer (fun _ : bytes => Some tt) (c_layers c) (c_name c) (c_pre c) in
      (s', match r with Ok _ => Ok tt | Err e => Err e end)
  (* write_layer / replace_layer_types as regenerated from shared.rs; the encoding and the parsing of the document
     are parameters: the model writes a placeholder document, the comparison blanks the documents (doc_blank) *)
  | OpWriteLayer => GenLayerSharedImp.gen_write_layer (fun _ : unit => Toml.TTbl []) (c_layers c) (c_name c) tt (c_pre c)
  | OpReplaceTypes =>
      GenLayerSharedImp.gen_replace_layer_types (Ty:=unit) (Md:=unit) (fun _ : bytes => Some (None, tt)) (fun _ => Toml.TTbl [])
                                               (c_layers c) (c_name c) tt (c_pre c)
  | OpKeep => (c_post c, Ok tt)       (* compared with keep_model in `agrees` *)
  | OpReplaceMetadata =>
      GenLayerSharedImp.gen_replace_layer_metadata (Ty:=unit) (Md:=unit) (fun _ : bytes => Some (None, tt)) (fun _ => Toml.TTbl [])
                                                  (c_layers c) (c_name c) tt (c_pre c)
  end.

(* where the model holds a document, the contents are not compared (the encoder is a parameter of the model) *)
Definition doc_blank (ms : fs) (s : fs) : fs :=
  map (fun kv => match pget (fst kv) ms, snd kv with
                 | Some (File _ (Doc _)), File m _ => (fst kv, File m (Raw []))
                 | _, _ => kv
                 end) s.

Definition res_agrees (o : c11_res) (m : result errno unit) : bool :=
  match o, m with
  | ROk, Ok _ => true
  | RErrno e, Err e' => errno_eqb e e'
  | ROther, Err e' => negb (errno_eqb e' ENOENT)
  | _, _ => false
  end.

(* delete_layer as regenerated statement by statement from shared.rs (GenLayerSharedImp) *)
Definition model_regenerated (c : case) : fs * result errno unit :=
  match c_op c with
  | OpDeleteLayer => GenLayerSharedImp.gen_delete_layer (c_layers c) (c_name c) (c_pre c)
  | OpRdr | OpRecreate | OpReadLayer | OpWriteLayer | OpReplaceTypes | OpReplaceMetadata | OpKeep => model c
  end.

(* BuildContext::uncached_layer on an existing layer, as handle_layer composes it: read_layer; delete_layer when
   a layer was read; write_layer; read_layer again -- every step the function regenerated from shared.rs *)
Definition recreate_model (c : case) : fs * result errno unit :=
  let parse := fun _ : bytes => Some tt in
  (r1 <- GenLayerSharedImp.gen_read_layer parse (c_layers c) (c_name c) ;;
   (match r1 with Some _ => GenLayerSharedImp.gen_delete_layer (c_layers c) (c_name c) | None => ret tt end) ;;;
   GenLayerSharedImp.gen_write_layer (fun _ : unit => Toml.TTbl []) (c_layers c) (c_name c) tt ;;;
   _ <- GenLayerSharedImp.gen_read_layer parse (c_layers c) (c_name c) ;; ret tt) (c_pre c).

(* BuildContext::cached_layer whose callbacks keep the layer, as handle_layer composes it: read_layer; when a layer
   was read replace_layer_types, otherwise write_layer and read_layer again *)
Definition keep_model (c : case) : fs * result errno unit :=
  let parse := fun _ : bytes => Some tt in
  (r1 <- GenLayerSharedImp.gen_read_layer parse (c_layers c) (c_name c) ;;
   match r1 with
   | Some _ => GenLayerSharedImp.gen_replace_layer_types (Ty:=unit) (Md:=unit) (fun _ : bytes => Some (None, tt)) (fun _ => Toml.TTbl [])
                                                        (c_layers c) (c_name c) tt
   | None => GenLayerSharedImp.gen_write_layer (fun _ : unit => Toml.TTbl []) (c_layers c) (c_name c) tt ;;;
             _ <- GenLayerSharedImp.gen_read_layer parse (c_layers c) (c_name c) ;; ret tt
   end) (c_pre c).

(* a parse error (ROther) ends a call whose file-system part went through *)
Definition res_agrees_read (o : c11_res) (m : result errno unit) : bool :=
  match o, m with
  | ROther, Ok _ => true
  | _, _ => res_agrees o m
  end.

Definition agrees (c : case) : bool :=
  match c_op c with
  | OpRecreate =>
      (* the composed model, or a request that failed after its first read (unparsable metadata is the real
         parser's business: the model's parser accepts everything) *)
      (let '(s', r) := recreate_model c in res_agrees (c_res c) r && fs_eqb (doc_blank s' s') (doc_blank s' (c_post c))) ||
      (match c_res c with ROk => false | _ => true end &&
       fs_eqb (c_post c) (fst (GenLayerSharedImp.gen_read_layer (fun _ : bytes => Some tt) (c_layers c) (c_name c) (c_pre c))))
  | OpKeep =>
      (let '(s', r) := keep_model c in res_agrees (c_res c) r && fs_eqb (doc_blank s' s') (doc_blank s' (c_post c))) ||
      (match c_res c with ROk => false | _ => true end &&
       fs_eqb (c_post c) (fst (GenLayerSharedImp.gen_read_layer (fun _ : bytes => Some tt) (c_layers c) (c_name c) (c_pre c))))
  | _ => false
  end ||
  match c_op c with
  | OpReadLayer => let '(s', r) := model c in res_agrees_read (c_res c) r && fs_eqb s' (c_post c)
  | OpWriteLayer => let '(s', r) := model c in res_agrees (c_res c) r && fs_eqb (doc_blank s' s') (doc_blank s' (c_post c))
  | OpReplaceTypes | OpReplaceMetadata =>
      (* a document the real parser rejects (ROther): nothing is written *)
      match c_res c with
      | ROther => fs_eqb (c_post c) (c_pre c)
      | _ => let '(s', r) := model c in res_agrees (c_res c) r && fs_eqb (doc_blank s' s') (doc_blank s' (c_post c))
      end
  | _ => false
  end ||
  (let '(s', r) := model c in res_agrees (c_res c) r && fs_eqb s' (c_post c)) &&
  (let '(s', r) := model_regenerated c in res_agrees (c_res c) r && fs_eqb s' (c_post c)).
