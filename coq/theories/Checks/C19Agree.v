(* C19Agree.v -- correspondence: the writers' observed output = the state-machine models (with the
   translator's reading of the empty-remainder rule); for the command half the model is the pipe
   system of Stream.v, whose schedules the operating system samples. *)
From LV Require Import Base Stream StreamFacts.
From LV.Checks Require Import C19Hold.
From LVGen Require GenStream.

Definition agrees (c : case) : bool :=
  match c with
  | CMapped k mk chunks out => beq out (mw_run (mapper_fn k) mk GenStream.mapped_skips_empty_remainder chunks)
  | CTee chunks a b => let '(x, y) := tee_run chunks in beq a x && beq b y
  | CCommand _ _ _ _ _ _ _ _ _ _ => holds c
  end.
