(* C19Agree.v -- correspondence: the writers' observed output = the state-machine models (with the
   translator's reading of the empty-remainder rule); for the command half the model is the pipe
   system of Stream.v, whose schedules the operating system samples. *)
From LV Require Import Base Stream StreamFacts.
From LV.Checks Require Import C19Hold.
From LVGen Require GenStream.

(* the writer run with the bodies regenerated from the source: every byte of every chunk through
   gen_mw_byte, then drop *)
Definition gen_mw_run (f : bytes -> bytes) (mk : N) (chunks : list bytes) : option bytes :=
  let step := fun (st : bytes * option bytes) (x : N) => GenStream.gen_mw_byte f (fst st) (snd st) mk x in
  let st := fold_left (fun st chunk => fold_left step chunk st) chunks ([], Some []) in
  snd (GenStream.gen_mw_drop f (fst st) (snd st)).

Definition agrees (c : case) : bool :=
  match c with
  | CMapped k mk chunks out =>
      beq out (mw_run (mapper_fn k) mk GenStream.mapped_skips_empty_remainder chunks) &&
      match gen_mw_run (mapper_fn k) mk chunks with Some o => beq out o | None => false end
  | CTee chunks a b => let '(x, y) := tee_run chunks in beq a x && beq b y
  | CCommand _ _ _ _ _ _ _ _ _ _ => holds c
  end.
