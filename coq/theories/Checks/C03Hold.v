(* C03Hold.v -- case record and verified-oracle judgement for the layer-env-on-disk stream
   (serves C03 and C10).  The oracle side uses the SPEC tables only. *)
From LV Require Import Base FS FSFacts LayerEnv LayerEnvFacts LayerShared LayerEnvFS.

Inductive step :=
| SWrite (l : list ins)
| SRead (probes : list (scope * list (bytes * bytes)))
| SReadWrite.

Inductive step_res := SOk (probe_out : list (list (bytes * bytes))) | SErr (e : option errno).

Record case := mkCase {
  c_init : fs;                               (* observed snapshot before the first step *)
  c_dir : path;
  c_steps : list (step * step_res * fs)      (* step, observed result, observed snapshot after it *)
}.

Definition env_roots (dir : path) : list path := [dir ++ [n_env]; dir ++ [n_env_build]; dir ++ [n_env_launch]].
Definition under_env (dir : path) (q : path) : bool := existsb (fun r => is_prefix r q) (env_roots dir).

(* the files the CNB spec prescribes for a layer environment: (path, contents) *)
Definition spec_files_of_delta (root : path) (d : delta) : list (path * bytes) :=
  map (fun f => (root ++ [fst f], snd f)) (delta_files spec_beh_order spec_writer_table d).
Definition spec_layout (dir : path) (e : layer_env) : list (path * bytes) :=
  spec_files_of_delta (dir ++ [n_env]) (le_all e) ++
  spec_files_of_delta (dir ++ [n_env_build]) (le_build e) ++
  spec_files_of_delta (dir ++ [n_env_launch]) (le_launch e) ++
  flat_map (fun pd => spec_files_of_delta (dir ++ [n_env_launch; fst pd]) (snd pd)) (le_process e).

(* directories that must exist: a root iff its delta is non-empty (or, for env.launch, some process
   delta is non-empty); a process directory iff its delta is non-empty *)
Definition spec_dirs (dir : path) (e : layer_env) : list path :=
  (if delta_is_empty (le_all e) then [] else [dir ++ [n_env]]) ++
  (if delta_is_empty (le_build e) then [] else [dir ++ [n_env_build]]) ++
  (if delta_is_empty (le_launch e) && forallb (fun pd => delta_is_empty (snd pd)) (le_process e)
   then [] else [dir ++ [n_env_launch]]) ++
  flat_map (fun pd => if delta_is_empty (snd pd) then [] else [dir ++ [n_env_launch; fst pd]]) (le_process e).

Definition file_content (o : option node) : option bytes :=
  match o with Some (File _ (Raw c)) => Some c | _ => None end.

(* exactly the prescribed files and directories below the three roots *)
Definition layout_exact (dir : path) (e : layer_env) (post : fs) : bool :=
  forallb (fun pc => opt_eqb beq (file_content (pget (fst pc) post)) (Some (snd pc))) (spec_layout dir e) &&
  forallb (fun d => match pget d post with Some (Dir _) => true | _ => false end) (spec_dirs dir e) &&
  forallb (fun kv => negb (under_env dir (fst kv)) ||
                     existsb (fun pc => path_eqb (fst kv) (fst pc)) (spec_layout dir e) ||
                     existsb (path_eqb (fst kv)) (spec_dirs dir e)) post.

Definition clear_paths_le (e : layer_env) : layer_env :=
  mkLE (le_all e) (le_build e) (le_launch e) (le_process e) delta_empty delta_empty.

Definition spec_read (dir : path) (s : fs) : fs * result errno layer_env :=
  read_from_layer_dir spec_reader_table spec_no_ext spec_layer_paths spec_sep true dir s.

Definition probes_ok (e : layer_env) (probes : list (scope * list (bytes * bytes)))
           (outs : list (list (bytes * bytes))) : bool :=
  Nat.eqb (length probes) (length outs) &&
  forallb (fun po => let '((sc, e0), out) := po in chk_apply e sc (bof_list e0) out) (combine probes outs).

Definition step_holds (dir : path) (pre : fs) (st : step * step_res * fs) : bool :=
  let '(stp, res, post) := st in
  (* nothing outside the three env roots is touched, whatever the step and its outcome *)
  frame_chk (under_env dir) pre post &&
  match stp, res with
  | SWrite l, SOk _ => layout_exact dir (le_of_inserts l) post
  | SWrite l, SErr _ =>
      (* writing an environment must not fail where the specified writer succeeds (e.g. a process
         directory below an env.launch that an empty launch delta did not create) *)
      match write_to_layer_dir spec_beh_order spec_writer_table (le_of_inserts l) dir pre with
      | (_, Ok _) => false
      | (_, Err _) => true
      end
  | SRead probes, SOk outs =>
      match spec_read dir pre with
      | (_, Ok e) => probes_ok e probes outs
      | (_, Err _) => false           (* the spec reader fails, the implementation did not *)
      end
  | SRead _, SErr _ => match spec_read dir pre with (_, Err _) => true | _ => false end
  | SReadWrite, SOk _ =>
      (* the env directories are rewritten from what was read: implicit entries never appear *)
      match spec_read dir pre with
      | (_, Ok e) => layout_exact dir (clear_paths_le e) post
      | (_, Err _) => false
      end
  | SReadWrite, SErr _ =>
      (* a read -> write cycle fails only where the specified reader or writer fails *)
      match spec_read dir pre with
      | (_, Ok e) => match write_to_layer_dir spec_beh_order spec_writer_table e dir pre with
                     | (_, Ok _) => false
                     | (_, Err _) => true
                     end
      | (_, Err _) => true
      end
  end.

Definition holds (c : case) : bool :=
  (fix go (pre : fs) (l : list (step * step_res * fs)) : bool :=
     match l with
     | [] => true
     | st :: l' => step_holds (c_dir c) pre st && go (snd st) l'
     end) (c_init c) (c_steps c).

Definition branch_of (c : case) : N := N.of_nat (length (c_steps c)).
