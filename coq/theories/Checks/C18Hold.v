(* C18Hold.v -- C18 case record and verified-oracle judgement (no generated tables). *)
From LV Require Import Base Toml Serde Inventory InventoryFacts InventoryToml.

Record query := mkQ { q_os : os; q_arch : arch; q_req : req;
                      q_partial : option nat; q_total : option nat;
                      q_pnan : option nat }.      (* partial_resolve with self-incomparable versions *)   (* observed indices *)

Inductive cks_obs :=
| CkOk (name value : bytes) (shown : option bytes) (reparse_eq : bool)
| CkErr (e : cks_error).

Inductive case :=
| CResolve (arts : list artifact) (qs : list query)
| CChecksum (s : bytes) (o : cks_obs)
| CChecksum512 (s : bytes) (o : cks_obs)      (* Checksum<Sha512>::from_str *)
| CToml (arts : list tart) (tree : option tv) (parse_ok rt_eq : bool).
    (* arts: the inventory handed to Display; tree: the rendered text as an independent TOML reader
       (Python tomllib) sees it, None = not valid TOML; parse_ok / rt_eq: FromStr succeeded / gave
       equal artifacts *)

Definition spec_sha256_name : bytes := [115; 104; 97; 50; 53; 54].   (* "sha256" *)
Definition spec_sha256_len : N := 32.
Definition spec_sha512_name : bytes := [115; 104; 97; 53; 49; 50].   (* "sha512" *)
Definition spec_sha512_len : N := 64.

(* the TOML stream instantiates the version with a string ("x.y.0", semver::Version) and the
   metadata with Option<String>; the checksum validator is Checksum<Sha256>::from_str *)
Definition toml_V : sty := TyString.
Definition toml_M : sty := TyOption TyString.
Definition toml_vf (i : nat) (s : bytes) : bool :=
  if Nat.eqb i checksum_validator
  then match parse_checksum (beq spec_sha256_name) (N.eqb spec_sha256_len) s with Ok _ => true | Err _ => false end
  else true.

Definition tart_eqb (a b : tart) : bool :=
  sval_eqb (ta_ver a) (ta_ver b) && os_eqb (ta_os a) (ta_os b) && arch_eqb (ta_arch a) (ta_arch b) &&
  beq (ta_url a) (ta_url b) && beq (fst (ta_ck a)) (fst (ta_ck b)) && beq (snd (ta_ck a)) (snd (ta_ck b)) &&
  sval_eqb (ta_meta a) (ta_meta b).
Fixpoint tarts_eqb (x y : list tart) : bool :=
  match x, y with
  | [], [] => true
  | a :: x', b :: y' => tart_eqb a b && tarts_eqb x' y'
  | _, _ => false
  end.

Definition query_holds (arts : list artifact) (q : query) : bool :=
  let sel := art_sel (q_os q) (q_arch q) (q_req q) in
  chk_resolve a_ver sel ver_pcmp arts (q_partial q) &&
  chk_resolve a_ver sel ver_pcmp_nan arts (q_pnan q) &&
  chk_resolve a_ver sel (fun a b => Some (ver_cmp a b)) arts (q_total q).

Definition holds (c : case) : bool :=
  match c with
  | CResolve arts qs => forallb (query_holds arts) qs
  | CChecksum s o =>
      match parse_checksum (beq spec_sha256_name) (N.eqb spec_sha256_len) s, o with
      | Ok (n, v), CkOk n' v' shown rp =>
          beq n n' && beq v v' && rp &&
          match shown with Some t => beq t (show_checksum (n, v)) | None => false end
      | Err _, CkErr _ => true
      | _, _ => false
      end
  | CChecksum512 s o =>
      match parse_checksum (beq spec_sha512_name) (N.eqb spec_sha512_len) s, o with
      | Ok (n, v), CkOk n' v' shown rp =>
          beq n n' && beq v v' && rp &&
          match shown with Some t => beq t (show_checksum (n, v)) | None => false end
      | Err _, CkErr _ => true
      | _, _ => false
      end
  | CToml arts tree p r => p && r      (* the property: parsing the rendered text gives equal artifacts *)
  end.

(* the rendered text, read by an independent TOML reader and decoded with the SPECIFIED inventory
   schema, is exactly the inventory (used by the correspondence judgement: the property itself
   only asks for the round trip, not for particular key names) *)
Definition toml_reads_back (arts : list tart) (tree : option tv) : bool :=
  match tree with
  | Some t =>
      match decode toml_vf false (spec_Inventory toml_V toml_M) t with
      | Some x => match inv_of_sval (beq spec_sha256_name) (N.eqb spec_sha256_len) x with
                  | Some back => tarts_eqb back arts
                  | None => false
                  end
      | None => false
      end
  | None => false
  end.

Definition branch_of (c : case) : N :=
  match c with
  | CResolve arts qs => N.of_nat (length (filter (fun q => match q_partial q with Some _ => true | None => false end) qs))
  | CChecksum512 s o => match o with CkOk _ _ _ _ => 200 | CkErr _ => 201 end
  | CChecksum s o => match o with CkOk _ _ _ _ => 100 | CkErr MissingPrefix => 101 | CkErr IncompatiblePrefix => 102
                                  | CkErr InvalidValue => 103 | CkErr InvalidLength => 104 end
  | CToml arts _ _ _ => 200 + N.of_nat (length arts)
  end.
