(* C18Hold.v -- C18 case record and verified-oracle judgement (no generated tables). *)
From LV Require Import Base Inventory InventoryFacts.

Record query := mkQ { q_os : os; q_arch : arch; q_req : req;
                      q_partial : option nat; q_total : option nat }.   (* observed indices *)

Inductive cks_obs :=
| CkOk (name value : bytes) (shown : option bytes) (reparse_eq : bool)
| CkErr (e : cks_error).

Inductive case :=
| CResolve (arts : list artifact) (qs : list query)
| CChecksum (s : bytes) (o : cks_obs)
| CToml (n_arts : N) (parse_ok rt_eq : bool).

Definition spec_sha256_name : bytes := [115; 104; 97; 50; 53; 54].   (* "sha256" *)
Definition spec_sha256_len : N := 32.

Definition query_holds (arts : list artifact) (q : query) : bool :=
  let sel := art_sel (q_os q) (q_arch q) (q_req q) in
  chk_resolve a_ver sel ver_pcmp arts (q_partial q) &&
  chk_resolve a_ver sel (fun a b => Some (ver_cmp a b)) arts (q_total q).

Definition holds (c : case) : bool :=
  match c with
  | CResolve arts qs => forallb (query_holds arts) qs
  | CChecksum s o =>
      match parse_checksum (beq spec_sha256_name) (N.eqb spec_sha256_len) s, o with
      | Ok (n, v), CkOk n' v' shown rp =>
          beq n n' && beq v v' && rp &&
          match shown with Some t => beq t (show_checksum (n, v)) | None => false end
      | Err _, CkErr _ => true
      | _, _ => false
      end
  | CToml _ p r => p && r
  end.

Definition branch_of (c : case) : N :=
  match c with
  | CResolve arts qs => N.of_nat (length (filter (fun q => match q_partial q with Some _ => true | None => false end) qs))
  | CChecksum s o => match o with CkOk _ _ _ _ => 100 | CkErr MissingPrefix => 101 | CkErr IncompatiblePrefix => 102
                                  | CkErr InvalidValue => 103 | CkErr InvalidLength => 104 end
  | CToml _ _ _ => 200
  end.
