(* C12Agree.v -- correspondence: the translator's site table contains propagating sites only (and
   the reviewed Matched sites), and every injected fault behaves as FaultProp.run predicts for a
   propagating site: the call reports an error after exactly k counted calls. *)
From LV Require Import Base SpecDocs FaultProp.
From LV.Checks Require Import C12Hold.
From LVGen Require GenIoSites.
From Coq Require Import String.
Open Scope string_scope.
Open Scope N_scope.
Open Scope list_scope.

Definition spec_reviewed : list (bytes * bytes * bytes) :=
  [ (b "libcnb/src/layer/struct_api/handling.rs", b "handle_layer", b "read_layer");
    (b "libcnb/src/layer/trait_api/handling.rs", b "handle_layer", b "read_layer") ].

Definition sites_ok : bool :=
  all_propagate GenIoSites.io_sites && matched_reviewed spec_reviewed GenIoSites.io_sites &&
  Nat.leb 60 (List.length GenIoSites.io_sites).

(* prediction for a fault at position k of a trace of propagating sites *)
Definition predicted (k : nat) (e : N) : nat * option N :=
  run (repeat (Try, None) (k - 1) ++ [(Try, Some e)] ++ repeat (Try, None) 3).

Definition run_agrees (r : frun) : bool :=
  let '(calls, err) := predicted (f_k r) (f_errno r) in
  negb (f_crash r) && Bool.eqb (f_ok r) (match err with None => true | Some _ => false end) && Nat.eqb (f_calls r) calls.

Definition agrees (c : case) : bool := sites_ok && k_ok0 c && forallb run_agrees (k_runs c).
