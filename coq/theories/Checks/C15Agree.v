(* C15Agree.v -- correspondence: the shape facts of command.rs / libcnb-package read by the
   translator are the ones the model was written from, and the observed run equals the model's
   prediction (same judgement: the model is the specification for this property). *)
From LV Require Import Base SpecDocs PkgDesc PackageCmd.
From LV.Checks Require Import C15Hold.
From LVGen Require GenPackage.
Open Scope N_scope.
Open Scope list_scope.

Definition nospace (s : bytes) : bytes := filter (fun c => negb (c =? 32)) s.

Definition shape_ok : bool :=
  GenPackage.cmd_wipes_destination && GenPackage.cmd_roots_shape_ok && GenPackage.cmd_prints_roots_sorted &&
  GenPackage.cmd_order_shape_ok && GenPackage.cmd_default_package_dir_ok && GenPackage.dir_name_shape_ok &&
  GenPackage.assemble_shape_ok && GenPackage.main_target_shape_ok && GenPackage.composite_shape_ok &&
  beq GenPackage.libcnb_package_toml_nospace (nospace libcnb_package_toml).

Definition agrees (c : case) : bool := shape_ok && holds c.
