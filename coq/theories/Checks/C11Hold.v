(* C11Hold.v -- C11 case record and verified-oracle judgement. *)
From LV Require Import Base FS FSFacts LayerShared.

Inductive c11_op := OpDeleteLayer | OpRdr | OpRecreate    (* OpRecreate: BuildContext::uncached_layer on the layer *)
                  | OpReadLayer                            (* shared::read_layer through the hook *)
                  | OpWriteLayer | OpReplaceTypes | OpReplaceMetadata | OpKeep.   (* OpKeep: BuildContext::cached_layer, callbacks keep; shared::write_layer / replace_layer_types through the hooks *)
Inductive c11_res := ROk | RErrno (e : errno) | ROther.

Record case := mkCase {
  c_pre : fs;            (* observed snapshot before the call (root entry included) *)
  c_layers : path;
  c_name : name;
  c_op : c11_op;
  c_res : c11_res;
  c_post : fs            (* observed snapshot after the call *)
}.

(* what the call may touch *)
Definition owned_of (c : case) : path -> bool :=
  match c_op c with
  | OpDeleteLayer | OpRecreate | OpKeep => owned spec_sbom_suffixes (c_layers c) (c_name c)
  | OpRdr => is_prefix (c_layers c ++ [c_name c])
  | OpReadLayer | OpReplaceTypes | OpReplaceMetadata => path_eqb (c_layers c ++ [toml_name (c_name c)])
  | OpWriteLayer => fun q => path_eqb (c_layers c ++ [c_name c]) q || path_eqb (c_layers c ++ [toml_name (c_name c)]) q
  end.

(* every file, directory, permission and link target outside the layer is exactly as before
   (frame_chk_correct), and after a successful call none of the layer's own entries exists *)
(* the specified operation (repair flags on, the CNB SBOM suffixes) on the observed pre-state *)
Definition spec_run (c : case) : fs * result errno unit :=
  match c_op c with
  | OpDeleteLayer | OpRecreate => delete_layer true true spec_sbom_suffixes (c_layers c) (c_name c) (c_pre c)
  | OpRdr => remove_dir_recursively true (rdr_fuel (c_pre c)) (c_layers c ++ [c_name c]) (c_pre c)
  | OpReadLayer => (c_pre c, Ok tt)      (* judged by read_effect_ok below *)
  | OpWriteLayer | OpReplaceTypes | OpReplaceMetadata | OpKeep => (c_pre c, Ok tt)      (* call-level comparison only: C11Agree *)
  end.

(* the conclusion of c11_read_layer_effect, read off the observed directories: nothing changed, or the
   <name>.toml ENTRY is gone, or an empty regular file stands where the path held no entry *)
Definition read_effect_ok (c : case) : bool :=
  let tp := c_layers c ++ [toml_name (c_name c)] in
  fs_eqb (c_post c) (c_pre c) || fs_eqb (c_post c) (pdel tp (c_pre c)) ||
  match pget tp (c_pre c), pget tp (c_post c) with
  | None, Some (File m (Raw [])) => fs_eqb (c_post c) (pset tp (File m (Raw [])) (c_pre c))
  | _, _ => false
  end.

(* every file, directory, permission and link target outside the layer is exactly as before
   (frame_chk_correct), after a successful call none of the layer's own entries exists, and a tree
   the specified operation removes (whatever its permissions and symlinks) IS removed: the call must
   not fail where the specification succeeds *)
Definition holds (c : case) : bool :=
  match c_op c with
  | OpWriteLayer | OpReplaceTypes | OpReplaceMetadata | OpKeep =>
      (* fs::write follows a link standing at <name>.toml (in the library these functions run after delete_layer
         or read_layer, which leave no link there): the frame is judged where the path is not a link *)
      match pget (c_layers c ++ [toml_name (c_name c)]) (c_pre c) with
      | Some (Link _) => true
      | _ => frame_chk (owned_of c) (c_pre c) (c_post c)
      end
  | _ =>
  frame_chk (owned_of c) (c_pre c) (c_post c) &&
  match c_res c, c_op c with
  | _, OpReadLayer => read_effect_ok c
  | ROk, OpRecreate =>
      (* the old entries are gone: what the layer owns afterwards is a fresh empty directory and a fresh
         REGULAR content-metadata file (not the link or file that was there before) *)
      forallb (fun kv => negb (owned_of c (fst kv)) ||
                         (path_eqb (fst kv) (c_layers c ++ [c_name c]) && match snd kv with Dir _ => true | _ => false end) ||
                         (path_eqb (fst kv) (c_layers c ++ [toml_name (c_name c)]) && match snd kv with File _ _ => true | _ => false end))
              (c_post c)
  | ROk, _ => forallb (fun kv => negb (owned_of c (fst kv))) (c_post c)
  | _, OpRecreate => true      (* a request may fail (unreadable or unparsable metadata ...): then only the frame is judged *)
  | _, _ => match snd (spec_run c) with Ok _ => false | Err _ => true end
  end
  end.

Definition branch_of (c : case) : N :=
  match c_res c with ROk => 1 | RErrno _ => 2 | ROther => 3 end +
  match pget (c_layers c ++ [c_name c]) (c_pre c) with
  | Some (Link _) => 10 | Some (Dir _) => 20 | Some (File _ _) => 30 | None => 40 end.
