(* C01FsHold.v -- C01 at the level of the file system: LayerRef::write_sboms on a layer directory
   next to which somebody left entries at the layer's SBOM paths (files, links to files outside the
   layer, dangling links).  Judged by the frame oracle (FSFacts.frame_chk_correct) and by the
   conclusion of c01_replace_sboms_exact read off the observed directory. *)
From LV Require Import Base FS FSFacts LayerShared LayerSboms.

Inductive fs_res := ROk | RErrno (e : errno) | ROther.

Record case := mkFs {
  f_pre : fs;                        (* observed snapshot before write_sboms (root entry included) *)
  f_layers : path;
  f_name : name;
  f_sboms : list (N * bytes);        (* SbomFormat (0 CycloneDX, 1 SPDX, 2 Syft) and data, in call order *)
  f_res : fs_res;
  f_post : fs                        (* observed snapshot afterwards *)
}.

Definition spec_suffix (i : N) : bytes := nth (N.to_nat i) spec_sbom_suffixes [].
Definition sb_of (c : case) : list (bytes * bytes) := map (fun fd => (spec_suffix (fst fd), snd fd)) (f_sboms c).

Definition owned_sboms (c : case) (q : path) : bool :=
  existsb (fun sx => path_eqb q (sbom_path (f_layers c) (f_name c) sx)) spec_sbom_suffixes.

Definition holds (c : case) : bool :=
  frame_chk (owned_sboms c) (f_pre c) (f_post c) &&
  match f_res c with
  | ROk =>
      (* exactly the SBOM files handed over, the last of each format, as regular files; none of another format *)
      forallb (fun sx =>
                 match last_data sx (sb_of c), pget (sbom_path (f_layers c) (f_name c) sx) (f_post c) with
                 | Some d, Some (File _ (Raw d')) => beq d d'
                 | None, None => true
                 | _, _ => false
                 end) spec_sbom_suffixes
  | _ =>
      (* the call must not fail where the specified operation succeeds *)
      match snd (replace_layer_sboms spec_sbom_suffixes (f_layers c) (f_name c) (sb_of c) (f_pre c)) with
      | Ok _ => false
      | Err _ => true
      end
  end.

Definition branch_of (c : case) : N :=
  match f_res c with ROk => 1 | RErrno _ => 2 | ROther => 3 end + 10 * N.of_nat (length (f_sboms c)).
