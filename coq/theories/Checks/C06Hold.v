(* C06Hold.v -- C06 case record and spec-side judgement. *)
From LV Require Import Base Toml FS Serde SpecDocs Platform.

Record obs := mkObs {
  ob_platform : list (bytes * bytes);   (* sorted by name *)
  ob_target : target;
  ob_desc : sval;
  ob_plan : option sval;
  ob_store : option (option sval);
  ob_dirs_ok : bool                     (* app / buildpack / layers directory are the supplied ones *)
}.

Record case := mkCase { c_in : inputs; c_obs : option obs }.   (* None: the run ended in a reported error *)

Definition otarget_eqb (a b : target) : bool :=
  beq (t_os a) (t_os b) && beq (t_arch a) (t_arch b) && opt_eqb beq (t_variant a) (t_variant b) &&
  beq (t_dname a) (t_dname b) && beq (t_dver a) (t_dver b).

Definition osval_eqb (a b : option sval) : bool :=
  match a, b with Some x, Some y => sval_eqb x y | None, None => true | _, _ => false end.

Definition bytes_eq_map (a b : list (bytes * bytes)) : bool := bmap_eqb beq (bof_list a) b.

Definition judge (s_desc s_plan s_store : sty) (sil sq : bool) (c : case) : bool :=
  match build_context spec_vf sq s_desc s_plan s_store sil (c_in c), c_obs c with
  | None, None => true
  | Some x, Some o =>
      bytes_eq_map (ob_platform o) (x_platform x) &&
      otarget_eqb (ob_target o) (x_target x) &&
      sval_eqb (ob_desc o) (norm_val s_desc (x_desc x)) &&
      osval_eqb (ob_plan o) (x_plan x) &&
      match ob_store o, x_store x with
      | Some a, Some b => osval_eqb a b
      | None, None => true
      | _, _ => false
      end && ob_dirs_ok o
  | _, _ => false
  end.

(* the spec: descriptor / plan / store formats of SpecDocs.v, tables required where the format
   has tables, and a target value that cannot be represented is an error *)
Definition holds (c : case) : bool :=
  judge spec_Component spec_BuildpackPlan spec_Store false false c.

Definition branch_of (c : case) : N :=
  match c_obs c with Some _ => 1 | None => 0 end + 2 * N.of_nat (length (i_platform_fs (c_in c))).
