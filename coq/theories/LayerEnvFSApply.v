(* LayerEnvFSApply.v -- "reads back unchanged" in the sense that matters (C03): the environment read
   back from a written layer APPLIES identically, for every scope and every starting environment,
   to the environment that was written (with the implicit layer paths of the directories on disk).
   The only difference between the two values -- process deltas without entries have no
   representation on disk -- is invisible to apply. *)
From LV Require Import Base FS FSFacts LayerShared LayerEnv LayerEnvFacts LayerEnvFS LayerEnvFSFacts
  LayerEnvFSExact LayerEnvFSCompose LayerEnvFSRead LayerEnvFSCycle LayerEnvFSProc LayerEnvFSFull.
Open Scope N_scope.

Lemma delta_apply_empty order e : delta_apply order delta_empty e = e.
Proof.
  unfold delta_apply. induction order as [|b order IH]; cbn [fold_left]; [reflexivity|].
  replace (dget delta_empty b) with (@nil (bytes * bytes)) by (destruct b; reflexivity). exact IH.
Qed.

Lemma bget_notin {V} k (m : bmap V) : ~ In k (map fst m) -> bget k m = None.
Proof.
  induction m as [|[k' v] m IH]; intros H; cbn [bget]; [reflexivity|].
  destruct (beq k k') eqn:E.
  - apply beq_spec in E. subst k'. exfalso. apply H. left. reflexivity.
  - apply IH. intros X. apply H. right. exact X.
Qed.

Lemma bget_filter_nonempty procs k : NoDup (map fst procs) ->
  bget k (filter nonempty_proc procs) =
  match bget k procs with Some d => if delta_is_empty d then None else Some d | None => None end.
Proof.
  induction procs as [|[pn pd] procs IH]; intros ND; cbn [filter bget map fst] in *; [reflexivity|].
  inversion ND as [|a b Ha Hb]; subst. unfold nonempty_proc at 1. cbn [snd].
  destruct (delta_is_empty pd) eqn:Ee; cbn [negb bget].
  - destruct (beq k pn) eqn:E.
    + apply beq_spec in E. subst pn. rewrite (IH Hb), (bget_notin k procs Ha), Ee. reflexivity.
    + apply IH, Hb.
  - destruct (beq k pn); [rewrite Ee; reflexivity|apply IH, Hb].
Qed.

Section Apply.
  Variable order : list beh.
  Variable t : scope_table.

  Lemma fold_fields (e1 e2 : layer_env) (sc : scope) fs :
    (forall f acc, fold_left (fun a d => delta_apply order d a) (field_deltas e1 sc f) acc =
                   fold_left (fun a d => delta_apply order d a) (field_deltas e2 sc f) acc) ->
    forall acc, fold_left (fun a d => delta_apply order d a) (flat_map (field_deltas e1 sc) fs) acc =
                fold_left (fun a d => delta_apply order d a) (flat_map (field_deltas e2 sc) fs) acc.
  Proof.
    intros H. induction fs as [|f fs IH]; intros acc; cbn [flat_map]; [reflexivity|].
    rewrite !fold_left_app, H. apply IH.
  Qed.

  (* dropping the process deltas that have no entries does not change what apply computes *)
  Theorem filter_empty_procs_invisible a b l procs pb pl sc e0 :
    NoDup (map fst procs) ->
    le_apply order t (mkLE a b l (filter nonempty_proc procs) pb pl) sc e0 =
    le_apply order t (mkLE a b l procs pb pl) sc e0.
  Proof.
    intros ND. unfold le_apply, deltas_for. cbn [kind_of]. apply fold_fields.
    intros f acc. destruct f; try reflexivity. cbn [field_deltas le_process].
    destruct sc as [| | |p]; try reflexivity.
    rewrite (bget_filter_nonempty procs p ND).
    destruct (bget p procs) as [d|]; [|reflexivity].
    destruct (delta_is_empty d) eqn:Ee; [|reflexivity].
    cbn [fold_left]. rewrite (delta_is_empty_eq d Ee), delta_apply_empty. reflexivity.
  Qed.
End Apply.
