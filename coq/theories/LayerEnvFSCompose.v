(* LayerEnvFSCompose.v -- LayerEnv::write_to_layer_dir as a whole (the three env directories; the
   per-process directories for process-free environments are empty): invariants carried from one
   write_env_dir to the next, and the exact result for every path of the layer directory. *)
From LV Require Import Base FS FSFacts LayerShared LayerSharedFacts LayerSharedGone LayerEnv LayerEnvFS Determinism LayerEnvFSExact FSInv.
From Coq Require Import Lia.
Open Scope N_scope.

Record fs_inv (s : fs) (dir : path) : Prop := {
  inv_simple : simple_dir s dir;
  inv_pc : parent_closed s;
  inv_nodup : fs_nodup s
}.

(* the state of an env root before a write: absent, or a directory remove_dir_all can traverse *)
Definition root_ok (s : fs) (p : path) : Prop :=
  pget p s = None \/ exists m, pget p s = Some (Dir m) /\ subtree_rwx p s = true.

Lemma simple_dir_pset_deeper s d k v : (length d < length k)%nat -> simple_dir s d -> simple_dir (pset k v s) d.
Proof.
  intros Hl [Vn Dd Dw].
  assert (Hne : forall j, (j <= length d)%nat -> firstn j d <> k).
  { intros j Hj E. apply (f_equal (@length name)) in E. rewrite firstn_length in E. lia. }
  constructor.
  - exact Vn.
  - intros j Hj. destruct (Dd j Hj) as (m & Hm & Hx). exists m. rewrite pget_pset_other by (apply Hne; exact Hj). auto.
  - destruct Dw as (m & Hm & Hw & Hx). exists m. rewrite pget_pset_other; [auto|].
    specialize (Hne (length d) (le_n _)). rewrite firstn_all in Hne. exact Hne.
Qed.

Lemma simple_dir_apply_writes_deeper d l : forall s,
  (forall kv, In kv l -> (length d < length (fst kv))%nat) -> simple_dir s d -> simple_dir (apply_writes l s) d.
Proof.
  induction l as [|kv l IH]; intros s H SD; [exact SD|]. cbn [apply_writes fold_left].
  apply IH; [intros x Hx; apply H; right; exact Hx|]. apply simple_dir_pset_deeper; [apply H; left; reflexivity|exact SD].
Qed.

Lemma pc_file_writes p : forall files s,
  parent_closed s -> is_dir_node (pget p s) -> NoDup (map fst files) ->
  (forall f, In f files -> pget (p ++ [fst f]) s = None) ->
  parent_closed (apply_writes (file_writes p files) s).
Proof.
  induction files as [|f files IH]; intros s PC D ND Hn; [exact PC|].
  inversion ND as [|a b Ha Hb]; subst. cbn [file_writes map apply_writes fold_left fst snd].
  apply IH.
  - apply pc_pset_new; [exact PC|exact D|apply Hn; left; reflexivity].
  - destruct D as [m Hm]. exists m. rewrite pget_pset_other; [exact Hm|]. intros X. symmetry in X. exact (snoc_neq_self _ _ X).
  - exact Hb.
  - intros g Hg. rewrite pget_pset_other; [apply Hn; right; exact Hg|].
    intros E. apply app_inv_head in E. inversion E as [E']. apply Ha. rewrite <- E'. apply in_map. exact Hg.
Qed.

Section Compose.
  Variable order : list beh.
  Variable wtab : writer_table.

  (* one env directory: the exact result AND the invariants for the next step *)
  Theorem write_env_dir_step d dir nm s :
    fs_inv s dir -> valid_name nm = true -> files_ok order wtab d -> root_ok s (dir ++ [nm]) ->
    exists s', write_env_dir order wtab d (dir ++ [nm]) s = (s', Ok tt) /\ fs_inv s' dir /\
               (forall q, is_prefix (dir ++ [nm]) q = false -> pget q s' = pget q s) /\
               (forall q, is_prefix (dir ++ [nm]) q = true -> pget q s' = env_dir_spec order wtab d (dir ++ [nm]) q).
  Proof.
    intros [SD PC NDs] Hv FO Hst.
    destruct (write_env_dir_exact order wtab d dir nm s SD PC Hv FO Hst) as (s' & E & F & G).
    exists s'. split; [exact E|]. split; [|split; assumption].
    (* recompute the concrete result to see the representation invariants *)
    destruct FO as [ND VF].
    set (p := dir ++ [nm]) in *.
    assert (S1 : exists s1, (if exists_ p s then remove_dir_all p else ret tt) s = (s1, Ok tt) /\
                            simple_dir s1 dir /\ parent_closed s1 /\ fs_nodup s1 /\ (forall q, is_prefix p q = true -> pget q s1 = None)).
    { destruct Hst as [Hn|(m & Hd & Hrwx)].
      - assert (NL : not_link (pget p s)) by (rewrite Hn; intros t; discriminate).
        unfold exists_, p in *. rewrite (stat_in_dir s dir nm SD Hv NL), Hn.
        exists s. split; [reflexivity|]. split; [exact SD|]. split; [exact PC|]. split; [exact NDs|].
        intros q Hq. apply is_prefix_spec in Hq as [r ->]. apply pc_absent_below; assumption.
      - assert (NL : not_link (pget p s)) by (rewrite Hd; intros t; discriminate).
        unfold exists_, p in *. rewrite (stat_in_dir s dir nm SD Hv NL), Hd.
        rewrite (remove_dir_all_in_dir s dir nm m SD Hv Hd Hrwx).
        exists (premove_under (dir ++ [nm]) s). split; [reflexivity|]. split; [apply simple_dir_premove; exact SD|].
        split; [apply pc_premove; exact PC|]. split; [apply nodup_premove; exact NDs|].
        intros q Hq. rewrite pget_premove, Hq. reflexivity. }
    destruct S1 as (s1 & E1 & SD1 & PC1 & ND1 & G1).
    unfold write_env_dir in E. unfold bindM at 1 in E. rewrite E1 in E.
    destruct (delta_is_empty d) eqn:Ee.
    { inversion E; subst s'. constructor; assumption. }
    assert (Hp1 : pget p s1 = None) by (apply G1, is_prefix_refl).
    pose proof (mkdir_in_dir s1 dir nm SD1 Hv Hp1) as HM. fold p in HM.
    set (s2 := pset p (Dir mode_dir_default) s1) in *.
    assert (HC : create_dir_all (S (length p)) p s1 = (s2, Ok tt)) by (apply create_dir_all_first; [apply snoc_not_nil|exact HM]).
    unfold bindM at 1 in E. rewrite HC in E.
    assert (SD2 : simple_dir s2 dir) by (apply simple_dir_pset_child; exact SD1).
    assert (SDp : simple_dir s2 p) by (apply simple_dir_child; [exact SD2|exact Hv|unfold s2; apply pget_pset_same]).
    assert (Hnone : forall f, In f (delta_files order wtab d) -> pget (p ++ [fst f]) s2 = None).
    { intros f Hf. unfold s2. rewrite pget_pset_other by apply snoc_neq_self. apply G1. unfold p. apply is_prefix_app. }
    rewrite (write_loop p (delta_files order wtab d) s2 SDp ND VF Hnone) in E. inversion E; subst s'.
    constructor.
    - apply simple_dir_apply_writes_deeper; [|exact SD2].
      intros kv Hkv. unfold file_writes in Hkv. apply in_map_iff in Hkv as (f & <- & Hf). cbn [fst].
      unfold p. rewrite !app_length. cbn. lia.
    - apply pc_file_writes; [| |exact ND|exact Hnone].
      + unfold s2. apply pc_pset_new; [exact PC1| |exact Hp1].
        destruct SD1 as [_ _ (m & Hm & _)]. exists m. exact Hm.
      + exists mode_dir_default. unfold s2. apply pget_pset_same.
    - apply nodup_apply_writes, nodup_pset, ND1.
  Qed.

  (* a sibling root keeps its state across the write of another root *)
  Lemma root_ok_frame s s' dir nm nm' :
    fs_nodup s -> fs_nodup s' -> nm <> nm' ->
    (forall q, is_prefix (dir ++ [nm]) q = false -> pget q s' = pget q s) ->
    root_ok s (dir ++ [nm']) -> root_ok s' (dir ++ [nm']).
  Proof.
    intros Ns Ns' Hne F R.
    assert (NP : forall q, is_prefix (dir ++ [nm']) q = true -> is_prefix (dir ++ [nm]) q = false).
    { intros q Hq. destruct (is_prefix (dir ++ [nm]) q) eqn:E; [|reflexivity]. exfalso.
      apply is_prefix_spec in Hq as [r1 ->]. apply is_prefix_spec in E as [r2 E].
      rewrite <- !app_assoc in E. apply app_inv_head in E. cbn in E. inversion E. congruence. }
    destruct R as [Hn|(m & Hd & Hr)].
    - left. rewrite F; [exact Hn|apply NP, is_prefix_refl].
    - right. exists m. split; [rewrite F; [exact Hd|apply NP, is_prefix_refl]|].
      rewrite <- Hr. apply subtree_rwx_pointwise; try assumption. intros q Hq. apply F, NP, Hq.
  Qed.

  Definition process_free (e : layer_env) : Prop := le_process e = [].

  (* the whole layer directory after LayerEnv::write_to_layer_dir, for process-free environments *)
  Theorem write_to_layer_dir_exact e dir s :
    fs_inv s dir -> process_free e ->
    files_ok order wtab (le_all e) -> files_ok order wtab (le_build e) -> files_ok order wtab (le_launch e) ->
    root_ok s (dir ++ [n_env]) -> root_ok s (dir ++ [n_env_build]) -> root_ok s (dir ++ [n_env_launch]) ->
    exists s', write_to_layer_dir order wtab e dir s = (s', Ok tt) /\ fs_inv s' dir /\
      forall q,
        pget q s' =
        if is_prefix (dir ++ [n_env]) q then env_dir_spec order wtab (le_all e) (dir ++ [n_env]) q
        else if is_prefix (dir ++ [n_env_build]) q then env_dir_spec order wtab (le_build e) (dir ++ [n_env_build]) q
        else if is_prefix (dir ++ [n_env_launch]) q then env_dir_spec order wtab (le_launch e) (dir ++ [n_env_launch]) q
        else pget q s.
  Proof.
    intros I0 PF FA FB FL RA RB RL.
    assert (Vn1 : valid_name n_env = true) by reflexivity.
    assert (Vn2 : valid_name n_env_build = true) by reflexivity.
    assert (Vn3 : valid_name n_env_launch = true) by reflexivity.
    assert (N12 : n_env <> n_env_build) by discriminate.
    assert (N13 : n_env <> n_env_launch) by discriminate.
    assert (N23 : n_env_build <> n_env_launch) by discriminate.
    destruct (write_env_dir_step (le_all e) dir n_env s I0 Vn1 FA RA) as (s1 & E1 & I1 & F1 & G1).
    assert (RB1 : root_ok s1 (dir ++ [n_env_build])) by (eapply root_ok_frame; [apply I0|apply I1|exact N12|exact F1|exact RB]).
    assert (RL1 : root_ok s1 (dir ++ [n_env_launch])) by (eapply root_ok_frame; [apply I0|apply I1|exact N13|exact F1|exact RL]).
    destruct (write_env_dir_step (le_build e) dir n_env_build s1 I1 Vn2 FB RB1) as (s2 & E2 & I2 & F2 & G2).
    assert (RL2 : root_ok s2 (dir ++ [n_env_launch])) by (eapply root_ok_frame; [apply I1|apply I2|exact N23|exact F2|exact RL1]).
    destruct (write_env_dir_step (le_launch e) dir n_env_launch s2 I2 Vn3 FL RL2) as (s3 & E3 & I3 & F3 & G3).
    exists s3. split.
    - unfold write_to_layer_dir. unfold bindM at 1. rewrite E1. unfold bindM at 1. rewrite E2. unfold bindM at 1. rewrite E3.
      unfold process_free in PF. rewrite PF. reflexivity.
    - split; [exact I3|]. intros q.
      assert (D : forall a c r, a <> c -> is_prefix (dir ++ [a]) (dir ++ [c] ++ r) = false).
      { intros a c r Hac. destruct (is_prefix (dir ++ [a]) (dir ++ [c] ++ r)) eqn:E; [|reflexivity]. exfalso.
        apply is_prefix_spec in E as [r2 E]. rewrite <- app_assoc in E. apply app_inv_head in E. cbn in E. inversion E. congruence. }
      destruct (is_prefix (dir ++ [n_env]) q) eqn:P1.
      + apply is_prefix_spec in P1 as [r ->]. rewrite <- app_assoc.
        rewrite F3 by (apply D; congruence). rewrite F2 by (apply D; congruence).
        rewrite app_assoc. apply G1. apply is_prefix_app.
      + destruct (is_prefix (dir ++ [n_env_build]) q) eqn:P2.
        * apply is_prefix_spec in P2 as [r ->]. rewrite <- app_assoc.
          rewrite F3 by (apply D; congruence). rewrite app_assoc. apply G2. apply is_prefix_app.
        * destruct (is_prefix (dir ++ [n_env_launch]) q) eqn:P3.
          -- apply G3. exact P3.
          -- rewrite F3, F2, F1 by assumption. reflexivity.
  Qed.
End Compose.
