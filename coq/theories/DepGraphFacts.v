(* DepGraphFacts.v -- proofs about the DfsPostOrder machine (C13). *)
From LV Require Import DepGraph.

Lemma mem_In x l : mem x l = true <-> In x l.
Proof.
  unfold mem. rewrite existsb_exists. split.
  - intros (y & I & E). apply Nat.eqb_eq in E. now subst.
  - intros I. exists x. split; [exact I|apply Nat.eqb_refl].
Qed.

Lemma mem_nIn x l : mem x l = false <-> ~ In x l.
Proof. rewrite <- mem_In. destruct (mem x l); split; congruence. Qed.

(* ---------- reachability ---------- *)
Lemma reach_trans g a b c : reach g a b -> reach g b c -> reach g a c.
Proof. induction 1; intros; [assumption|]. eapply reach_step; eauto. Qed.

Lemma reach_edge g a b : edge g a b -> reach g a b.
Proof. intros. eapply reach_step; [eassumption|apply reach_refl]. Qed.

Lemma reach_snoc g a b c : reach g a b -> edge g b c -> reach g a c.
Proof. intros R E. eapply reach_trans; [exact R|now apply reach_edge]. Qed.

Lemma reach_rank g rank : (forall u v, edge g u v -> rank v < rank u) ->
  forall a b, reach g a b -> rank b <= rank a.
Proof. intros H a b R. induction R as [|u w v E _ IH]; [lia|]. specialize (H _ _ E). lia. Qed.

Lemma no_cycle g a b : acyclic g -> reach g a b -> edge g b a -> False.
Proof.
  intros [rank H] R E. pose proof (reach_rank g rank H _ _ R). specialize (H _ _ E). lia.
Qed.

(* ---------- prefix of a stack above the topmost occurrence of a node ---------- *)
Fixpoint prefix_before (x : nat) (l : list nat) : list nat :=
  match l with
  | [] => []
  | y :: l' => if Nat.eqb y x then [] else y :: prefix_before x l'
  end.

Lemma prefix_before_app x a b : ~ In x a -> prefix_before x (a ++ b) = a ++ prefix_before x b.
Proof.
  induction a as [|y a IH]; intros N; cbn [app prefix_before]; [reflexivity|].
  destruct (Nat.eqb_spec y x) as [->|NE]; [exfalso; apply N; now left|].
  f_equal. apply IH. intro I. apply N. now right.
Qed.

Lemma prefix_before_head x l : prefix_before x (x :: l) = [].
Proof. cbn. now rewrite Nat.eqb_refl. Qed.

Lemma prefix_before_cons x y l : y <> x -> prefix_before x (y :: l) = y :: prefix_before x l.
Proof. intros NE. cbn. destruct (Nat.eqb_spec y x); [contradiction|reflexivity]. Qed.

(* ---------- the invariant ---------- *)
Definition grey (s : st) (x : nat) : Prop := In x (disc s) /\ ~ In x (fin s).

Record Inv (g : graph) (roots0 : list nat) (s : st) : Prop := mkInv {
  I_fd : forall x, In x (fin s) -> In x (disc s);
  I_nd : NoDup (out s);
  I_out : forall x, In x (out s) <-> In x (fin s);
  I_grey : forall x, grey s x -> In x (stack s);
  I_order : forall u v, In u (out s) -> edge g u v -> before v u (out s);
  I_succ : forall x, grey s x -> forall v, edge g x v ->
             In v (fin s) \/ In v (prefix_before x (stack s));
  I_chain : forall x, grey s x -> forall y, In y (prefix_before x (stack s)) -> reach g x y;
  I_reach : forall x, In x (stack s) \/ In x (disc s) -> reachable_from g roots0 x;
  I_roots : forall r, In r roots0 -> In r (stack s) \/ In r (disc s)
}.

Lemma before_app_r v u l x : before v u l -> before v u (l ++ [x]).
Proof. intros (l1 & l2 & -> & I). exists l1, (l2 ++ [x]). split; [|exact I]. now rewrite <- app_assoc. Qed.

Lemma in_pushed g nx d v :
  In v (rev (filter (fun v => negb (mem v d)) (succs g nx))) <-> edge g nx v /\ ~ In v d.
Proof.
  rewrite <- in_rev, filter_In. unfold edge. rewrite negb_true_iff, mem_nIn. tauto.
Qed.

Lemma step_inv g roots0 s s' : acyclic g -> Inv g roots0 s -> step g s = Some s' -> Inv g roots0 s'.
Proof.
  intros AC [Hfd Hnd Hout Hgrey Hord Hsucc Hchain Hreach Hroots] ST.
  unfold step in ST. destruct (stack s) as [|nx rest] eqn:Estack; [discriminate|].
  destruct (mem nx (disc s)) eqn:Ed.
  - (* pop *)
    apply mem_In in Ed.
    destruct (mem nx (fin s)) eqn:Ef; injection ST as <-.
    + (* already finished *)
      apply mem_In in Ef.
      constructor; cbn [stack disc fin out]; try assumption.
      * intros x [Gd Gf]. specialize (Hgrey x (conj Gd Gf)) as [->|I]; [contradiction|exact I].
      * intros x [Gd Gf] v E.
        assert (NE : nx <> x) by (intro; subst; contradiction).
        specialize (Hsucc x (conj Gd Gf) v E). rewrite prefix_before_cons in Hsucc by exact NE.
        destruct Hsucc as [?|[<-|?]]; auto.
      * intros x [Gd Gf] y I.
        assert (NE : nx <> x) by (intro; subst; contradiction).
        apply (Hchain x (conj Gd Gf)). rewrite prefix_before_cons by exact NE. now right.
      * intros x [I|I]; apply Hreach; [left; now right|now right].
      * intros r I. destruct (Hroots r I) as [[<-|?]|?]; auto.
    + (* finish nx *)
      apply mem_nIn in Ef.
      assert (Gnx : grey s nx) by (split; assumption).
      assert (Hall : forall v, edge g nx v -> In v (fin s)).
      { intros v E. specialize (Hsucc nx Gnx v E). rewrite prefix_before_head in Hsucc.
        destruct Hsucc as [?|[]]; assumption. }
      assert (Nout : ~ In nx (out s)) by (rewrite Hout; exact Ef).
      constructor; cbn [stack disc fin out].
      * intros x [<-|I]; [exact Ed|now apply Hfd].
      * (* NoDup (out ++ [nx]) *)
        clear - Hnd Nout. induction (out s) as [|a l IH]; cbn.
        -- constructor; [intros []|constructor].
        -- inversion Hnd; subst. constructor.
           ++ rewrite in_app_iff. intros [?|[<-|[]]]; [contradiction|]. apply Nout. now left.
           ++ apply IH; [assumption|]. intro. apply Nout. now right.
      * intros x. rewrite in_app_iff. cbn. rewrite Hout. tauto.
      * intros x [Gd Gf]. assert (x <> nx) by (intro; subst; apply Gf; now left).
        assert (Gf' : ~ In x (fin s)) by (intro; apply Gf; now right).
        specialize (Hgrey x (conj Gd Gf')) as [E|I]; [congruence|exact I].
      * intros u v Iu E. apply in_app_iff in Iu as [Iu|[<-|[]]].
        -- apply before_app_r. now apply Hord.
        -- exists (out s), []. split; [reflexivity|]. apply Hout. now apply Hall.
      * intros x [Gd Gf] v E. assert (NE : nx <> x) by (intro; subst; apply Gf; now left).
        assert (Gf' : ~ In x (fin s)) by (intro; apply Gf; now right).
        specialize (Hsucc x (conj Gd Gf') v E). rewrite prefix_before_cons in Hsucc by exact NE.
        destruct Hsucc as [?|[<-|?]]; [left; now right|left; now left|now right].
      * intros x [Gd Gf] y I. assert (NE : nx <> x) by (intro; subst; apply Gf; now left).
        assert (Gf' : ~ In x (fin s)) by (intro; apply Gf; now right).
        apply (Hchain x (conj Gd Gf')). rewrite prefix_before_cons by exact NE. now right.
      * intros x [I|I]; apply Hreach; [left; now right|now right].
      * intros r I. destruct (Hroots r I) as [[<-|?]|?]; auto.
  - (* discover nx *)
    apply mem_nIn in Ed. injection ST as <-.
    set (d' := nx :: disc s).
    set (P := rev (filter (fun v => negb (mem v d')) (succs g nx))).
    assert (HP : forall v, In v P <-> edge g nx v /\ ~ In v d') by (intro; apply in_pushed).
    assert (Rnx : reachable_from g roots0 nx) by (apply Hreach; left; now left).
    assert (NoGrey : forall v, edge g nx v -> grey s v -> False).
    { intros v E [Gd Gf]. pose proof (Hgrey v (conj Gd Gf)) as I.
      assert (NE : nx <> v) by (intro; subst; contradiction).
      assert (R : reach g v nx).
      { apply (Hchain v (conj Gd Gf)). rewrite prefix_before_cons by exact NE. now left. }
      eapply no_cycle; eauto. }
    assert (NotP : forall x, In x d' -> ~ In x P).
    { intros x I IP. apply HP in IP. tauto. }
    constructor; cbn [stack disc fin out]; fold d'; fold P.
    + intros x I. right. now apply Hfd.
    + exact Hnd.
    + exact Hout.
    + intros x [[<-|Gd] Gf]; rewrite in_app_iff; right.
      * now left.
      * specialize (Hgrey x (conj Gd Gf)). exact Hgrey.
    + exact Hord.
    + intros x [Gd Gf] v E. rewrite prefix_before_app by (now apply NotP).
      destruct Gd as [<-|Gd].
      * rewrite prefix_before_head, app_nil_r.
        destruct (in_dec Nat.eq_dec v d') as [Id|Nd].
        -- left. destruct Id as [<-|Id].
           ++ exfalso. eapply no_cycle; [exact AC|apply reach_refl|exact E].
           ++ destruct (in_dec Nat.eq_dec v (fin s)) as [?|Nf]; [assumption|].
              exfalso. eapply NoGrey; [exact E|split; assumption].
        -- right. apply HP. split; assumption.
      * assert (NE : nx <> x) by (intro; subst; contradiction).
        specialize (Hsucc x (conj Gd Gf) v E) as [?|I]; [now left|right].
        rewrite in_app_iff. now right.
    + intros x [Gd Gf] y I. rewrite prefix_before_app in I by (now apply NotP).
      apply in_app_iff in I as [I|I].
      * apply HP in I as [E _]. destruct Gd as [<-|Gd]; [now apply reach_edge|].
        assert (NE : nx <> x) by (intro; subst; contradiction).
        eapply reach_snoc; [|exact E]. apply (Hchain x (conj Gd Gf)).
        rewrite prefix_before_cons by exact NE. now left.
      * destruct Gd as [<-|Gd]; [rewrite prefix_before_head in I; destruct I|].
        now apply (Hchain x (conj Gd Gf)).
    + intros x [I|[<-|I]]; [|exact Rnx|apply Hreach; now right].
      apply in_app_iff in I as [I|I]; [|apply Hreach; now left].
      apply HP in I as [E _]. destruct Rnx as (r & Ir & R). exists r. split; [exact Ir|].
      eapply reach_snoc; eauto.
    + intros r I. destruct (Hroots r I) as [[<-|?]|?].
      * right. now left.
      * left. rewrite in_app_iff. right. now right.
      * right. now right.
Qed.

Lemma drain_inv g roots0 fuel s s' : acyclic g -> Inv g roots0 s -> drain g fuel s = Some s' ->
  Inv g roots0 s' /\ stack s' = [].
Proof.
  intros AC. revert s. induction fuel as [|f IH]; intros s I D; cbn [drain] in D; [discriminate|].
  destruct (step g s) as [s1|] eqn:ST.
  - eapply IH; [|exact D]. eapply step_inv; eauto.
  - injection D as <-. split; [exact I|]. unfold step in ST.
    destruct (stack s); [reflexivity|]. destruct (mem n (disc s)); [destruct (mem n (fin s))|]; discriminate.
Qed.

Lemma inv_move_to g roots0 s r : Inv g roots0 s -> stack s = [] ->
  Inv g (r :: roots0) (mkSt [r] (disc s) (fin s) (out s)).
Proof.
  intros [Hfd Hnd Hout Hgrey Hord Hsucc Hchain Hreach Hroots] E.
  assert (NoGrey : forall x, In x (disc s) -> ~ In x (fin s) -> False).
  { intros x Gd Gf. specialize (Hgrey x (conj Gd Gf)). rewrite E in Hgrey. destruct Hgrey. }
  constructor; cbn [stack disc fin out]; try assumption.
  - intros x [Gd Gf]. exfalso. eauto.
  - intros x [Gd Gf]. exfalso. eauto.
  - intros x [Gd Gf]. exfalso. eauto.
  - intros x [[<-|[]]|I].
    + exists r. split; [now left|apply reach_refl].
    + destruct (Hreach x (or_intror I)) as (r0 & I0 & R). exists r0. split; [now right|exact R].
  - intros r0 [<-|I]; [left; now left|].
    destruct (Hroots r0 I) as [I'|I']; [rewrite E in I'; destruct I'|now right].
Qed.

Lemma inv_st0 g : Inv g [] st0.
Proof.
  constructor; cbn [st0 stack disc fin out].
  - intros ? [].
  - constructor.
  - intros; tauto.
  - intros ? [[] _].
  - intros ? ? [].
  - intros ? [[] _].
  - intros ? [[] _].
  - intros ? [[]|[]].
  - intros ? [].
Qed.

Lemma visit_roots_inv g roots0 s roots s' : acyclic g -> Inv g roots0 s -> stack s = [] ->
  visit_roots g s roots = Some s' -> Inv g (rev roots ++ roots0) s' /\ stack s' = [].
Proof.
  intros AC. revert roots0 s. induction roots as [|r rs IH]; intros roots0 s I E V; cbn [visit_roots] in V.
  - injection V as <-. split; assumption.
  - unfold visit_root in V.
    destruct (drain g (fuel_for g) (mkSt [r] (disc s) (fin s) (out s))) as [s1|] eqn:D; [|discriminate].
    apply (drain_inv g (r :: roots0)) in D as [I1 E1]; [|exact AC|now apply inv_move_to].
    specialize (IH (r :: roots0) s1 I1 E1 V). cbn [rev]. rewrite <- app_assoc. exact IH.
Qed.

Lemma reachable_from_perm g l1 l2 x : (forall r, In r l1 <-> In r l2) ->
  reachable_from g l1 x -> reachable_from g l2 x.
Proof. intros H (r & I & R). exists r. split; [now apply H|exact R]. Qed.

(* Main theorem: the three clauses of the property for every acyclic graph and root list. *)
Theorem deps_first g roots o : acyclic g -> get_dependencies g roots = Some o -> order_spec g roots o.
Proof.
  intros AC G. unfold get_dependencies in G.
  destruct (visit_roots g st0 roots) as [s'|] eqn:V; [|discriminate]. injection G as <-.
  apply (visit_roots_inv g []) in V as [I E]; [|exact AC|apply inv_st0|reflexivity].
  rewrite app_nil_r in I.
  destruct I as [Hfd Hnd Hout Hgrey Hord Hsucc Hchain Hreach Hroots].
  assert (DF : forall x, In x (disc s') -> In x (fin s')).
  { intros x Gd. destruct (in_dec Nat.eq_dec x (fin s')) as [?|Gf]; [assumption|].
    specialize (Hgrey x (conj Gd Gf)). rewrite E in Hgrey. destruct Hgrey. }
  split; [exact Hnd|]. split; [|exact Hord].
  intros x. split.
  - intros I. apply Hout, Hfd in I. eapply reachable_from_perm; [|apply Hreach; now right].
    intros r. now rewrite <- in_rev.
  - intros (r & Ir & R).
    assert (Iro : In r (out s')).
    { apply Hout, DF. destruct (Hroots r) as [I'|I']; [now apply -> in_rev|rewrite E in I'; destruct I'|exact I']. }
    clear Ir. induction R as [|u w v Euw _ IH]; [exact Iro|]. apply IH.
    destruct (Hord u w Iro Euw) as (l1 & l2 & -> & I1). rewrite in_app_iff. now left.
Qed.

(* ---------- enough fuel ---------- *)
Fixpoint wsum (g : graph) (d : list nat) (l : list nat) : nat :=
  match l with
  | [] => 0
  | v :: l' => (if mem v d then 0 else S (length (succs g v))) + wsum g d l'
  end.

Lemma wsum_mono g d x l : wsum g (x :: d) l <= wsum g d l.
Proof.
  induction l as [|v l IH]; cbn [wsum]; [lia|].
  unfold mem at 1. cbn [existsb]. fold (mem v d).
  destruct (Nat.eqb v x), (mem v d); cbn; lia.
Qed.

Lemma wsum_discover g d x l : In x l -> ~ In x d ->
  wsum g (x :: d) l + S (length (succs g x)) <= wsum g d l.
Proof.
  induction l as [|v l IH]; intros I N; [destruct I|]. cbn [wsum].
  unfold mem at 1. cbn [existsb]. fold (mem v d).
  destruct (Nat.eqb_spec v x) as [->|NE].
  - apply mem_nIn in N. rewrite N. cbn [orb]. pose proof (wsum_mono g d x l). lia.
  - destruct I as [->|I]; [congruence|]. specialize (IH I N). cbn [orb]. lia.
Qed.

Lemma filter_len_le {A} (f : A -> bool) l : length (filter f l) <= length l.
Proof. induction l as [|a l IH]; cbn; [lia|]. destruct (f a); cbn; lia. Qed.

Definition phi (g : graph) (s : st) : nat := length (stack s) + wsum g (disc s) (seq 0 (length g)).

Definition stack_valid (g : graph) (s : st) : Prop := forall x, In x (stack s) -> x < length g.

Lemma step_valid g s s' : graph_valid g -> stack_valid g s -> step g s = Some s' -> stack_valid g s'.
Proof.
  intros GV SV ST. unfold step in ST. destruct (stack s) as [|nx rest] eqn:E; [discriminate|].
  destruct (mem nx (disc s)).
  - destruct (mem nx (fin s)); injection ST as <-; intros x I; apply SV; rewrite E; now right.
  - injection ST as <-. intros x I. cbn [stack] in I. apply in_app_iff in I as [I|I].
    + rewrite <- in_rev in I. apply filter_In in I as [Ed _]. eapply GV; exact Ed.
    + apply SV. now rewrite E.
Qed.

Lemma step_phi g s s' : stack_valid g s -> step g s = Some s' -> phi g s' < phi g s.
Proof.
  intros SV ST. unfold step in ST. unfold phi. destruct (stack s) as [|nx rest] eqn:E; [discriminate|].
  destruct (mem nx (disc s)) eqn:Ed.
  - destruct (mem nx (fin s)); injection ST as <-; cbn [stack disc length]; lia.
  - injection ST as <-. cbn [stack disc]. apply mem_nIn in Ed.
    assert (V : nx < length g) by (apply SV; rewrite E; now left).
    pose proof (wsum_discover g (disc s) nx (seq 0 (length g))) as W.
    specialize (W ltac:(apply in_seq; lia) Ed).
    rewrite app_length, rev_length. cbn [length].
    match goal with |- context [length (filter ?f ?l)] => pose proof (filter_len_le f l) end.
    fold (succs g nx) in *. lia.
Qed.

Lemma drain_enough g fuel s : graph_valid g -> stack_valid g s -> phi g s < fuel ->
  drain g fuel s <> None.
Proof.
  intros GV. revert s. induction fuel as [|f IH]; intros s SV L; [lia|]. cbn [drain].
  destruct (step g s) as [s1|] eqn:ST; [|discriminate].
  apply IH; [eapply step_valid; eauto|]. pose proof (step_phi g s s1 SV ST). lia.
Qed.

Lemma wsum_le_all g d l : wsum g d l <= length l + list_sum (map (fun v => length (succs g v)) l).
Proof. induction l as [|v l IH]; cbn [wsum length map list_sum fold_right]; [lia|]. fold (list_sum (map (fun v => length (succs g v)) l)). destruct (mem v d); lia. Qed.

Lemma list_sum_cons a l : list_sum (a :: l) = a + list_sum l.
Proof. reflexivity. Qed.

Lemma sum_succs_seq g : list_sum (map (fun v => length (succs g v)) (seq 0 (length g))) = edge_count g.
Proof.
  unfold edge_count, succs.
  assert (H : forall (pre : list (list nat)),
             list_sum (map (fun v => length (nth v (pre ++ g) [])) (seq (length pre) (length g)))
             = list_sum (map (@length nat) g)).
  { induction g as [|row g IH]; intros pre; [reflexivity|]. cbn [length seq map].
    rewrite !list_sum_cons.
    rewrite app_nth2 by lia. rewrite Nat.sub_diag. cbn [nth]. f_equal.
    specialize (IH (pre ++ [row])). rewrite app_length in IH. cbn [length] in IH.
    rewrite Nat.add_1_r in IH. rewrite <- app_assoc in IH. exact IH. }
  exact (H []).
Qed.

Lemma phi_root_bound g d f o r : phi g (mkSt [r] d f o) < fuel_for g.
Proof.
  unfold phi, fuel_for. cbn [stack disc length].
  pose proof (wsum_le_all g d (seq 0 (length g))) as W. rewrite seq_length, sum_succs_seq in W. lia.
Qed.

Theorem fuel_enough g roots : graph_valid g -> (forall r, In r roots -> r < length g) ->
  get_dependencies g roots <> None.
Proof.
  intros GV RV. unfold get_dependencies.
  assert (H : forall s, visit_roots g s roots <> None).
  { induction roots as [|r rs IH]; intros s; cbn [visit_roots]; [discriminate|].
    unfold visit_root.
    destruct (drain g (fuel_for g) (mkSt [r] (disc s) (fin s) (out s))) as [s1|] eqn:D.
    - apply IH. intros r' I. apply RV. now right.
    - exfalso. revert D. apply drain_enough; [exact GV| |apply phi_root_bound].
      intros x [<-|[]]. apply RV. now left. }
  specialize (H st0). destruct (visit_roots g st0 roots); [discriminate|contradiction].
Qed.

(* ---------- graph construction ---------- *)
Lemma find_index_none ids d i : find_index ids d i = None <-> ~ In d ids.
Proof.
  revert i. induction ids as [|x ids IH]; intros i; cbn [find_index In]; [tauto|].
  destruct (Nat.eqb_spec x d) as [->|NE].
  - split; [discriminate|]. intros N. exfalso. apply N. now left.
  - rewrite IH. split; [intros N [?|?]; [congruence|contradiction]|tauto].
Qed.

Lemma resolve_deps_missing ids deps d : resolve_deps ids deps = inl d -> In d deps /\ ~ In d ids.
Proof.
  induction deps as [|x ds IH]; cbn [resolve_deps]; [discriminate|].
  destruct (find_index ids x 0) eqn:F.
  - destruct (resolve_deps ids ds); [|discriminate]. intros [= ->]. destruct (IH eq_refl). split; [now right|assumption].
  - intros [= ->]. apply find_index_none in F. split; [now left|assumption].
Qed.

Lemma resolve_deps_ok ids deps js : resolve_deps ids deps = inr js ->
  (forall d, In d deps -> In d ids) /\
  js = map (fun d => match find_index ids d 0 with Some j => j | None => 0 end) deps.
Proof.
  revert js. induction deps as [|x ds IH]; cbn [resolve_deps]; intros js H.
  - injection H as <-. split; [intros ? []|reflexivity].
  - destruct (find_index ids x 0) eqn:F; [|discriminate].
    destruct (resolve_deps ids ds) as [|js'] eqn:R; [discriminate|]. injection H as <-.
    destruct (IH js' eq_refl) as [A B]. split.
    + intros d [<-|I]; [|now apply A].
      destruct (in_dec Nat.eq_dec x ids) as [?|N]; [assumption|]. apply find_index_none with (i:=0) in N. congruence.
    + cbn [map]. rewrite F. now f_equal.
Qed.

(* A dependency on an unknown id is an error, never dropped. *)
Theorem missing_is_error nodes :
  (exists d, create_graph nodes = CgMissing d) <->
  (exists n deps d, In (n, deps) nodes /\ In d deps /\ ~ In d (map fst nodes)).
Proof.
  unfold create_graph. generalize (map fst nodes) as ids. intros ids.
  induction nodes as [|[n deps] ns IH]; cbn [create_rows].
  - split; [intros [d H]; discriminate|intros (? & ? & ? & [] & _)].
  - destruct (resolve_deps ids deps) as [d0|js] eqn:R.
    + split; [|intros _; now exists d0]. intros _. apply resolve_deps_missing in R as [A B].
      exists n, deps, d0. repeat split; [now left|assumption|assumption].
    + apply resolve_deps_ok in R as [A _].
      destruct (create_rows ids ns) as [d1|g1] eqn:C.
      * split; [|intros _; now exists d1]. intros _.
        destruct IH as [IH _]. destruct (IH (ex_intro _ d1 eq_refl)) as (n' & deps' & d' & I & Id & N).
        exists n', deps', d'. repeat split; [now right|assumption|assumption].
      * split; [intros [d H]; discriminate|].
        intros (n' & deps' & d' & [E|I] & Id & N).
        -- injection E as <- <-. exfalso. apply N. now apply A.
        -- destruct IH as [_ IH]. destruct IH as [d H]; [now exists n', deps', d'|discriminate].
Qed.

(* On success node i's successors are exactly its dependencies' first-matching indices. *)
Theorem create_graph_edges nodes g : create_graph nodes = CgOk g ->
  length g = length nodes /\
  forall i n deps, nth_error nodes i = Some (n, deps) ->
    forall j, edge g i j <-> exists d, In d deps /\ find_index (map fst nodes) d 0 = Some j.
Proof.
  unfold create_graph. generalize (map fst nodes) as ids. intros ids.
  destruct (create_rows ids nodes) as [d|g'] eqn:C; [discriminate|]. intros [= <-].
  revert g' C. induction nodes as [|[n0 deps0] ns IH]; intros g' C; cbn [create_rows] in C.
  - injection C as <-. split; [reflexivity|]. intros [|i] ? ? H; discriminate.
  - destruct (resolve_deps ids deps0) as [|js] eqn:R; [discriminate|].
    destruct (create_rows ids ns) as [|g1] eqn:C1; [discriminate|]. injection C as <-.
    destruct (IH g1 eq_refl) as [L E]. split; [cbn; now rewrite L|].
    intros [|i] n deps H j.
    + cbn [nth_error] in H. injection H as <- <-. unfold edge, succs. cbn [nth].
      rewrite <- in_rev. apply resolve_deps_ok in R as [A ->]. rewrite in_map_iff. split.
      * intros (d & Hj & I). exists d. split; [exact I|].
        destruct (find_index ids d 0) eqn:F; [now subst|]. apply find_index_none in F. exfalso. apply F. now apply A.
      * intros (d & I & F). exists d. rewrite F. split; [reflexivity|exact I].
    + cbn [nth_error] in H. unfold edge, succs. cbn [nth]. apply (E i n deps H j).
Qed.

(* ---------- the boolean oracle is exactly the specification ---------- *)
Lemma nodupb_spec l : nodupb l = true <-> NoDup l.
Proof.
  induction l as [|x l IH]; cbn [nodupb]; [split; [constructor|reflexivity]|].
  rewrite andb_true_iff, negb_true_iff, mem_nIn, IH. split.
  - intros [A B]. now constructor.
  - intros H. inversion H; subst. tauto.
Qed.

Lemma before_cons v u a l : before v u l -> before v u (a :: l).
Proof. intros (l1 & l2 & -> & I). exists (a :: l1), l2. split; [reflexivity|now right]. Qed.

Lemma deps_firstb_sound g seen l : deps_firstb g seen l = true ->
  forall u v, In u l -> edge g u v -> In v seen \/ before v u l.
Proof.
  revert seen. induction l as [|a l IH]; intros seen H u v Iu E; [destruct Iu|].
  cbn [deps_firstb] in H. apply andb_true_iff in H as [H1 H2].
  destruct Iu as [<-|Iu].
  - left. rewrite forallb_forall in H1. apply mem_In. now apply H1.
  - destruct (IH _ H2 u v Iu E) as [[<-|I]|B].
    + right. apply in_split in Iu as (l1 & l2 & ->). exists (a :: l1), l2. split; [reflexivity|now left].
    + now left.
    + right. now apply before_cons.
Qed.

Lemma deps_firstb_complete g seen l : NoDup l ->
  (forall u v, In u l -> edge g u v -> In v seen \/ before v u l) -> deps_firstb g seen l = true.
Proof.
  revert seen. induction l as [|a l IH]; intros seen ND H; [reflexivity|].
  inversion ND as [|? ? Na ND']; subst. cbn [deps_firstb]. apply andb_true_iff. split.
  - apply forallb_forall. intros v E. apply mem_In.
    destruct (H a v (or_introl eq_refl) E) as [?|(l1 & l2 & Eq & I)]; [assumption|].
    destruct l1 as [|b l1]; [destruct I|]. injection Eq as <- ->. exfalso. apply Na.
    rewrite in_app_iff. right. now left.
  - apply IH; [exact ND'|]. intros u v Iu E.
    destruct (H u v (or_intror Iu) E) as [?|(l1 & l2 & Eq & I)]; [left; now right|].
    destruct l1 as [|b l1]; [destruct I|]. injection Eq as <- ->.
    destruct I as [<-|I]; [left; now left|]. right. now exists l1, l2.
Qed.

Lemma nodup_split_unique (l a b a' b' : list nat) x : NoDup l ->
  l = a ++ x :: b -> l = a' ++ x :: b' -> a = a' /\ b = b'.
Proof.
  revert l a'. induction a as [|y a IH]; intros l a' ND E1 E2; subst l.
  - destruct a' as [|z a']; cbn in E2.
    + injection E2 as ->. now split.
    + injection E2 as -> ->. inversion ND as [|? ? N _]; subst. exfalso. apply N.
      rewrite in_app_iff. right. now left.
  - destruct a' as [|z a']; cbn in E2.
    + injection E2 as -> <-. inversion ND as [|? ? N _]; subst. exfalso. apply N.
      rewrite in_app_iff. right. now left.
    + injection E2 as <- E2. inversion ND; subst.
      destruct (IH (a ++ x :: b) a' ltac:(assumption) eq_refl E2) as [-> ->]. now split.
Qed.

Lemma reach_inv_r g a b : reach g a b -> a = b \/ exists w, reach g a w /\ edge g w b.
Proof.
  induction 1 as [|u w v E R IH]; [now left|]. right.
  destruct IH as [->|(w' & R' & E')].
  - exists u. split; [apply reach_refl|exact E].
  - exists w'. split; [eapply reach_step; eauto|exact E'].
Qed.

Theorem chk_order_correct g roots o : chk_order g roots o = true <-> order_spec g roots o.
Proof.
  unfold chk_order, order_spec. rewrite !andb_true_iff, nodupb_spec. split.
  - intros [[[ND DF] RO] PR].
    rewrite forallb_forall in RO, PR.
    assert (Hord : forall u v, In u o -> edge g u v -> before v u o).
    { intros u v Iu E. destruct (deps_firstb_sound g [] o DF u v Iu E) as [[]|B]. exact B. }
    split; [exact ND|]. split; [|exact Hord].
    intros x. split.
    + (* every element is reachable: strong induction on the number of later elements *)
      intros Ix. apply in_split in Ix as (l1 & l2 & Eo).
      remember (length l2) as n eqn:En. revert x l1 l2 Eo En.
      induction n as [n IHn] using lt_wf_ind. intros x l1 l2 Eo En.
      assert (Ix : In x o) by (rewrite Eo, in_app_iff; right; now left).
      specialize (PR x Ix). apply orb_true_iff in PR as [R|P].
      * apply mem_In in R. exists x. split; [exact R|apply reach_refl].
      * apply existsb_exists in P as (u & Iu & Mu). apply mem_In in Mu.
        destruct (Hord u x Iu Mu) as (k1 & k2 & Eo2 & Ik).
        apply in_split in Ik as (a & b & ->).
        rewrite <- app_assoc in Eo2. cbn [app] in Eo2.
        destruct (nodup_split_unique o l1 l2 a (b ++ u :: k2) x ND Eo Eo2) as [-> ->].
        assert (L : length k2 < n) by (subst n; rewrite app_length; cbn; lia).
        destruct (IHn (length k2) L u (a ++ x :: b) k2) as (r & Ir & R).
        -- rewrite Eo2. now rewrite <- app_assoc.
        -- reflexivity.
        -- exists r. split; [exact Ir|]. eapply reach_snoc; eauto.
    + intros (r & Ir & R). assert (Iro : In r o) by (apply mem_In, RO, Ir). clear Ir.
      induction R as [|u w v E _ IH]; [exact Iro|]. apply IH.
      destruct (Hord u w Iro E) as (l1 & l2 & -> & I1). rewrite in_app_iff. now left.
  - intros (ND & RE & Hord). repeat split.
    + exact ND.
    + apply deps_firstb_complete; [exact ND|]. intros u v Iu E. right. now apply Hord.
    + apply forallb_forall. intros r Ir. apply mem_In, RE. exists r. split; [exact Ir|apply reach_refl].
    + apply forallb_forall. intros x Ix. apply orb_true_iff.
      destruct (proj1 (RE x) Ix) as (r & Ir & R).
      destruct (reach_inv_r _ _ _ R) as [->|(w & Rw & E)].
      * left. now apply mem_In.
      * right. apply existsb_exists. exists w. split; [|now apply mem_In].
        apply RE. now exists r.
Qed.
