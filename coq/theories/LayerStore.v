(* LayerStore.v -- executable model of the struct layer API over an abstract layers directory:
   per layer name a record (layer directory as an FS.v tree rooted at the layer, content-metadata
   TOML file, SBOM files).  Models libcnb/src/layer/shared.rs (read_layer, write_layer,
   delete_layer, the replace_layer functions), layer/struct_api/handling.rs (handle_layer, create_layer),
   LayerRef's writers and BuildContext::{cached_layer, uncached_layer}; plus the CNB lifecycle's
   restore between builds (environment model).  Symlinks and permission failures at the level of
   the layers directory itself are C11's subject (FS-level model); here every layer owns its
   record and the layer directory's inside is a full FS.v tree. *)
From LV Require Import Base Toml FS LayerEnv LayerShared LayerEnvFS.
From Coq Require Import String.
From LV Require Import SpecDocs.
Open Scope N_scope.
Open Scope list_scope.

Record ltypes := mkT { t_launch : bool; t_build : bool; t_cache : bool }.
Definition md := option (list (bytes * tv)).            (* GenericMetadata = Option<Table> *)

Definition k_types := b "types". Definition k_metadata := b "metadata".
Definition k_launch := b "launch". Definition k_build := b "build". Definition k_cache := b "cache".
Definition k_version := b "version".

Definition ltypes_eqb (x y : ltypes) : bool :=
  Bool.eqb (t_launch x) (t_launch y) && Bool.eqb (t_build x) (t_build y) && Bool.eqb (t_cache x) (t_cache y).

Definition bool_field (k : bytes) (kvs : list (bytes * tv)) : option bool :=
  match tget k kvs with None => Some false | Some (TBool v) => Some v | Some _ => None end.

Definition mem_bytes (k : bytes) (l : list bytes) : bool := existsb (beq k) l.

(* LayerTypes: deny_unknown_fields, every field defaulted *)
Definition parse_types (x : tv) : option ltypes :=
  match x with
  | TTbl kvs =>
      if forallb (fun k => mem_bytes k [k_launch; k_build; k_cache]) (tkeys kvs) then
        match bool_field k_launch kvs, bool_field k_build kvs, bool_field k_cache kvs with
        | Some l, Some bd, Some c => Some (mkT l bd c)
        | _, _, _ => None
        end
      else None
  | _ => None
  end.

(* LayerContentMetadata<GenericMetadata>: deny_unknown_fields, both fields Options *)
Definition gen_parse (t : tv) : option (option ltypes * md) :=
  match t with
  | TTbl kvs =>
      if forallb (fun k => mem_bytes k [k_types; k_metadata]) (tkeys kvs) then
        match (match tget k_types kvs with
               | None => Some None
               | Some x => match parse_types x with Some ty => Some (Some ty) | None => None end
               end),
              (match tget k_metadata kvs with
               | None => Some None
               | Some (TTbl m) => Some (Some m)
               | Some _ => None
               end) with
        | Some ty, Some m => Some (ty, m)
        | _, _ => None
        end
      else None
  | _ => None
  end.

Definition render_types (ty : ltypes) : tv :=
  TTbl [(k_launch, TBool (t_launch ty)); (k_build, TBool (t_build ty)); (k_cache, TBool (t_cache ty))].

Definition gen_render (x : option ltypes * md) : tv :=
  TTbl (match fst x with Some ty => [(k_types, render_types ty)] | None => [] end ++
        match snd x with Some m => [(k_metadata, TTbl m)] | None => [] end).

(* the metadata types the harness requests layers with *)
Inductive mty := MG          (* GenericMetadata *)
               | MV.         (* struct { version: String } *)

Definition md_ok (m : mty) (x : md) : bool :=
  match m with
  | MG => true
  | MV => match x with
          | Some t => match tget k_version t with Some (TStr _) => true | _ => false end
          | None => false
          end
  end.

(* what a value of the metadata type keeps of the metadata table *)
Definition proj_md (m : mty) (x : md) : md :=
  match m, x with
  | MV, Some t => match tget k_version t with Some v => Some [(k_version, v)] | None => Some [] end
  | _, _ => x
  end.

Inductive content_class := CSyntax | CNotLcm | CLcm (ty : option ltypes) (m : md).
Definition classify_content (c : content) : content_class :=
  match c with
  | Raw _ => CSyntax
  | Doc t => match gen_parse t with Some (ty, m) => CLcm ty m | None => CNotLcm end
  end.

(* ---------- the store ---------- *)
Record lay := mkLay { l_dir : option fs; l_toml : option content; l_sboms : list (bytes * bytes) }.
Definition lay_empty : lay := mkLay None None [].
Definition store := list (bytes * lay).

Fixpoint lget (n : bytes) (st : store) : lay :=
  match st with [] => lay_empty | (k, v) :: r => if beq n k then v else lget n r end.
Fixpoint lset (n : bytes) (v : lay) (st : store) : store :=
  match st with
  | [] => [(n, v)]
  | (k, x) :: r => if beq n k then (k, v) :: r else (k, x) :: lset n v r
  end.

Definition fresh_dir : fs := [([], Dir mode_dir_default)].
Definition doc_empty : content := Doc (TTbl []).

Inductive herr :=
| EBuildpack            (* a callback returned Err *)
| EReadLayer            (* LayerError::ReadLayerError(IoError) *)
| EGenericMeta          (* LayerError::CouldNotReadGenericLayerMetadata *)
| EWriteMeta            (* WriteLayerError::WriteLayerMetadataError *)
| EWriteIo              (* WriteLayerError::IoError / other *)
| EMissingLayer
| EMissingExecd
| EDelete
| EAfterCreate
| EFuelH.

Inductive lstate := SRestored (cause : nat) | SEmptyNew | SEmptyInvalid (cause : nat) | SEmptyRestored (cause : nat).

Inductive res_dec := RKeep (cause : nat) | RDelete (cause : nat) | RErr.
Inductive inv_dec := IDelete (cause : nat) | IReplace (m : md) (cause : nat) | IErr.

(* callback log: what each callback was shown *)
Inductive call := CallRestored (m : md) | CallInvalid (m : md).

Section Shared.
  Variable rm_sboms : bool.                 (* delete_layer removes SBOM files (F3 repaired) *)
  Variable sbom_suffixes : list bytes.      (* per SbomFormat *)

  (* read_layer: Ok None / Ok (Some (types, metadata)) / parse error / io error *)
  Inductive read_res := RNone | RSome (ty : option ltypes) (m : md) | RParseErr | RIoErr.

  Definition read_layer (m : mty) (n : bytes) (st : store) : store * read_res :=
    let l := lget n st in
    match l_dir l, l_toml l with
    | None, None => (st, RNone)
    | None, Some _ => (lset n (mkLay None None (l_sboms l)) st, RNone)
    | Some d, ot =>
        let c := match ot with Some c => c | None => doc_empty end in
        let st' := match ot with Some _ => st | None => lset n (mkLay (Some d) (Some doc_empty) (l_sboms l)) st end in
        match classify_content c with
        | CLcm ty x => if md_ok m x then (st', RSome ty x) else (st', RParseErr)
        | _ => (st', RParseErr)
        end
    end.

  Definition write_layer (n : bytes) (ty : option ltypes) (x : md) (st : store) : store :=
    let l := lget n st in
    lset n (mkLay (Some (match l_dir l with Some d => d | None => fresh_dir end))
                  (Some (Doc (gen_render (ty, x)))) (l_sboms l)) st.

  Definition delete_layer (n : bytes) (st : store) : store :=
    let l := lget n st in
    lset n (mkLay None None (if rm_sboms then [] else l_sboms l)) st.

  (* read_toml_file::<LayerContentMetadata> then write back *)
  Definition replace_with (n : bytes) (f : option ltypes * md -> option ltypes * md) (st : store) : store * result herr unit :=
    let l := lget n st in
    match l_toml l with
    | Some c =>
        match classify_content c with
        | CLcm ty x => (lset n (mkLay (l_dir l) (Some (Doc (gen_render (f (ty, x))))) (l_sboms l)) st, Ok tt)
        | _ => (st, Err EWriteMeta)
        end
    | None => (st, Err EWriteMeta)
    end.

  Definition replace_layer_types (n : bytes) (ty : ltypes) := replace_with n (fun x => (Some ty, snd x)).
  Definition replace_layer_metadata (n : bytes) (x : md) := replace_with n (fun y => (fst y, x)).

  Fixpoint sbom_set (k v : bytes) (l : list (bytes * bytes)) : list (bytes * bytes) :=
    match l with
    | [] => [(k, v)]
    | (k', v') :: r => if beq k k' then (k, v) :: r else (k', v') :: sbom_set k v r
    end.

  (* sboms given as (format index, data) *)
  Definition replace_layer_sboms (n : bytes) (sb : list (nat * bytes)) (st : store) : store * result herr unit :=
    let l := lget n st in
    match l_dir l with
    | None => (st, Err EMissingLayer)
    | Some _ =>
        let kept := filter (fun kv => negb (mem_bytes (fst kv) sbom_suffixes)) (l_sboms l) in
        let new := fold_left (fun acc s => sbom_set (nth (fst s) sbom_suffixes []) (snd s) acc) sb kept in
        (lset n (mkLay (l_dir l) (l_toml l) new) st, Ok tt)
    end.

  Definition n_execd : name := b "exec.d".

  Definition execd_fs (progs : list (bytes * option (N * bytes))) : M unit :=
    fun d =>
      ((if is_dir [n_execd] d then remove_dir_all [n_execd] else ret tt) ;;;
       (match progs with
        | [] => ret tt
        | _ => create_dir_all 2 [n_execd] ;;;
               iterM (fun p => match snd p with
                               | None => fail ENOENT
                               | Some (mode, data) => write_file_mode mode false [n_execd; fst p] (Raw data) ;;;
                                                      chmod [n_execd; fst p] mode
                               end) progs
        end)) d.

  Definition on_dir (n : bytes) (f : M unit) (missing : herr) (ioerr : errno -> herr) (st : store) : store * result herr unit :=
    let l := lget n st in
    match l_dir l with
    | None => (st, Err missing)
    | Some d =>
        let '(d', r) := f d in
        (lset n (mkLay (Some d') (l_toml l) (l_sboms l)) st, match r with Ok _ => Ok tt | Err e => Err (ioerr e) end)
    end.

  Definition replace_layer_exec_d (n : bytes) (progs : list (bytes * option (N * bytes))) : store -> store * result herr unit :=
    on_dir n (execd_fs progs) EMissingLayer (fun e => if existsb (fun p => match snd p with None => true | _ => false end) progs then EMissingExecd else EWriteIo).
End Shared.

(* ---------- handle_layer ---------- *)
Section Handle.
  Variable rm_sboms : bool.

  Definition create_layer (n : bytes) (ty : ltypes) (st : store) : store * result herr unit :=
    let st1 := write_layer n (Some ty) None st in
    match read_layer MG n st1 with
    | (st2, RSome _ _) => (st2, Ok tt)
    | (st2, RNone) => (st2, Err EAfterCreate)
    | (st2, _) => (st2, Err EReadLayer)
    end.

  Fixpoint handle_layer (fuel : nat) (ty : ltypes) (m : mty) (inv : inv_dec) (res : res_dec) (n : bytes) (st : store)
    : store * list call * result herr lstate :=
    match read_layer m n st with
    | (st1, RNone) =>
        let '(st2, r) := create_layer n ty st1 in
        (st2, [], match r with Ok _ => Ok SEmptyNew | Err e => Err e end)
    | (st1, RSome _ x) =>
        match res with
        | RErr => (st1, [CallRestored x], Err EBuildpack)
        | RDelete c =>
            let '(st2, r) := create_layer n ty (delete_layer rm_sboms n st1) in
            (st2, [CallRestored x], match r with Ok _ => Ok (SEmptyRestored c) | Err e => Err e end)
        | RKeep c =>
            let '(st2, r) := replace_layer_types n ty st1 in
            (st2, [CallRestored x], match r with Ok _ => Ok (SRestored c) | Err e => Err e end)
        end
    | (st1, RParseErr) =>
        match (match l_toml (lget n st1) with Some c => classify_content c | None => CSyntax end) with
        | CLcm _ gx =>
            match inv with
            | IErr => (st1, [CallInvalid gx], Err EBuildpack)
            | IDelete c =>
                let '(st2, r) := create_layer n ty (delete_layer rm_sboms n st1) in
                (st2, [CallInvalid gx], match r with Ok _ => Ok (SEmptyInvalid c) | Err e => Err e end)
            | IReplace x c =>
                match replace_layer_metadata n x st1 with
                | (st2, Err e) => (st2, [CallInvalid gx], Err e)
                | (st2, Ok _) =>
                    match fuel with
                    | O => (st2, [CallInvalid gx], Err EFuelH)
                    | S f => let '(st3, calls, r) := handle_layer f ty m inv res n st2 in (st3, CallInvalid gx :: calls, r)
                    end
                end
            end
        | _ => (st1, [], Err EGenericMeta)
        end
    | (st1, RIoErr) => (st1, [], Err EReadLayer)
    end.

  (* BuildContext::cached_layer / uncached_layer *)
  Inductive request :=
  | QCached (launch build : bool) (m : mty) (inv : inv_dec) (res : res_dec)
  | QUncached (launch build : bool).

  Definition do_request (q : request) (n : bytes) (st : store) : store * list call * result herr lstate :=
    match q with
    | QCached l bd m inv res => handle_layer 3 (mkT l bd true) m inv res n st
    | QUncached l bd => let '(st', _, r) := handle_layer 3 (mkT l bd false) MG (IDelete 0) (RDelete 0) n st in (st', [], r)
    end.

  Definition req_types (q : request) : ltypes :=
    match q with QCached l bd _ _ _ => mkT l bd true | QUncached l bd => mkT l bd false end.
End Handle.

(* ---------- LayerRef writers ---------- *)
Inductive wop :=
| WMeta (x : md)
| WEnv (l : list ins)
| WSboms (l : list (nat * bytes))
| WExecd (progs : list (bytes * option (N * bytes)))
| WFile (rel : path) (data : bytes)
| WLink (rel : path) (target : bytes).      (* the buildpack puts a symlink into the layer *)

Section Writers.
  Variable sbom_suffixes : list bytes.
  Variable order : list beh.
  Variable wtab : writer_table.

  Definition file_fs (rel : path) (data : bytes) : M unit :=
    create_dir_all (S (List.length rel)) (drop_last rel) ;;; write_file rel (Raw data).

  Definition link_fs (rel : path) (target : bytes) : M unit :=
    create_dir_all (S (List.length rel)) (drop_last rel) ;;; symlink target rel.

  Definition do_write (n : bytes) (w : wop) (st : store) : store * result herr unit :=
    match w with
    | WMeta x => replace_layer_metadata n x st
    | WEnv l => on_dir n (write_to_layer_dir order wtab (le_of_inserts l) []) EWriteIo (fun _ => EWriteIo) st
    | WSboms l => replace_layer_sboms sbom_suffixes n l st
    | WExecd p => replace_layer_exec_d n p st
    | WFile rel data => on_dir n (file_fs rel data) EWriteIo (fun _ => EWriteIo) st
    | WLink rel t => on_dir n (link_fs rel t) EWriteIo (fun _ => EWriteIo) st
    end.
End Writers.

(* ---------- the lifecycle between two builds (environment model) ---------- *)
Definition restore_lay (l : lay) : lay :=
  match l_toml l with
  | Some c =>
      match classify_content c with
      | CLcm (Some ty) x =>
          if t_cache ty then mkLay (l_dir l) (Some (Doc (gen_render (None, x)))) (l_sboms l)
          else if t_launch ty then mkLay None (Some (Doc (gen_render (None, x)))) []
          else lay_empty
      | _ => lay_empty
      end
  | None => lay_empty
  end.

Definition restore (st : store) : store := map (fun kv => (fst kv, restore_lay (snd kv))) st.

(* test-side tampering with <layer>.toml *)
Definition corrupt (n : bytes) (c : option content) (st : store) : store :=
  let l := lget n st in lset n (mkLay (l_dir l) c (l_sboms l)) st.

(* ---------- comparing stores ---------- *)
Definition ocontent_same (x y : option content) : bool :=
  match x, y with
  | None, None => true
  | Some (Raw p), Some (Raw q) => beq p q
  | Some (Doc p), Some (Doc q) => tv_same p q
  | _, _ => false
  end.
Definition ofs_eqb (x y : option fs) : bool :=
  match x, y with None, None => true | Some p, Some q => fs_eqb p q | _, _ => false end.
Definition sboms_same (x y : list (bytes * bytes)) : bool :=
  Nat.eqb (List.length x) (List.length y) &&
  forallb (fun kv => existsb (fun kv' => beq (fst kv) (fst kv') && beq (snd kv) (snd kv')) y) x.
Definition lay_same (x y : lay) : bool :=
  ofs_eqb (l_dir x) (l_dir y) && ocontent_same (l_toml x) (l_toml y) && sboms_same (l_sboms x) (l_sboms y).
Definition store_same (names : list bytes) (x y : store) : bool :=
  forallb (fun n => lay_same (lget n x) (lget n y)) names.
