(* Builders.v -- executable models of the public builders of libcnb-data (BuildPlanBuilder,
   LaunchBuilder, ProcessBuilder) as functions over call sequences, the values they build
   (as Serde.v values of the generated schemas), and the declarative "intended document". *)
From LV Require Import Base Toml Serde SpecDocs.
From Coq Require Import String.
Open Scope string_scope.

(* ---------- BuildPlanBuilder ---------- *)
Inductive bp_call :=
| CProvides (name : bytes)
| CRequires (name : bytes) (metadata : list (bytes * tv))
| COr.

Definition group := (list bytes * list (bytes * list (bytes * tv)))%type.   (* provides, requires *)

Record bp_state := mkBP { acc : list group; cur_p : list bytes; cur_r : list (bytes * list (bytes * tv)) }.
Definition bp_init := mkBP [] [] [].

Definition bp_step (s : bp_state) (c : bp_call) : bp_state :=
  match c with
  | CProvides n => mkBP (acc s) (cur_p s ++ [n]) (cur_r s)
  | CRequires n m => mkBP (acc s) (cur_p s) (cur_r s ++ [(n, m)])
  | COr => mkBP (acc s ++ [(cur_p s, cur_r s)]) [] []
  end.

(* build(): or() once more, then the first accumulated group is the top level *)
Definition bp_build (calls : list bp_call) : list group :=
  acc (bp_step (fold_left bp_step calls bp_init) COr).

(* the intended document: the call sequence split at every `or` *)
Fixpoint split_or (calls : list bp_call) (p : list bytes) (r : list (bytes * list (bytes * tv))) : list group :=
  match calls with
  | [] => [(p, r)]
  | CProvides n :: cs => split_or cs (p ++ [n]) r
  | CRequires n m :: cs => split_or cs p (r ++ [(n, m)])
  | COr :: cs => (p, r) :: split_or cs [] []
  end.
Definition intended_groups (calls : list bp_call) : list group := split_or calls [] [].

Definition v_provide (n : bytes) : sval := VRec [(b "name", VStr n)].
Definition v_require (r : bytes * list (bytes * tv)) : sval := VRec [(b "name", VStr (fst r)); (b "metadata", VTbl (snd r))].
Definition v_group (g : group) : sval :=
  VRec [(b "provides", VList (map v_provide (fst g))); (b "requires", VList (map v_require (snd g)))].

(* the BuildPlan value: first group at top level, the rest under `or` *)
Definition v_build_plan (gs : list group) : sval :=
  match gs with
  | [] => VRec [(b "provides", VList []); (b "requires", VList []); (b "or", VList [])]
  | g :: rest =>
      VRec [(b "provides", VList (map v_provide (fst g))); (b "requires", VList (map v_require (snd g)));
            (b "or", VList (map v_group rest))]
  end.

(* spec-side reader of a build plan document (CNB buildpack.md, "Build Plan (TOML)") *)
Definition spec_Provide := TyStruct true [req "name" TyString].
Definition spec_Require := TyStruct true [req "name" TyString; dflt "metadata" TyTable (VTbl []) SkNever].
Definition spec_OrGroup :=
  TyStruct true [dflt "provides" (TyVec spec_Provide) (VList []) SkIfEmptyList;
                 dflt "requires" (TyVec spec_Require) (VList []) SkIfEmptyList].
Definition spec_BuildPlanDoc :=
  TyStruct true [dflt "provides" (TyVec spec_Provide) (VList []) SkIfEmptyList;
                 dflt "requires" (TyVec spec_Require) (VList []) SkIfEmptyList;
                 dflt "or" (TyVec spec_OrGroup) (VList []) SkIfEmptyList].

(* ---------- LaunchBuilder / ProcessBuilder ---------- *)
Inductive pcall := PArg (a : bytes) | PDefault (v : bool) | PWorkDir (d : option bytes).  (* None = App *)

Record process := mkProc { p_type : bytes; p_command : list bytes; p_args : list bytes; p_default : bool;
                           p_wd : option bytes }.

Definition proc_step (p : process) (c : pcall) : process :=
  match c with
  | PArg a => mkProc (p_type p) (p_command p) (p_args p ++ [a]) (p_default p) (p_wd p)
  | PDefault v => mkProc (p_type p) (p_command p) (p_args p) v (p_wd p)
  | PWorkDir d => mkProc (p_type p) (p_command p) (p_args p) (p_default p) d
  end.
Definition build_process (ty : bytes) (cmd : list bytes) (calls : list pcall) : process :=
  fold_left proc_step calls (mkProc ty cmd [] false None).

Inductive lcall :=
| LProcess (ty : bytes) (cmd : list bytes) (calls : list pcall)
| LLabel (k v : bytes)
| LSlice (paths : list bytes).

Record launch := mkLaunch { l_labels : list (bytes * bytes); l_processes : list process; l_slices : list (list bytes) }.

Definition launch_step (l : launch) (c : lcall) : launch :=
  match c with
  | LProcess ty cmd calls => mkLaunch (l_labels l) (l_processes l ++ [build_process ty cmd calls]) (l_slices l)
  | LLabel k v => mkLaunch (l_labels l ++ [(k, v)]) (l_processes l) (l_slices l)
  | LSlice ps => mkLaunch (l_labels l) (l_processes l) (l_slices l ++ [ps])
  end.
Definition build_launch (calls : list lcall) : launch := fold_left launch_step calls (mkLaunch [] [] []).

(* the intended document, read off the call sequence declaratively *)
Definition last_default (calls : list pcall) : bool :=
  fold_left (fun acc c => match c with PDefault v => v | _ => acc end) calls false.
Definition last_wd (calls : list pcall) : option bytes :=
  fold_left (fun acc c => match c with PWorkDir d => d | _ => acc end) calls None.
Definition all_args (calls : list pcall) : list bytes :=
  flat_map (fun c => match c with PArg a => [a] | _ => [] end) calls.

Definition intended_launch (calls : list lcall) : launch :=
  mkLaunch (flat_map (fun c => match c with LLabel k v => [(k, v)] | _ => [] end) calls)
           (flat_map (fun c => match c with
                               | LProcess ty cmd pc => [mkProc ty cmd (all_args pc) (last_default pc) (last_wd pc)]
                               | _ => [] end) calls)
           (flat_map (fun c => match c with LSlice ps => [ps] | _ => [] end) calls).

Definition v_process (p : process) : sval :=
  VRec [(b "type", VStr (p_type p)); (b "command", VList (map VStr (p_command p)));
        (b "args", VList (map VStr (p_args p))); (b "default", VBool (p_default p));
        (b "working-dir", match p_wd p with None => VAlt 0 (VStr []) | Some d => VAlt 1 (VStr d) end)].
Definition v_launch (l : launch) : sval :=
  VRec [(b "labels", VList (map (fun kv => VRec [(b "key", VStr (fst kv)); (b "value", VStr (snd kv))]) (l_labels l)));
        (b "processes", VList (map v_process (l_processes l)));
        (b "slices", VList (map (fun ps => VRec [(b "paths", VList (map VStr ps))]) (l_slices l)))].

(* serialisation schemas of the build plan types as written in the spec (compared with the
   generated ones in Props/C07.v) *)
Definition ser_Provide := TyStruct false [req "name" TyString].
Definition ser_Require := TyStruct false [req "name" TyString; req "metadata" TyTable].
Definition ser_Or :=
  TyStruct false [(b "provides", TyVec ser_Provide, None, SkIfEmptyList);
                  (b "requires", TyVec ser_Require, None, SkIfEmptyList)].
Definition ser_BuildPlan :=
  TyStruct false [(b "provides", TyVec ser_Provide, None, SkIfEmptyList);
                  (b "requires", TyVec ser_Require, None, SkIfEmptyList);
                  (b "or", TyVec ser_Or, None, SkIfEmptyList)].
