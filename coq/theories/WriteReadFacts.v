(* What write_layer wrote, read_layer reads back: the two functions of libcnb/src/layer/shared.rs as
   regenerated from the source (GenLayerSharedImp), composed. *)
From Coq Require Import List Lia NArith Bool.
Import ListNotations.
From LV Require Import Base Toml FS FSFacts LayerShared ImpPrims ImpTypes Determinism LayerEnvFSExact WriteLayerFacts ReplaceMetaFacts.
From LVGen Require Import GenLayerSharedImp.

Section WriteRead.
  Context {T A : Type}.
  Variables (enc : T -> tv) (parse : bytes -> option A) (layers : path) (n : name).
  Local Notation dir := (layers ++ [n]).
  Local Notation toml := (layers ++ [n ++ [46; 116; 111; 109; 108]]).
  Hypothesis Vn : valid_name n = true.
  Hypothesis Vt : valid_name (n ++ [46; 116; 111; 109; 108]) = true.

  Lemma exists_in_dir s nm v : simple_dir s layers -> valid_name nm = true ->
    pget (layers ++ [nm]) s = Some v -> (forall t, v <> Link t) -> exists_ (layers ++ [nm]) s = true.
  Proof.
    intros SD Hv Hn NLv. unfold exists_, stat, stat_gen.
    assert (NL : not_link (pget (layers ++ [nm]) s)) by (rewrite Hn; intros t E; injection E as E; exact (NLv t E)).
    rewrite (resolve_in_dir s layers nm true SD Hv NL), Hn. reflexivity.
  Qed.

  Lemma lstat_in_dir s nm v : simple_dir s layers -> valid_name nm = true ->
    pget (layers ++ [nm]) s = Some v -> (forall t, v <> Link t) -> lstat (layers ++ [nm]) s = (s, Ok v).
  Proof.
    intros SD Hv Hn NLv. unfold lstat, stat_gen.
    assert (NL : not_link (pget (layers ++ [nm]) s)) by (rewrite Hn; intros t E; injection E as E; exact (NLv t E)).
    rewrite (resolve_in_dir s layers nm false SD Hv NL), Hn. reflexivity.
  Qed.

  (* a layer directory with a regular readable content-metadata file: read_layer changes nothing and returns
     the layer's path with the parsed document; an unparsable document is an error, still nothing changes *)
  Theorem read_layer_present s md m c :
    simple_dir s layers -> pget dir s = Some (Dir md) -> pget toml s = Some (File m c) -> has_r m = true ->
    gen_read_layer parse layers n s =
    (s, match parse (content_bytes c) with Some a => Ok (Some (dir, a)) | None => Err EINVAL end).
  Proof.
    intros SD Hd Ht Hr. unfold gen_read_layer. cbv beta zeta.
    assert (E1 : exists_ dir s = true) by (apply (exists_in_dir s n (Dir md) SD Vn Hd); intros t; discriminate).
    do 2 (match goal with |- context [exists_ ?p s] => replace (exists_ p s) with true by (symmetry; exact E1) end; cbn [negb andb]; cbv beta).
    pose proof (lstat_in_dir s _ (File m c) SD Vt Ht (fun t E => ltac:(discriminate E))) as L.
    match goal with |- context [lstat ?p s] => replace (lstat p s) with (s, @Ok errno node (File m c)) by (symmetry; exact L) end. cbn [snd res_is_err].
    unfold bindM at 1. unfold ret at 1.
    unfold bindM at 1.
    pose proof (read_string_in_dir s layers _ m c SD Vt Ht Hr) as R.
    match goal with |- (let (s', r) := ?X in _) = _ => replace X with (s, @Ok errno bytes (content_bytes c)) by (symmetry; exact R) end.
    unfold bindM, lift_parse, ret. destruct (parse (content_bytes c)); reflexivity.
  Qed.

  (* recreate / create followed by the next request's read: exactly what was written comes back and the
     read leaves the state as the write left it *)
  Theorem write_then_read_layer s lcm :
    simple_dir s layers -> pget dir s = None -> pget toml s = None ->
    exists s', gen_write_layer enc layers n lcm s = (s', Ok tt) /\
      gen_read_layer parse layers n s' =
      (s', match parse (content_bytes (Doc (enc lcm))) with Some a => Ok (Some (dir, a)) | None => Err EINVAL end).
  Proof.
    intros SD Hd Ht. eexists. split; [apply (write_layer_fresh enc layers n lcm Vn Vt s SD Hd Ht)|].
    set (s1 := pset dir (Dir mode_dir_default) s).
    assert (SD1 : simple_dir s1 layers) by (apply simple_dir_pset_child; exact SD).
    assert (SD2 : simple_dir (pset toml (File mode_file_default (Doc (enc lcm))) s1) layers) by (apply simple_dir_pset_child; exact SD1).
    apply (read_layer_present _ mode_dir_default mode_file_default (Doc (enc lcm)) SD2).
    - rewrite pget_pset_other by (intros E; symmetry in E; revert E; apply toml_neq_dir). unfold s1. apply pget_pset_same.
    - apply pget_pset_same.
    - reflexivity.
  Qed.
End WriteRead.

From LV Require Import LayerSharedFacts LayerSharedGone LayerSharedTotal LayerSboms LayerSbomsFacts RecreateFacts.

(* recreating a layer and asking for it again: whatever the old layer held, the next read returns exactly the
   content metadata just written -- no metadata of an earlier build can come back -- and changes nothing *)
Theorem recreate_then_read {T A} (enc : T -> tv) (parse : bytes -> option A) (lcm : T) layers n s :
  valid_path layers -> valid_name n = true -> valid_fs s -> parent_closed s -> layers_ok s layers ->
  simple_dir s layers ->
  (pget (layers ++ [n]) s = None \/ (exists m, pget (layers ++ [n]) s = Some (Dir m)) \/ (exists t, pget (layers ++ [n]) s = Some (Link t))) ->
  (forall m, pget (layers ++ [toml_name n]) s <> Some (Dir m)) ->
  (forall sx m, In sx (map sbom_suffix_of SBOM_FORMATS) -> pget (layers ++ [sbom_name n sx]) s <> Some (Dir m)) ->
  exists s1 s2,
    gen_delete_layer layers n s = (s1, Ok tt) /\
    gen_write_layer enc layers n lcm s1 = (s2, Ok tt) /\
    gen_read_layer parse layers n s2 =
      (s2, match parse (content_bytes (Doc (enc lcm))) with Some a => Ok (Some (layers ++ [n], a)) | None => Err EINVAL end).
Proof.
  intros Vl Vn Vf PC LO SD HL NDt NDs.
  destruct (recreate_exact enc lcm layers n s Vl Vn Vf PC LO SD HL NDt NDs) as (s1 & E & W & Gone & Tn & _ & _).
  assert (Vs : Forall sfx_ok (map sbom_suffix_of SBOM_FORMATS)) by (repeat constructor).
  assert (E' : delete_layer true true (map sbom_suffix_of SBOM_FORMATS) layers n s = (s1, Ok tt))
    by (rewrite <- gen_delete_layer_is; exact E).
  destruct (delete_layer_owned_gone _ layers n s s1 Vl Vn Vs Vf SD E') as (SD1 & _ & _).
  assert (Vt : valid_name (n ++ [46; 116; 111; 109; 108]) = true) by (apply valid_name_app; [exact Vn|cbn; lia|reflexivity]).
  assert (Hd : pget (layers ++ [n]) s1 = None) by (specialize (Gone []); rewrite app_nil_r in Gone; exact Gone).
  destruct (write_then_read_layer enc parse layers n Vn Vt s1 lcm SD1 Hd Tn) as (s2 & W2 & R).
  exists s1, s2. repeat split; assumption.
Qed.

(* Keeping a restored layer / replacing its metadata, then the next request's read: with an encoder and a
   parser that round-trip (premise RT; for the real pair that is C07's subject), the read returns exactly the
   requested types with the metadata the previous build left, resp. the declared types with the new metadata *)
Section KeepRead.
  Context {Ty Md : Type}.
  Variables (parse : bytes -> option (option Ty * Md)) (enc : option Ty * Md -> tv).
  Variables (layers : path) (n : name).
  Local Notation dir := (layers ++ [n]).
  Local Notation toml := (layers ++ [n ++ [46; 116; 111; 109; 108]]).
  Hypothesis Vn : valid_name n = true.
  Hypothesis Vt : valid_name (n ++ [46; 116; 111; 109; 108]) = true.
  Hypothesis RT : forall x, parse (content_bytes (Doc (enc x))) = Some x.

  Lemma read_after_replace s md m x :
    simple_dir s layers -> pget dir s = Some (Dir md) -> has_r m = true ->
    gen_read_layer parse layers n (pset toml (File m (Doc (enc x))) s) =
    (pset toml (File m (Doc (enc x))) s, Ok (Some (dir, x))).
  Proof.
    intros SD Hd Hr.
    assert (SD2 : simple_dir (pset toml (File m (Doc (enc x))) s) layers) by (apply simple_dir_pset_child; exact SD).
    pose proof (read_layer_present parse layers n Vn Vt _ md m (Doc (enc x)) SD2) as R.
    rewrite RT in R. apply R.
    - rewrite pget_pset_other by (intros E; symmetry in E; revert E; apply toml_neq_dir). exact Hd.
    - apply pget_pset_same.
    - exact Hr.
  Qed.

  Theorem keep_then_read s md m c ty0 md0 ty :
    simple_dir s layers -> pget dir s = Some (Dir md) -> pget toml s = Some (File m c) ->
    has_r m = true -> has_w m = true -> parse (content_bytes c) = Some (ty0, md0) ->
    exists s', gen_replace_layer_types parse enc layers n ty s = (s', Ok tt) /\
               gen_read_layer parse layers n s' = (s', Ok (Some (dir, (Some ty, md0)))).
  Proof.
    intros SD Hd Ht Hr Hw Hp. eexists. split.
    - apply (replace_layer_types_exact parse enc layers n Vt s m c ty0 md0 ty SD Ht Hr Hw Hp).
    - apply (read_after_replace s md m (Some ty, md0) SD Hd Hr).
  Qed.

  Theorem replace_metadata_then_read s md m c ty0 md0 mdn :
    simple_dir s layers -> pget dir s = Some (Dir md) -> pget toml s = Some (File m c) ->
    has_r m = true -> has_w m = true -> parse (content_bytes c) = Some (ty0, md0) ->
    exists s', gen_replace_layer_metadata parse enc layers n mdn s = (s', Ok tt) /\
               gen_read_layer parse layers n s' = (s', Ok (Some (dir, (ty0, mdn)))).
  Proof.
    intros SD Hd Ht Hr Hw Hp. eexists. split.
    - apply (replace_layer_metadata_exact parse enc layers n Vt s m c ty0 md0 mdn SD Ht Hr Hw Hp).
    - apply (read_after_replace s md m (ty0, mdn) SD Hd Hr).
  Qed.
End KeepRead.
