(* WriteLayerFacts.v -- shared::write_layer as regenerated from the source, in a layers directory that
   is reached through searchable real directories and is writable (Determinism.simple_dir). *)
From LV Require Import Base Toml FS FSFacts LayerShared LayerSharedFacts Determinism LayerEnvFSExact ImpPrims ImpTypes.
From LVGen Require Import GenLayerSharedImp.

Lemma toml_name_neq (n : name) : n ++ [46; 116; 111; 109; 108] <> n.
Proof. intros E. apply (f_equal (@length N)) in E. rewrite app_length in E. cbn in E. lia. Qed.

Lemma snoc_inj {A} (d : list A) x y : d ++ [x] = d ++ [y] -> x = y.
Proof. intros E. apply app_inv_head in E. now injection E. Qed.

Lemma write_file_in_dir s d nm data : simple_dir s d -> valid_name nm = true -> pget (d ++ [nm]) s = None ->
  write_file (d ++ [nm]) data s = (pset (d ++ [nm]) (File mode_file_default data) s, Ok tt).
Proof.
  intros SD Hv Hn. unfold write_file, write_file_mode.
  assert (NL : not_link (pget (d ++ [nm]) s)) by (rewrite Hn; intros t; discriminate).
  rewrite (resolve_in_dir s d nm true SD Hv NL), Hn.
  pose proof (parent_writable_in_dir s d nm SD) as PW.
  set (p := d ++ [nm]) in *.
  destruct p as [|x r] eqn:E; [exfalso; unfold p in E; eapply snoc_not_nil; exact E|].
  rewrite PW. reflexivity.
Qed.

Lemma write_file_over_file s d nm m c data : simple_dir s d -> valid_name nm = true ->
  pget (d ++ [nm]) s = Some (File m c) -> has_w m = true ->
  write_file (d ++ [nm]) data s = (pset (d ++ [nm]) (File m data) s, Ok tt).
Proof.
  intros SD Hv Hn Hw. unfold write_file, write_file_mode.
  assert (NL : not_link (pget (d ++ [nm]) s)) by (rewrite Hn; intros t; discriminate).
  rewrite (resolve_in_dir s d nm true SD Hv NL), Hn, Hw. reflexivity.
Qed.

Lemma create_dir_all_existing f d x s md : simple_dir s d -> valid_name x = true ->
  pget (d ++ [x]) s = Some (Dir md) -> create_dir_all (S f) (d ++ [x]) s = (s, Ok tt).
Proof.
  intros SD Vx Hd.
  assert (NL : not_link (pget (d ++ [x]) s)) by (rewrite Hd; intros t; discriminate).
  assert (Mk : mkdir (d ++ [x]) s = (s, Err EEXIST)).
  { unfold mkdir. rewrite (resolve_in_dir s d x false SD Vx NL), Hd. reflexivity. }
  assert (Isd : is_dir (d ++ [x]) s = true).
  { unfold is_dir. rewrite (stat_in_dir s d x SD Vx NL), Hd. reflexivity. }
  remember (d ++ [x]) as p eqn:Ep. destruct p as [|a b]; [exfalso; symmetry in Ep; eapply snoc_not_nil; exact Ep|].
  cbn [create_dir_all]. rewrite Mk, Isd. reflexivity.
Qed.

Section WriteLayer.
  Context {T : Type}.
  Variables (enc : T -> tv) (layers : path) (n : name) (lcm : T).
  Local Notation dir := (layers ++ [n]).
  Local Notation toml := (layers ++ [n ++ [46; 116; 111; 109; 108]]).
  Hypothesis Vn : valid_name n = true.
  Hypothesis Vt : valid_name (n ++ [46; 116; 111; 109; 108]) = true.

  Lemma toml_neq_dir : toml <> dir.
  Proof. intros E. apply snoc_inj in E. exact (toml_name_neq n E). Qed.

  (* a layer that does not exist (what delete_layer leaves): exactly a fresh directory and a fresh
     content-metadata document appear, nothing else changes *)
  Theorem write_layer_fresh s :
    simple_dir s layers -> pget dir s = None -> pget toml s = None ->
    gen_write_layer enc layers n lcm s =
    (pset toml (File mode_file_default (Doc (enc lcm))) (pset dir (Dir mode_dir_default) s), Ok tt).
  Proof.
    intros SD Hd Ht. unfold gen_write_layer. cbv zeta.
    assert (M : mkdir dir s = (pset dir (Dir mode_dir_default) s, Ok tt)) by (apply mkdir_in_dir; assumption).
    unfold bindM at 1.
    pose proof (create_dir_all_first (length dir) dir s _ (snoc_not_nil layers n) M) as C.
    match goal with |- (let (s', r) := ?X in _) = _ => replace X with (pset dir (Dir mode_dir_default) s, @Ok errno unit tt) by (symmetry; exact C) end.
    set (s1 := pset dir (Dir mode_dir_default) s).
    assert (SD1 : simple_dir s1 layers) by (apply simple_dir_pset_child; exact SD).
    assert (Ht1 : pget toml s1 = None) by (unfold s1; rewrite pget_pset_other by exact toml_neq_dir; exact Ht).
    pose proof (write_file_in_dir s1 layers _ (Doc (enc lcm)) SD1 Vt Ht1) as W.
    unfold bindM.
    match goal with |- (let (s', r) := ?X in _) = _ => replace X with (pset toml (File mode_file_default (Doc (enc lcm))) s1, @Ok errno unit tt) by (symmetry; exact W) end.
    reflexivity.
  Qed.

  (* a layer directory that exists (kept / updated layer) with a regular, writable content-metadata file or
     none: the directory stays as it is, the document is replaced, nothing else changes *)
  Theorem write_layer_existing s md :
    simple_dir s layers -> pget dir s = Some (Dir md) ->
    (pget toml s = None \/ exists m c, pget toml s = Some (File m c) /\ has_w m = true) ->
    exists m, gen_write_layer enc layers n lcm s = (pset toml (File m (Doc (enc lcm))) s, Ok tt).
  Proof.
    intros SD Hd Ht. unfold gen_write_layer. cbv zeta.
    pose proof (create_dir_all_existing (length dir) layers n s md SD Vn Hd) as C.
    unfold bindM at 1.
    match goal with |- exists m, (let (s', r) := ?X in _) = _ => replace X with (s, @Ok errno unit tt) by (symmetry; exact C) end.
    unfold bindM.
    destruct Ht as [Ht|(m & c & Ht & Hw)].
    - exists mode_file_default. pose proof (write_file_in_dir s layers _ (Doc (enc lcm)) SD Vt Ht) as W.
      match goal with |- (let (s', r) := ?X in _) = _ => replace X with (pset toml (File mode_file_default (Doc (enc lcm))) s, @Ok errno unit tt) by (symmetry; exact W) end.
      reflexivity.
    - exists m. pose proof (write_file_over_file s layers _ m c (Doc (enc lcm)) SD Vt Ht Hw) as W.
      match goal with |- (let (s', r) := ?X in _) = _ => replace X with (pset toml (File m (Doc (enc lcm))) s, @Ok errno unit tt) by (symmetry; exact W) end.
      reflexivity.
  Qed.
End WriteLayer.

(* the hypotheses are satisfiable: a layers directory /l (0755) without the layer x *)
Definition wl_fs : fs := [ ([], Dir 493); ([[108]], Dir 493) ].
Example write_layer_fresh_example :
  simple_dir wl_fs [[108]] /\ pget [[108]; [120]] wl_fs = None /\
  gen_write_layer (fun _ : unit => TTbl []) [[108]] [120] tt wl_fs =
  (pset [[108]; [120; 46; 116; 111; 109; 108]] (File mode_file_default (Doc (TTbl [])))
        (pset [[108]; [120]] (Dir mode_dir_default) wl_fs), Ok tt).
Proof.
  split; [|split; [reflexivity|vm_compute; reflexivity]].
  constructor.
  - repeat constructor.
  - intros k Lk. destruct k as [|[|k]]; [eexists; split; reflexivity|eexists; split; reflexivity|cbn in Lk; lia].
  - eexists; repeat split; reflexivity.
Qed.
