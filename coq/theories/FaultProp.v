(* FaultProp.v -- error propagation discipline.  Every fallible file-system call site of the layer /
   runtime / toml-file code consumes its Result in one of a few ways (classified syntactically by
   the translator, GenIoSites.v).  An execution of any operation is a sequence of executions of
   such sites; a failing site either stops the operation with that error or -- if it swallows --
   lets it go on.  The theorems: with propagating sites only, the first failure is the result and
   nothing runs after it; success means nothing failed except tolerated not-found deletes. *)
From LV Require Import Base.
Open Scope N_scope.

Inductive consume := Try | NotFoundTry | Tail | Chained | Matched | Bound | Discarded.

Definition ENOENT_code : N := 2.

(* does a site with this consumption go on after the call failed with errno [e]? *)
Definition swallows (c : consume) (e : N) : bool :=
  match c with
  | NotFoundTry => e =? ENOENT_code        (* default_on_not_found(...)? *)
  | Bound | Discarded => true
  | Try | Tail | Chained | Matched => false
  end.

Definition propagates (c : consume) : bool :=
  match c with Bound | Discarded => false | _ => true end.

(* executed site occurrences with their outcome (None = the call succeeded); result: number of
   calls made, and the error the operation returns *)
Fixpoint run (tr : list (consume * option N)) : nat * option N :=
  match tr with
  | [] => (O, None)
  | (_, None) :: r => let '(n, e) := run r in (S n, e)
  | (c, Some e) :: r => if swallows c e then let '(n, e') := run r in (S n, e') else (1%nat, Some e)
  end.

Lemma run_ok_prefix pre r : Forall (fun x : consume * option N => snd x = None) pre ->
  run (pre ++ r) = (length pre + fst (run r), snd (run r))%nat.
Proof.
  induction pre as [|[c o] pre IH]; intros H; cbn [List.app run length].
  - destruct (run r); reflexivity.
  - inversion H as [|x l Hx Hl]; subst. cbn in Hx. subst o. rewrite (IH Hl). reflexivity.
Qed.

(* fail fast: the k-th call failing ends the operation with that error after exactly k calls *)
Theorem fail_fast pre c e post :
  Forall (fun x : consume * option N => snd x = None) pre -> swallows c e = false ->
  run (pre ++ (c, Some e) :: post) = (S (length pre), Some e).
Proof.
  intros Hpre Hs. rewrite (run_ok_prefix pre _ Hpre). cbn [run]. rewrite Hs. cbn [fst snd]. f_equal. apply Nat.add_1_r.
Qed.

(* no silent success: if the operation reports success, every failed call was a tolerated
   not-found on a best-effort delete *)
Theorem no_silent_success tr n :
  Forall (fun x : consume * option N => propagates (fst x) = true) tr -> run tr = (n, None) ->
  forall c e, In (c, Some e) tr -> c = NotFoundTry /\ e = ENOENT_code.
Proof.
  revert n. induction tr as [|[c0 o] tr IH]; intros n HP H c e Hin; [contradiction|].
  inversion HP as [|x l Hx Hl]; subst. cbn [fst] in Hx. cbn [run] in H.
  destruct o as [e0|].
  - destruct (swallows c0 e0) eqn:Es; [|discriminate].
    destruct (run tr) as [m er] eqn:Er. inversion H; subst.
    destruct Hin as [E|Hin].
    + inversion E; subst. destruct c; cbn in Es, Hx; try discriminate. split; [reflexivity|]. apply N.eqb_eq. exact Es.
    + eapply IH; eauto.
  - destruct (run tr) as [m er] eqn:Er. inversion H; subst.
    destruct Hin as [E|Hin]; [discriminate|]. eapply IH; eauto.
Qed.

(* a discarded Result lets a failure pass unnoticed *)
Theorem discarded_refuted : run [(Discarded, Some 5); (Try, None)] = (2%nat, None).
Proof. reflexivity. Qed.

(* ---------- the site table ---------- *)
Definition site := (bytes * bytes * bytes * consume)%type.    (* file, function, callee, consumption *)
Definition site_kind (s : site) : consume := snd s.

Definition all_propagate (t : list site) : bool := forallb (fun s => propagates (site_kind s)) t.

Definition site3_eqb (a b : bytes * bytes * bytes) : bool :=
  beq (fst (fst a)) (fst (fst b)) && beq (snd (fst a)) (snd (fst b)) && beq (snd a) (snd b).

(* Matched sites are reviewed by name: each of them maps an Err(e) of the scrutinee to an error *)
Definition matched_reviewed (reviewed : list (bytes * bytes * bytes)) (t : list site) : bool :=
  forallb (fun s => match site_kind s with
                    | Matched => existsb (site3_eqb (fst s)) reviewed
                    | _ => true
                    end) t.
