(* LayerEnvFSExact.v -- FS-level exactness of LayerEnvDelta::write_to_env_dir: inside a real,
   searchable, writable layer directory, whatever the env directory held before (absent, or any
   tree std::fs::remove_dir_all can traverse), after a successful write the paths at and below it
   are EXACTLY the directory plus one file per entry of the delta -- or nothing when the delta is
   empty -- and nothing outside it changed.  Hence overwrite: the result below the env directory
   depends on the delta alone. *)
From LV Require Import Base FS FSFacts LayerShared LayerSharedFacts LayerSharedGone LayerEnv LayerEnvFS Determinism.
From Coq Require Import Lia.
Open Scope N_scope.

(* ---------- pset sequences ---------- *)
Lemma pget_apply_writes_notin l : forall s q, ~ In q (map fst l) -> pget q (apply_writes l s) = pget q s.
Proof.
  induction l as [|kv l IH]; intros s q H; [reflexivity|]. cbn [apply_writes fold_left].
  change (fold_left (fun s0 kv0 => pset (fst kv0) (snd kv0) s0) l (pset (fst kv) (snd kv) s)) with (apply_writes l (pset (fst kv) (snd kv) s)).
  rewrite IH by (intros X; apply H; right; exact X).
  apply pget_pset_other. intros E. apply H. left. symmetry. exact E.
Qed.

Lemma pget_apply_writes_in l : forall s k v, NoDup (map fst l) -> In (k, v) l -> pget k (apply_writes l s) = Some v.
Proof.
  induction l as [|kv l IH]; intros s k v ND Hin; [contradiction|]. cbn [apply_writes fold_left].
  change (fold_left (fun s0 kv0 => pset (fst kv0) (snd kv0) s0) l (pset (fst kv) (snd kv) s)) with (apply_writes l (pset (fst kv) (snd kv) s)).
  inversion ND as [|a b Ha Hb]; subst. destruct Hin as [E|Hin].
  - subst kv. cbn [fst snd]. rewrite pget_apply_writes_notin by exact Ha. apply pget_pset_same.
  - apply IH; assumption.
Qed.

(* ---------- primitives in a simple directory ---------- *)
Lemma stat_in_dir s d nm : simple_dir s d -> valid_name nm = true -> not_link (pget (d ++ [nm]) s) ->
  stat (d ++ [nm]) s = (s, match pget (d ++ [nm]) s with Some n => Ok n | None => Err ENOENT end).
Proof.
  intros SD Hv NL. unfold stat, stat_gen. rewrite (resolve_in_dir s d nm true SD Hv NL).
  destruct (pget (d ++ [nm]) s); reflexivity.
Qed.

Lemma parent_writable_in_dir s d nm : simple_dir s d -> parent_writable s (d ++ [nm]) = Ok tt.
Proof.
  intros [_ _ (m & Hm & Hw & Hx)]. unfold parent_writable. rewrite drop_last_app, Hm, Hw, Hx. reflexivity.
Qed.

Lemma snoc_not_nil {A} (d : list A) x : d ++ [x] <> [].
Proof. destruct d; discriminate. Qed.

Lemma mkdir_in_dir s d nm : simple_dir s d -> valid_name nm = true -> pget (d ++ [nm]) s = None ->
  mkdir (d ++ [nm]) s = (pset (d ++ [nm]) (Dir mode_dir_default) s, Ok tt).
Proof.
  intros SD Hv Hn. unfold mkdir.
  assert (NL : not_link (pget (d ++ [nm]) s)) by (rewrite Hn; intros t; discriminate).
  rewrite (resolve_in_dir s d nm false SD Hv NL), Hn.
  pose proof (parent_writable_in_dir s d nm SD) as PW.
  set (p := d ++ [nm]) in *.
  destruct p as [|x r] eqn:E; [exfalso; unfold p in E; eapply snoc_not_nil; exact E|].
  rewrite PW. reflexivity.
Qed.

Lemma remove_dir_all_in_dir s d nm m : simple_dir s d -> valid_name nm = true ->
  pget (d ++ [nm]) s = Some (Dir m) -> subtree_rwx (d ++ [nm]) s = true ->
  remove_dir_all (d ++ [nm]) s = (premove_under (d ++ [nm]) s, Ok tt).
Proof.
  intros SD Hv Hd Hs. unfold remove_dir_all.
  assert (NL : not_link (pget (d ++ [nm]) s)) by (rewrite Hd; intros t; discriminate).
  rewrite (resolve_in_dir s d nm false SD Hv NL), Hd.
  pose proof (parent_writable_in_dir s d nm SD) as PW.
  set (p := d ++ [nm]) in *.
  destruct p as [|x r] eqn:E; [exfalso; unfold p in E; eapply snoc_not_nil; exact E|].
  rewrite PW, Hs. reflexivity.
Qed.

Lemma prefix_of_dir_not_under (d : path) nm k : (k <= length d)%nat -> is_prefix (d ++ [nm]) (firstn k d) = false.
Proof.
  intros Hk. destruct (is_prefix (d ++ [nm]) (firstn k d)) eqn:E; [|reflexivity].
  apply is_prefix_spec in E as [r E]. apply (f_equal (@length _)) in E.
  rewrite firstn_length, !app_length in E. cbn in E. lia.
Qed.

Lemma simple_dir_premove s d nm : simple_dir s d -> simple_dir (premove_under (d ++ [nm]) s) d.
Proof.
  intros [Vn Dd Dw]. constructor.
  - exact Vn.
  - intros k Hk. destruct (Dd k Hk) as (m & Hm & Hx). exists m. rewrite pget_premove, prefix_of_dir_not_under by exact Hk. auto.
  - destruct Dw as (m & Hm & Hw & Hx). exists m. rewrite pget_premove.
    pose proof (prefix_of_dir_not_under d nm (length d) (le_n _)) as P. rewrite firstn_all in P. rewrite P. auto.
Qed.

(* the new env directory itself is a simple directory *)
Lemma simple_dir_child s d nm : simple_dir s d -> valid_name nm = true -> pget (d ++ [nm]) s = Some (Dir mode_dir_default) ->
  simple_dir s (d ++ [nm]).
Proof.
  intros [Vn Dd Dw] Hv Hd. constructor.
  - apply Forall_app. split; [exact Vn|constructor; [exact Hv|constructor]].
  - intros k Hk. rewrite app_length in Hk. cbn in Hk.
    destruct (Nat.eq_dec k (S (length d))) as [->|Hne].
    + replace (S (length d)) with (length (d ++ [nm])) by (rewrite app_length; cbn; lia). rewrite firstn_all.
      exists mode_dir_default. split; [exact Hd|reflexivity].
    + rewrite firstn_app. replace (k - length d)%nat with 0%nat by lia. cbn [firstn]. rewrite app_nil_r. apply Dd. lia.
  - exists mode_dir_default. split; [exact Hd|split; reflexivity].
Qed.

(* the write loop: new files in a simple directory *)
Definition file_writes (p : path) (files : list (name * bytes)) : list (path * node) :=
  map (fun f => (p ++ [fst f], File mode_file_default (Raw (snd f)))) files.

Lemma write_loop p : forall files s,
  simple_dir s p -> NoDup (map fst files) -> Forall (fun f => valid_name (fst f) = true) files ->
  (forall f, In f files -> pget (p ++ [fst f]) s = None) ->
  iterM (fun f => write_file (p ++ [fst f]) (Raw (snd f))) files s = (apply_writes (file_writes p files) s, Ok tt).
Proof.
  induction files as [|f files IH]; intros s SD ND V Hn; [reflexivity|].
  inversion ND as [|a b Ha Hb]; subst. inversion V as [|a b Hv Hvs]; subst.
  destruct (write_in_dir s p (fst f) mode_file_default true (Raw (snd f)) SD Hv) as (m' & HW & Hm').
  { left. apply Hn. left. reflexivity. }
  rewrite (Hm' (Hn f (or_introl eq_refl))) in HW.
  cbn [iterM]. unfold bindM. unfold write_file. rewrite HW.
  cbn [file_writes map apply_writes fold_left fst snd].
  apply IH; try assumption.
  - apply simple_dir_pset_file; [exact SD|intros; right; exact I|eauto].
  - intros g Hg. rewrite pget_pset_other; [apply Hn; right; exact Hg|].
    intros E. apply app_inv_head in E. inversion E as [E']. apply Ha. rewrite <- E'. apply in_map. exact Hg.
Qed.

Lemma simple_dir_pset_child s d nm v : simple_dir s d -> simple_dir (pset (d ++ [nm]) v s) d.
Proof.
  intros [Vn Dd Dw].
  assert (Hne : forall k, (k <= length d)%nat -> firstn k d <> d ++ [nm]).
  { intros k Hk E. apply (f_equal (@length name)) in E. rewrite firstn_length, app_length in E. cbn in E. lia. }
  constructor.
  - exact Vn.
  - intros k Hk. destruct (Dd k Hk) as (m & Hm & Hx). exists m. rewrite pget_pset_other by (apply Hne; exact Hk). auto.
  - destruct Dw as (m & Hm & Hw & Hx). exists m. rewrite pget_pset_other; [auto|].
    specialize (Hne (length d) (le_n _)). rewrite firstn_all in Hne. exact Hne.
Qed.

Lemma file_writes_nodup p files : NoDup (map fst files) -> NoDup (map fst (file_writes p files)).
Proof.
  unfold file_writes. rewrite map_map. cbn [fst].
  induction files as [|f l IH]; intros H; cbn [map]; [constructor|].
  inversion H as [|a b Ha Hb]; subst. constructor; [|apply IH; exact Hb].
  intros Hin. apply in_map_iff in Hin. destruct Hin as (g & Eg & Hg). apply app_inv_head in Eg. inversion Eg as [E].
  apply Ha. rewrite <- E. apply in_map. exact Hg.
Qed.

Lemma file_writes_keys p files q : In q (map fst (file_writes p files)) -> exists f, In f files /\ q = p ++ [fst f].
Proof.
  unfold file_writes. rewrite map_map. cbn [fst]. intros H. apply in_map_iff in H. destruct H as (f & E & Hf). eauto.
Qed.

Lemma create_dir_all_first f p s s' : p <> [] -> mkdir p s = (s', Ok tt) -> create_dir_all (S f) p s = (s', Ok tt).
Proof. intros Hp H. destruct p as [|x r]; [congruence|]. cbn [create_dir_all]. rewrite H. reflexivity. Qed.

Section Exact.
  Variable order : list beh.
  Variable wtab : writer_table.

  Definition files_ok (d : delta) : Prop :=
    NoDup (map fst (delta_files order wtab d)) /\ Forall (fun f => valid_name (fst f) = true) (delta_files order wtab d).

  (* the specification of what is at and below the env directory afterwards *)
  Definition env_dir_spec (d : delta) (p q : path) : option node :=
    if delta_is_empty d then None
    else if path_eqb q p then Some (Dir mode_dir_default)
    else match find (fun f => path_eqb q (p ++ [fst f])) (delta_files order wtab d) with
         | Some f => Some (File mode_file_default (Raw (snd f)))
         | None => None
         end.

  Theorem write_env_dir_exact d dir nm s :
    simple_dir s dir -> parent_closed s -> valid_name nm = true -> files_ok d ->
    (pget (dir ++ [nm]) s = None \/ exists m, pget (dir ++ [nm]) s = Some (Dir m) /\ subtree_rwx (dir ++ [nm]) s = true) ->
    exists s', write_env_dir order wtab d (dir ++ [nm]) s = (s', Ok tt) /\
               (forall q, is_prefix (dir ++ [nm]) q = false -> pget q s' = pget q s) /\
               (forall q, is_prefix (dir ++ [nm]) q = true -> pget q s' = env_dir_spec d (dir ++ [nm]) q).
  Proof.
    intros SD PC Hv [ND VF] Hst.
    (* step 1: the old directory goes *)
    assert (S1 : exists s1, (if exists_ (dir ++ [nm]) s then remove_dir_all (dir ++ [nm]) else ret tt) s = (s1, Ok tt) /\
                            simple_dir s1 dir /\ (forall q, is_prefix (dir ++ [nm]) q = false -> pget q s1 = pget q s) /\
                            (forall q, is_prefix (dir ++ [nm]) q = true -> pget q s1 = None)).
    { destruct Hst as [Hn|(m & Hd & Hrwx)].
      - assert (NL : not_link (pget (dir ++ [nm]) s)) by (rewrite Hn; intros t; discriminate).
        unfold exists_. rewrite (stat_in_dir s dir nm SD Hv NL), Hn.
        exists s. split; [reflexivity|]. split; [exact SD|]. split; [auto|].
        intros q Hq. apply is_prefix_spec in Hq as [r ->]. apply pc_absent_below; assumption.
      - assert (NL : not_link (pget (dir ++ [nm]) s)) by (rewrite Hd; intros t; discriminate).
        unfold exists_. rewrite (stat_in_dir s dir nm SD Hv NL), Hd.
        rewrite (remove_dir_all_in_dir s dir nm m SD Hv Hd Hrwx).
        exists (premove_under (dir ++ [nm]) s). split; [reflexivity|]. split; [apply simple_dir_premove; exact SD|].
        split; intros q Hq; rewrite pget_premove, Hq; reflexivity. }
    destruct S1 as (s1 & E1 & SD1 & F1 & G1).
    unfold write_env_dir. unfold bindM at 1. rewrite E1.
    unfold env_dir_spec. destruct (delta_is_empty d) eqn:Ee.
    { exists s1. split; [reflexivity|]. split; [exact F1|exact G1]. }
    (* step 2: create the directory *)
    set (p := dir ++ [nm]) in *.
    assert (Hp1 : pget p s1 = None) by (apply G1, is_prefix_refl).
    pose proof (mkdir_in_dir s1 dir nm SD1 Hv Hp1) as HM. fold p in HM.
    set (s2 := pset p (Dir mode_dir_default) s1) in *.
    assert (HC : create_dir_all (S (length p)) p s1 = (s2, Ok tt)).
    { apply create_dir_all_first; [apply snoc_not_nil|exact HM]. }
    unfold bindM at 1. rewrite HC.
    (* step 3: the files *)
    assert (SD2 : simple_dir s2 dir) by (apply simple_dir_pset_child; exact SD1).
    assert (SDp : simple_dir s2 p).
    { apply simple_dir_child; [exact SD2|exact Hv|]. unfold s2. apply pget_pset_same. }
    assert (Hnone : forall f, In f (delta_files order wtab d) -> pget (p ++ [fst f]) s2 = None).
    { intros f Hf. unfold s2. rewrite pget_pset_other by apply snoc_neq_self.
      apply G1. unfold p. apply is_prefix_app. }
    rewrite (write_loop p (delta_files order wtab d) s2 SDp ND VF Hnone).
    eexists. split; [reflexivity|]. split.
    - intros q Hq. rewrite pget_apply_writes_notin.
      + unfold s2. rewrite pget_pset_other; [apply F1, Hq|]. intros ->. rewrite is_prefix_refl in Hq. discriminate.
      + intros Hin. apply file_writes_keys in Hin as (f & Hf & ->). rewrite is_prefix_app in Hq. discriminate.
    - intros q Hq. destruct (path_eqb q p) eqn:Eqp.
      + apply path_eqb_spec in Eqp. subst q. rewrite pget_apply_writes_notin; [unfold s2; apply pget_pset_same|].
        intros Hin. apply file_writes_keys in Hin as (f & Hf & E). symmetry in E. exact (snoc_neq_self _ _ E).
      + apply path_eqb_neq in Eqp.
        destruct (find (fun f => path_eqb q (p ++ [fst f])) (delta_files order wtab d)) as [f|] eqn:Ef.
        * apply find_some in Ef as [Hf Ek]. apply path_eqb_spec in Ek. subst q.
          apply pget_apply_writes_in; [apply file_writes_nodup; exact ND|].
          unfold file_writes. apply in_map_iff. exists f. split; [reflexivity|exact Hf].
        * rewrite pget_apply_writes_notin.
          -- unfold s2. rewrite pget_pset_other by exact Eqp. apply G1, Hq.
          -- intros Hin. apply file_writes_keys in Hin as (f & Hf & ->).
             pose proof (find_none _ _ Ef f Hf) as X. cbn in X. rewrite path_eqb_refl in X. discriminate.
  Qed.

  (* overwrite: whatever was there, the env directory afterwards depends on the delta alone *)
  Corollary write_env_dir_overwrites d dir nm sa sb :
    simple_dir sa dir -> parent_closed sa -> simple_dir sb dir -> parent_closed sb -> valid_name nm = true -> files_ok d ->
    (pget (dir ++ [nm]) sa = None \/ exists m, pget (dir ++ [nm]) sa = Some (Dir m) /\ subtree_rwx (dir ++ [nm]) sa = true) ->
    (pget (dir ++ [nm]) sb = None \/ exists m, pget (dir ++ [nm]) sb = Some (Dir m) /\ subtree_rwx (dir ++ [nm]) sb = true) ->
    exists sa' sb', write_env_dir order wtab d (dir ++ [nm]) sa = (sa', Ok tt) /\ write_env_dir order wtab d (dir ++ [nm]) sb = (sb', Ok tt) /\
                    forall q, is_prefix (dir ++ [nm]) q = true -> pget q sa' = pget q sb'.
  Proof.
    intros SDa PCa SDb PCb Hv FO Ha Hb.
    destruct (write_env_dir_exact d dir nm sa SDa PCa Hv FO Ha) as (sa' & Ea & _ & Ga).
    destruct (write_env_dir_exact d dir nm sb SDb PCb Hv FO Hb) as (sb' & Eb & _ & Gb).
    exists sa', sb'. split; [exact Ea|]. split; [exact Eb|]. intros q Hq. rewrite (Ga q Hq), (Gb q Hq). reflexivity.
  Qed.
End Exact.
