(* LayerSbomsFacts.v -- replace_layer_sboms: the regenerated body is the model; frame; exactness. *)
From LV Require Import Base FS FSFacts LayerShared LayerSharedFacts ImpPrims ImpTypes ImpFacts.
From LV Require Import LayerSboms.
From LVGen Require Import GenLayerSharedImp.

Definition sbom_suffix_of (f : sbom_format) : bytes :=
  match f with
  | CycloneDxJson => [99; 100; 120; 46; 106; 115; 111; 110]
  | SpdxJson => [115; 112; 100; 120; 46; 106; 115; 111; 110]
  | SyftJson => [115; 121; 102; 116; 46; 106; 115; 111; 110]
  end.

Lemma gen_sbom_path_is f layers n : gen_cnb_sbom_path f layers n = sbom_path layers n (sbom_suffix_of f).
Proof. destruct f; reflexivity. Qed.

Lemma guard_bind (c : fs -> bool) e (k : M unit) s :
  ((fun st_ => (if c st_ then fail e else ret tt) st_) ;;; k) s = if c s then (s, Err e) else k s.
Proof. unfold bindM, fail, ret. destruct (c s); reflexivity. Qed.

(* the body the translator reads from shared.rs is the model *)
Theorem replace_sboms_regenerated layers n sboms s :
  gen_replace_layer_sboms layers n sboms s =
  replace_layer_sboms (map sbom_suffix_of SBOM_FORMATS) layers n
                      (map (fun fd => (sbom_suffix_of (fst fd), snd fd)) sboms) s.
Proof.
  unfold gen_replace_layer_sboms, replace_layer_sboms. cbv zeta.
  etransitivity; [apply (guard_bind (fun st => negb (is_dir (layers ++ [n]) st)))|]. cbv beta.
  match goal with |- (if ?a then _ else _) = (if ?b then _ else _) => change b with a; destruct a end;
    [reflexivity|].
  apply bindM_ext.
  - rewrite iterM_map. apply iterM_ext. intros f s1. rewrite bind_ret_tt, gen_sbom_path_is. reflexivity.
  - intros s1. rewrite bind_ret_tt, iterM_map. apply iterM_ext. intros fd s2.
    rewrite bind_ret_tt, gen_sbom_path_is. reflexivity.
Qed.

(* ---------- the setting: the layers directory is reached through real directories ---------- *)
Definition dirs_to (s : fs) (d : path) : Prop :=
  forall k, (k <= length d)%nat -> is_dir_node (pget (firstn k d) s).

Lemma dirs_to_real s d x : dirs_to s d -> real_dirs s [] (d ++ [x]).
Proof.
  intros D k Lk. rewrite app_length in Lk. cbn in Lk. cbn [app].
  rewrite firstn_app. replace (k - length d)%nat with 0%nat by lia. cbn [firstn]. rewrite app_nil_r.
  apply D. lia.
Qed.

Lemma firstn_neq_snoc {A} k (d : list A) x : firstn k d <> d ++ [x].
Proof.
  intros E. apply (f_equal (@length A)) in E. rewrite firstn_length, app_length in E. cbn in E. lia.
Qed.

Lemma dirs_to_pdel s d x : dirs_to s d -> dirs_to (pdel (d ++ [x]) s) d.
Proof. intros D k Lk. rewrite pget_pdel_other; [apply D, Lk|apply firstn_neq_snoc]. Qed.

Lemma dirs_to_pset s d x v : dirs_to s d -> dirs_to (pset (d ++ [x]) v s) d.
Proof. intros D k Lk. rewrite pget_pset_other; [apply D, Lk|apply firstn_neq_snoc]. Qed.

(* without following the last component, resolution below real directories can only fail for
   lack of search permission *)
Lemma walk_nofollow_err s : forall fuel cur comps e,
  (length comps < fuel)%nat -> Forall (fun n => valid_name n = true) comps -> real_dirs s cur comps ->
  walk s fuel cur comps false = Err e -> e = EACCES.
Proof.
  induction fuel as [|f IH]; intros cur comps e Lf V R W; [lia|].
  destruct comps as [|c rest]; cbn [walk] in W; [discriminate|].
  inversion V as [|? ? Vc Vr]; subst.
  destruct (R 0%nat ltac:(cbn; lia)) as [m Hm]. cbn [firstn] in Hm. rewrite app_nil_r in Hm.
  rewrite Hm in W. destruct (has_x m); cbn [negb] in W; [|now injection W as <-].
  unfold valid_name in Vc. repeat (apply andb_true_iff in Vc as [Vc ?]).
  rewrite negb_true_iff in *.
  replace (is_empty c) with false in W by (symmetry; assumption).
  replace (beq c dot) with false in W by (symmetry; assumption).
  replace (beq c dotdot) with false in W by (symmetry; assumption).
  cbn [orb] in W.
  destruct rest as [|c2 rest'].
  - cbn [is_empty andb negb] in W.
    match type of W with match ?tm with _ => _ end = _ => destruct tm as [[mm cc|mm|t]|] end;
      cbv iota in W; try discriminate.
    destruct f; [cbn in Lf; lia|]. cbn [walk] in W. discriminate.
  - cbn [is_empty andb] in W.
    destruct (R 1%nat ltac:(cbn; lia)) as [m1 Hm1]. cbn [firstn] in Hm1.
    match type of W with match ?tm with _ => _ end = _ =>
      replace tm with (Some (Dir m1)) in W by (symmetry; exact Hm1) end.
    apply (IH (cur ++ [c]) (c2 :: rest') e); try assumption; [cbn in *; lia|].
    intros k Lk. specialize (R (S k) ltac:(cbn in *; lia)). cbn [firstn] in R.
    now rewrite <- app_assoc.
Qed.

Ltac unlink_crush H :=
  unfold unlink in H;
  destruct (resolve _ _ false) as [rp|e0] eqn:R; [|inversion H; subst; eauto];
  destruct (pget rp _) as [[m c|m|t]|] eqn:G; try (inversion H; subst; eauto; fail);
  try (destruct rp as [|a b]; [inversion H; subst; eauto; fail|]);
  destruct (parent_writable _ _) as [u|e1] eqn:PW; inversion H; subst; eauto.

Lemma unlink_ok p s s' : unlink p s = (s', Ok tt) -> exists rp, resolve s p false = Ok rp /\ s' = pdel rp s.
Proof. intros H. unlink_crush H. Qed.

Lemma unlink_err p s s' e : unlink p s = (s', Err e) -> s' = s.
Proof. intros H. unlink_crush H. Qed.

Lemma unlink_enoent p s s' : unlink p s = (s', Err ENOENT) ->
  resolve s p false = Err ENOENT \/
  exists rp, resolve s p false = Ok rp /\ (pget rp s = None \/ parent_writable s rp = Err ENOENT).
Proof. intros H. unlink_crush H; right; eexists; split; eauto. Qed.

Lemma drop_last_snoc' {A} (l : list A) x : drop_last (l ++ [x]) = l.
Proof. induction l as [|a l IH]; [reflexivity|]. cbn [app drop_last]. destruct (l ++ [x]) eqn:E; [destruct l; discriminate|]. now rewrite IH. Qed.

Lemma pw_not_enoent s d x : dirs_to s d -> parent_writable s (d ++ [x]) <> Err ENOENT.
Proof.
  intros D. unfold parent_writable. rewrite drop_last_snoc'.
  destruct (D (length d) (le_n _)) as [m Hm]. rewrite firstn_all in Hm. rewrite Hm.
  destruct (has_w m && has_x m); discriminate.
Qed.

Section Steps.
  Variables (layers : path) (x : name).
  Hypothesis Vp : valid_path (layers ++ [x]).
  Let p := layers ++ [x].

  Lemma resolve_nofollow s rp : dirs_to s layers -> resolve s p false = Ok rp -> rp = p.
  Proof.
    intros D H. apply (resolve_self s p false rp Vp); [apply dirs_to_real, D|discriminate|exact H].
  Qed.

  Lemma resolve_follow s rp :
    dirs_to s layers -> not_link (pget p s) -> resolve s p true = Ok rp -> rp = p.
  Proof.
    intros D NL H. apply (resolve_self s p true rp Vp); [apply dirs_to_real, D|intros _; exact NL|exact H].
  Qed.

  Lemma resolve_nofollow_err s e : dirs_to s layers -> resolve s p false = Err e -> e = EACCES.
  Proof.
    intros D R. unfold resolve in R.
    apply walk_nofollow_err in R; [exact R|unfold walk_fuel; lia|exact Vp|apply dirs_to_real, D].
  Qed.

  (* fs::remove_file behind default_on_not_found *)
  Lemma tolerant_unlink s s' r :
    dirs_to s layers -> default_on_not_found (unlink p) s = (s', r) ->
    (s' = s \/ s' = pdel p s) /\ (r = Ok tt -> pget p s' = None).
  Proof.
    intros D H. unfold default_on_not_found in H.
    destruct (unlink p s) as [s1 [[]|e]] eqn:U.
    - injection H as <- <-. apply unlink_ok in U. destruct U as (rp & R & ->).
      rewrite (resolve_nofollow s rp D R). split; [now right|intros _].
      rewrite pget_pdel, path_eqb_refl. reflexivity.
    - pose proof (unlink_err _ _ _ _ U) as ->.
      destruct e; injection H as <- <-; (split; [now left|]); try discriminate.
      intros _. apply unlink_enoent in U. destruct U as [R|(rp & R & [G|PW])].
      + apply resolve_nofollow_err in R; [discriminate|exact D].
      + now rewrite (resolve_nofollow s rp D R) in G.
      + rewrite (resolve_nofollow s rp D R) in PW. exfalso. exact (pw_not_enoent s layers x D PW).
  Qed.

  (* fs::write *)
  Lemma write_step s s' r data :
    dirs_to s layers -> not_link (pget p s) -> write_file p (Raw data) s = (s', r) ->
    (r <> Ok tt /\ s' = s) \/ (r = Ok tt /\ exists m, s' = pset p (File m (Raw data)) s).
  Proof.
    intros D NL H. unfold write_file, write_file_mode in H.
    destruct (resolve s p true) as [rp|e] eqn:R; [|injection H as <- <-; left; split; [discriminate|reflexivity]].
    pose proof (resolve_follow s rp D NL R) as ->.
    destruct (pget p s) as [[m c|m|t]|] eqn:G.
    - destruct (has_w m); injection H as <- <-; [right; eauto|left; split; [discriminate|reflexivity]].
    - injection H as <- <-. left; split; [discriminate|reflexivity].
    - injection H as <- <-. left; split; [discriminate|reflexivity].
    - assert (exists a b, p = a :: b) as (a & b & Ep) by (unfold p; destruct layers; cbn; eauto).
      rewrite Ep in H. destruct (parent_writable s (a :: b)); injection H as <- <-; try rewrite <- Ep.
      + right; eauto.
      + left; split; [discriminate|reflexivity].
  Qed.
End Steps.

(* ---------- the whole operation ---------- *)
Section Whole.
  Variables (layers : path) (n : name).
  Variable S : list bytes.                        (* the SBOM suffixes the operation may touch *)
  Hypothesis VS : forall sx, In sx S -> valid_path (sbom_path layers n sx).

  Definition inv (s : fs) : Prop :=
    dirs_to s layers /\ forall sx, In sx S -> not_link (pget (sbom_path layers n sx) s).
  (* every path that is not one of the layer's SBOM paths keeps its entry *)
  Definition only_sboms (s s' : fs) : Prop :=
    forall q, (forall sx, In sx S -> q <> sbom_path layers n sx) -> pget q s' = pget q s.

  Lemma only_sboms_refl s : only_sboms s s. Proof. intros q _. reflexivity. Qed.
  Lemma only_sboms_trans a b c : only_sboms a b -> only_sboms b c -> only_sboms a c.
  Proof. intros H1 H2 q Hq. rewrite (H2 q Hq). apply H1, Hq. Qed.

  Lemma sbom_path_inj a b : sbom_path layers n a = sbom_path layers n b -> a = b.
  Proof.
    unfold sbom_path, sbom_name. intros E. apply app_inv_head in E. injection E as E.
    apply app_inv_head in E. now inversion E.
  Qed.

  Lemma inv_pdel s sx : In sx S -> inv s -> inv (pdel (sbom_path layers n sx) s).
  Proof.
    intros I [D NL]. split; [apply dirs_to_pdel, D|]. intros sy Iy t. rewrite pget_pdel.
    destruct (path_eqb _ _); [discriminate|apply NL, Iy].
  Qed.

  Lemma inv_pset_file s sx m c : In sx S -> inv s -> inv (pset (sbom_path layers n sx) (File m c) s).
  Proof.
    intros I [D NL]. split; [apply dirs_to_pset, D|]. intros sy Iy t.
    destruct (path_eqb (sbom_path layers n sy) (sbom_path layers n sx)) eqn:E.
    - apply path_eqb_spec in E. rewrite E, pget_pset_same. discriminate.
    - apply path_eqb_neq in E. rewrite pget_pset_other by exact E. apply NL, Iy.
  Qed.

  Lemma only_pdel s sx : In sx S -> only_sboms s (pdel (sbom_path layers n sx) s).
  Proof. intros I q Hq. apply pget_pdel_other, Hq, I. Qed.
  Lemma only_pset s sx v : In sx S -> only_sboms s (pset (sbom_path layers n sx) v s).
  Proof. intros I q Hq. apply pget_pset_other, Hq, I. Qed.

  (* the removal loop *)
  Lemma unlink_loop l : (forall sx, In sx l -> In sx S) -> forall s s' r,
    inv s -> iterM (fun sx => default_on_not_found (unlink (sbom_path layers n sx))) l s = (s', r) ->
    inv s' /\ only_sboms s s' /\
    (forall sx, In sx S -> pget (sbom_path layers n sx) s = None -> pget (sbom_path layers n sx) s' = None) /\
    (r = Ok tt -> forall sx, In sx l -> pget (sbom_path layers n sx) s' = None).
  Proof.
    induction l as [|sx l IH]; intros Sub s s' r I H; cbn [iterM] in H.
    - injection H as <- <-. split; [exact I|]. split; [apply only_sboms_refl|]. split; [auto|intros _ ? []].
    - unfold bindM in H.
      destruct (default_on_not_found (unlink (sbom_path layers n sx)) s) as [s1 r1] eqn:U.
      assert (Isx : In sx S) by (apply Sub; now left).
      destruct (tolerant_unlink layers (sbom_name n sx) (VS sx Isx) s s1 r1 (proj1 I) U) as [Fr Gone].
      fold (sbom_path layers n sx) in Fr, Gone.
      assert (I1 : inv s1) by (destruct Fr as [->| ->]; [exact I|apply inv_pdel; assumption]).
      assert (O1 : only_sboms s s1) by (destruct Fr as [->| ->]; [apply only_sboms_refl|apply only_pdel, Isx]).
      assert (K1 : forall sy, In sy S -> pget (sbom_path layers n sy) s = None -> pget (sbom_path layers n sy) s1 = None).
      { intros sy Iy G. destruct Fr as [->| ->]; [exact G|]. rewrite pget_pdel. now destruct (path_eqb _ _). }
      destruct r1 as [[]|e].
      + destruct (IH (fun y Hy => Sub y (or_intror Hy)) s1 s' r I1 H) as (I2 & O2 & K2 & G2).
        split; [exact I2|]. split; [eapply only_sboms_trans; eauto|]. split; [intros sy Iy G; apply K2, K1; assumption|].
        intros -> sy [<-|Iy]; [apply K2; [exact Isx|apply Gone; reflexivity]|apply G2; [reflexivity|exact Iy]].
      + injection H as <- <-. split; [exact I1|]. split; [exact O1|]. split; [exact K1|discriminate].
  Qed.

  (* the write loop *)
  Lemma write_loop sboms : (forall fd, In fd sboms -> In (fst fd) S) -> forall s s' r,
    inv s -> iterM (fun fd => write_file (sbom_path layers n (fst fd)) (Raw (snd fd))) sboms s = (s', r) ->
    inv s' /\ only_sboms s s' /\
    (r = Ok tt -> forall sx, In sx S ->
       match last_data sx sboms with
       | Some d => exists m, pget (sbom_path layers n sx) s' = Some (File m (Raw d))
       | None => pget (sbom_path layers n sx) s' = pget (sbom_path layers n sx) s
       end).
  Proof.
    induction sboms as [|fd sboms IH]; intros Sub s s' r I H; cbn [iterM] in H.
    - injection H as <- <-. split; [exact I|]. split; [apply only_sboms_refl|]. intros _ sx _. reflexivity.
    - unfold bindM in H.
      destruct (write_file (sbom_path layers n (fst fd)) (Raw (snd fd)) s) as [s1 r1] eqn:W.
      assert (Ifd : In (fst fd) S) by (apply Sub; now left).
      destruct (write_step layers (sbom_name n (fst fd)) (VS _ Ifd) s s1 r1 (snd fd) (proj1 I) (proj2 I _ Ifd) W)
        as [[Hr ->]|[-> (m & ->)]].
      + destruct r1 as [[]|e]; [congruence|]. injection H as <- <-.
        split; [exact I|]. split; [apply only_sboms_refl|discriminate].
      + fold (sbom_path layers n (fst fd)) in *.
        assert (I1 := inv_pset_file s (fst fd) m (Raw (snd fd)) Ifd I).
        destruct (IH (fun y Hy => Sub y (or_intror Hy)) _ s' r I1 H) as (I2 & O2 & E2).
        split; [exact I2|]. split; [eapply only_sboms_trans; [apply only_pset, Ifd|exact O2]|].
        intros Hr sx Isx. specialize (E2 Hr sx Isx). cbn [last_data].
        destruct (last_data sx sboms) as [d|]; [exact E2|].
        rewrite E2. destruct (beq (fst fd) sx) eqn:B.
        * apply beq_spec in B. subst sx. rewrite pget_pset_same. eauto.
        * apply beq_neq in B. apply pget_pset_other. intros E. apply sbom_path_inj in E. congruence.
  Qed.
End Whole.

Lemma last_data_in sx sboms : In sx (map fst sboms) -> last_data sx sboms <> None.
Proof.
  induction sboms as [|fd r IH]; [intros []|]. cbn [map last_data]. intros [E|I].
  - destruct (last_data sx r); [discriminate|]. subst sx. rewrite beq_refl. discriminate.
  - specialize (IH I). destruct (last_data sx r); [discriminate|congruence].
Qed.

Section Main.
  Variables (suffixes : list bytes) (layers : path) (n : name) (sboms : list (bytes * bytes)).
  Let S := suffixes ++ map fst sboms.
  Hypothesis VS : forall sx, In sx S -> valid_path (sbom_path layers n sx).

  (* whatever the outcome, only the layer's own SBOM entries can change *)
  Theorem replace_sboms_frame s s' r :
    inv layers n S s -> replace_layer_sboms suffixes layers n sboms s = (s', r) ->
    only_sboms layers n S s s'.
  Proof.
    intros I H. unfold replace_layer_sboms in H.
    destruct (negb (is_dir (layers ++ [n]) s)); [injection H as <- <-; apply only_sboms_refl|].
    unfold bindM in H.
    destruct (iterM (fun sx => default_on_not_found (unlink (sbom_path layers n sx))) suffixes s) as [s1 r1] eqn:U.
    destruct (unlink_loop layers n S VS suffixes (fun sx Hx => in_or_app _ _ _ (or_introl Hx)) s s1 r1 I U)
      as (I1 & O1 & _).
    destruct r1 as [[]|e]; [|injection H as <- <-; exact O1].
    destruct (write_loop layers n S VS sboms
                (fun fd Hfd => in_or_app _ _ _ (or_intror (in_map fst _ _ Hfd))) s1 s' r I1 H) as (_ & O2 & _).
    eapply only_sboms_trans; eauto.
  Qed.

  (* a reported success: afterwards the layer has exactly the SBOM files handed over (the last one
     of each format), with that content, and no SBOM file of any other format *)
  Theorem replace_sboms_exact s s' :
    inv layers n S s -> replace_layer_sboms suffixes layers n sboms s = (s', Ok tt) ->
    forall sx, In sx S ->
      match last_data sx sboms with
      | Some d => exists m, pget (sbom_path layers n sx) s' = Some (File m (Raw d))
      | None => pget (sbom_path layers n sx) s' = None
      end.
  Proof.
    intros I H sx Isx. unfold replace_layer_sboms in H.
    destruct (negb (is_dir (layers ++ [n]) s)); [discriminate|].
    unfold bindM in H.
    destruct (iterM (fun sx => default_on_not_found (unlink (sbom_path layers n sx))) suffixes s) as [s1 r1] eqn:U.
    destruct (unlink_loop layers n S VS suffixes (fun y Hy => in_or_app _ _ _ (or_introl Hy)) s s1 r1 I U)
      as (I1 & _ & _ & G1).
    destruct r1 as [[]|e]; [|discriminate].
    destruct (write_loop layers n S VS sboms
                (fun fd Hfd => in_or_app _ _ _ (or_intror (in_map fst _ _ Hfd))) s1 s' (Ok tt) I1 H) as (_ & _ & E2).
    specialize (E2 eq_refl sx Isx).
    destruct (last_data sx sboms) as [d|] eqn:L; [exact E2|].
    rewrite E2. apply G1; [reflexivity|].
    apply in_app_or in Isx. destruct Isx as [Isx|Isx]; [exact Isx|].
    exfalso. exact (last_data_in sx sboms Isx L).
  Qed.
End Main.

(* the hypotheses are satisfiable and the conclusion is not trivial: a layer with a stale SPDX
   file gets a CycloneDX file written twice; afterwards it has the second CycloneDX content and no
   SPDX file *)
Definition ex_layers : path := [[108]].
Definition ex_fs : fs :=
  [ ([], Dir 493); ([[108]], Dir 493); ([[108]; [97]], Dir 493);
    ([[108]; sbom_name [97] [115; 112; 100; 120; 46; 106; 115; 111; 110]], File 420 (Raw [1])) ].
Definition ex_sboms : list (bytes * bytes) :=
  [ ([99; 100; 120; 46; 106; 115; 111; 110], [7]); ([99; 100; 120; 46; 106; 115; 111; 110], [8]) ].

Example replace_sboms_example :
  let '(s', r) := replace_layer_sboms spec_sbom_suffixes ex_layers [97] ex_sboms ex_fs in
  r = Ok tt /\
  pget (sbom_path ex_layers [97] [99; 100; 120; 46; 106; 115; 111; 110]) s' = Some (File 420 (Raw [8])) /\
  pget (sbom_path ex_layers [97] [115; 112; 100; 120; 46; 106; 115; 111; 110]) s' = None.
Proof. vm_compute. repeat split; reflexivity. Qed.

Example replace_sboms_example_inv :
  inv ex_layers [97] (spec_sbom_suffixes ++ map fst ex_sboms) ex_fs /\
  forall sx, In sx (spec_sbom_suffixes ++ map fst ex_sboms) -> valid_path (sbom_path ex_layers [97] sx).
Proof.
  split; [split|].
  - intros k Lk. destruct k as [|[|k]]; [eexists; reflexivity|eexists; reflexivity|cbn in Lk; lia].
  - intros sx Isx t. cbn in Isx.
    repeat (destruct Isx as [<-|Isx]; [vm_compute; discriminate|]). destruct Isx.
  - intros sx Isx. cbn in Isx.
    repeat (destruct Isx as [<-|Isx]; [repeat constructor|]). destruct Isx.
Qed.
