(* LayerEnvFSFull.v -- LayerEnv::write_to_layer_dir and read_from_layer_dir for EVERY environment,
   per-process entries included (C03, C10): the exact file system after a write, the environment
   read back from it, and the read/write fixpoint. *)
From LV Require Import Base FS FSFacts LayerShared LayerSharedFacts LayerSharedGone LayerEnv LayerEnvFacts
  LayerEnvFS LayerEnvFSFacts Determinism FSInv LayerEnvFSExact LayerEnvFSCompose LayerEnvReadback LayerEnvFSRead
  LayerEnvFSCycle LayerEnvFSProc.
From Coq Require Import Lia Permutation.
Open Scope N_scope.

Lemma chain3 {A} (a b c : M unit) (T : M A) s s3 :
  (a ;;; b ;;; c ;;; ret tt) s = (s3, Ok tt) -> (a ;;; b ;;; c ;;; T) s = T s3.
Proof.
  unfold bindM, ret. destruct (a s) as [s1 [u1|e1]]; [|intros H; inversion H].
  destruct (b s1) as [s2 [u2|e2]]; [|intros H; inversion H].
  destruct (c s2) as [s3' [u3|e3]]; intros H; inversion H; subst. reflexivity.
Qed.

Section FullWrite.
  Variable order : list beh.
  Variable wtab : writer_table.

  Definition procs_ok (dl : delta) (procs : list (name * delta)) : Prop :=
    NoDup (map fst procs) /\
    forall pn pd, In (pn, pd) procs ->
      valid_name pn = true /\ files_ok order wtab pd /\ forall f, In f (delta_files order wtab dl) -> fst f <> pn.

  (* every path of the file system after LayerEnv::write_to_layer_dir, for every environment *)
  Theorem write_to_layer_dir_full e dir s :
    let L := dir ++ [n_env_launch] in
    fs_inv s dir ->
    files_ok order wtab (le_all e) -> files_ok order wtab (le_build e) -> files_ok order wtab (le_launch e) ->
    procs_ok (le_launch e) (le_process e) ->
    root_ok s (dir ++ [n_env]) -> root_ok s (dir ++ [n_env_build]) -> root_ok s L ->
    exists s', write_to_layer_dir order wtab e dir s = (s', Ok tt) /\ fs_inv s' dir /\
      forall q,
        pget q s' =
        if is_prefix (dir ++ [n_env]) q then env_dir_spec order wtab (le_all e) (dir ++ [n_env]) q
        else if is_prefix (dir ++ [n_env_build]) q then env_dir_spec order wtab (le_build e) (dir ++ [n_env_build]) q
        else if is_prefix L q then launch_spec order wtab (le_launch e) (le_process e) L q
        else pget q s.
  Proof.
    intros L I0 FA FB FL [PND PO] RA RB RL.
    set (e0 := mkLE (le_all e) (le_build e) (le_launch e) [] (le_paths_build e) (le_paths_launch e)).
    destruct (write_to_layer_dir_exact order wtab e0 dir s I0 eq_refl FA FB FL RA RB RL) as (s3 & E0 & I3 & G3).
    unfold write_to_layer_dir in E0. cbn [e0 le_all le_build le_launch le_process iterM] in E0.
    assert (NL1 : forall q, is_prefix L q = true -> is_prefix (dir ++ [n_env]) q = false).
    { intros q Hq. apply (sibling_prefix dir n_env n_env_launch q); [discriminate|exact Hq]. }
    assert (NL2 : forall q, is_prefix L q = true -> is_prefix (dir ++ [n_env_build]) q = false).
    { intros q Hq. apply (sibling_prefix dir n_env_build n_env_launch q); [discriminate|exact Hq]. }
    assert (Under : forall q, is_prefix L q = true -> pget q s3 = env_dir_spec order wtab (le_launch e) L q).
    { intros q Hq. rewrite G3. cbn [e0 le_all le_build le_launch]. rewrite (NL1 q Hq), (NL2 q Hq). fold L. rewrite Hq. reflexivity. }
    assert (LS3 : launch_state s3 L).
    { unfold launch_state. rewrite (Under L (is_prefix_refl L)). unfold env_dir_spec.
      destruct (delta_is_empty (le_launch e)); [left; reflexivity|right; rewrite path_eqb_refl; reflexivity]. }
    destruct (write_procs order wtab dir (le_process e) s3 I3 LS3 PND) as (s' & E' & I' & _ & G').
    { intros pn pd Hin. destruct (PO pn pd Hin) as (Hv & FO & Fresh). split; [exact Hv|]. split; [exact FO|].
      fold L. rewrite (Under _ (is_prefix_app L [pn])). unfold env_dir_spec.
      destruct (delta_is_empty (le_launch e)); [reflexivity|].
      replace (path_eqb (L ++ [pn]) L) with false by (symmetry; apply path_eqb_neq, snoc_neq_self).
      destruct (find _ _) as [f|] eqn:Ef; [|reflexivity]. exfalso.
      apply find_some in Ef as [Hf Ek]. apply path_eqb_spec, app_inv_head in Ek. injection Ek as Ek.
      apply (Fresh f Hf). symmetry. exact Ek. }
    exists s'. split; [|split; [exact I'|]].
    - unfold write_to_layer_dir. rewrite (chain3 _ _ _ _ s s3 E0). exact E'.
    - intros q. rewrite G'. fold L.
      destruct (is_prefix L q) eqn:PL.
      + rewrite (NL1 q PL), (NL2 q PL).
        rewrite (fold_proc_step_ext order wtab L (le_process e) _ (env_dir_spec order wtab (le_launch e) L) q (Under q PL)).
        apply fold_proc_step_find. exact PND.
      + rewrite (fold_proc_step_outside order wtab L (le_process e) _ q PL). rewrite G3.
        cbn [e0 le_all le_build le_launch]. fold L. rewrite PL. reflexivity.
  Qed.
End FullWrite.

(* ---------- pure facts about env_dir_spec ---------- *)
Section SpecFacts.
  Variable order : list beh.
  Variable wtab : writer_table.

  Lemma in_delta_files_nonempty d f : In f (delta_files order wtab d) -> delta_is_empty d = false.
  Proof.
    intros H. destruct (delta_is_empty d) eqn:E; [|reflexivity].
    rewrite (delta_files_empty order wtab d E) in H. contradiction.
  Qed.

  Lemma env_spec_file d (p : path) nm c :
    NoDup (map fst (delta_files order wtab d)) -> In (nm, c) (delta_files order wtab d) ->
    env_dir_spec order wtab d p (p ++ [nm]) = Some (File mode_file_default (Raw c)).
  Proof.
    intros ND Hin. unfold env_dir_spec. rewrite (in_delta_files_nonempty d _ Hin).
    replace (path_eqb (p ++ [nm]) p) with false by (symmetry; apply path_eqb_neq, snoc_neq_self).
    destruct (find _ _) as [f|] eqn:Ef.
    - apply find_some in Ef as [Hf Ek]. apply path_eqb_spec, app_inv_head in Ek. injection Ek as Ek.
      destruct f as [fn fc]. cbn [fst snd] in *. subst fn. rewrite (nodup_fst_unique _ nm c fc ND Hin Hf). reflexivity.
    - pose proof (find_none _ _ Ef (nm, c) Hin) as X. cbn [fst] in X. rewrite path_eqb_refl in X. discriminate.
  Qed.

  Lemma env_spec_some d (p : path) nm :
    env_dir_spec order wtab d p (p ++ [nm]) <> None -> exists c, In (nm, c) (delta_files order wtab d).
  Proof.
    unfold env_dir_spec. destruct (delta_is_empty d); [congruence|].
    replace (path_eqb (p ++ [nm]) p) with false by (symmetry; apply path_eqb_neq, snoc_neq_self).
    destruct (find _ _) as [f|] eqn:Ef; [|congruence]. intros _.
    apply find_some in Ef as [Hf Ek]. apply path_eqb_spec, app_inv_head in Ek. injection Ek as Ek.
    destruct f as [fn fc]. cbn [fst] in Ek. subst fn. eauto.
  Qed.

  Lemma env_spec_node d p q v : env_dir_spec order wtab d p q = Some v ->
    v = Dir mode_dir_default \/ exists c, v = File mode_file_default (Raw c).
  Proof.
    unfold env_dir_spec. destruct (delta_is_empty d); [discriminate|].
    destruct (path_eqb q p); [intros [= <-]; now left|].
    destruct (find _ _) as [f|]; [intros [= <-]; right; eauto|discriminate].
  Qed.

  (* which process directory contains a path: the unique non-empty process of that name *)
  Lemma find_unique_proc (L : path) procs pn pd q :
    NoDup (map fst procs) -> In (pn, pd) procs -> nonempty_proc (pn, pd) = true -> is_prefix (L ++ [pn]) q = true ->
    find (fun pd => nonempty_proc pd && is_prefix (L ++ [fst pd]) q) procs = Some (pn, pd).
  Proof.
    intros ND Hin Hne Hq. destruct (find _ procs) as [[pn' pd']|] eqn:Ef.
    - apply find_some in Ef as [Hin' Hm]. cbn [fst] in Hm. apply andb_true_iff in Hm as [_ Hp].
      assert (E : pn' = pn).
      { destruct (list_eq_dec N.eq_dec pn' pn) as [E|NE]; [exact E|]. exfalso.
        apply is_prefix_spec in Hq as [r ->]. rewrite (sibling_dirs L pn' pn r NE) in Hp. discriminate. }
      subst pn'. rewrite (nodup_fst_unique _ pn pd pd' ND Hin Hin'). reflexivity.
    - pose proof (find_none _ _ Ef (pn, pd) Hin) as X. cbn [fst] in X. rewrite Hne, Hq in X. discriminate.
  Qed.

  Lemma find_no_proc (L : path) procs nm r :
    (forall pd, In (nm, pd) procs -> nonempty_proc (nm, pd) = false) ->
    find (fun pd => nonempty_proc pd && is_prefix (L ++ [fst pd]) ((L ++ [nm]) ++ r)) procs = None.
  Proof.
    intros H. destruct (find _ procs) as [[pn' pd']|] eqn:Ef; [|reflexivity]. exfalso.
    apply find_some in Ef as [Hin' Hm]. cbn [fst] in Hm. apply andb_true_iff in Hm as [Hn Hp].
    destruct (list_eq_dec N.eq_dec pn' nm) as [E|NE].
    - subst pn'. rewrite (H pd' Hin') in Hn. discriminate.
    - rewrite (sibling_dirs L pn' nm r NE) in Hp. discriminate.
  Qed.

  Lemma find_proc_at_root (L : path) procs :
    find (fun pd => nonempty_proc pd && is_prefix (L ++ [fst pd]) L) procs = None.
  Proof.
    destruct (find _ procs) as [[pn' pd']|] eqn:Ef; [|reflexivity]. exfalso.
    apply find_some in Ef as [_ Hm]. cbn [fst] in Hm. apply andb_true_iff in Hm as [_ Hp].
    apply is_prefix_spec in Hp as [r Hp]. apply (f_equal (@length name)) in Hp. rewrite !app_length in Hp. cbn in Hp. lia.
  Qed.
End SpecFacts.

(* ---------- bmap helpers ---------- *)
Lemma bsorted_filter {V} (f : bytes * V -> bool) (m : bmap V) : bsorted m -> bsorted (filter f m).
Proof.
  induction m as [|[k v] m IH]; cbn [filter bsorted]; [auto|]. intros [A S].
  destruct (f (k, v)); cbn [bsorted]; [|apply IH, S]. split; [|apply IH, S].
  intros k' v' Hin. apply filter_In in Hin as [Hin _]. eapply A, Hin.
Qed.

Lemma nodup_fst_filter {A B} (f : A * B -> bool) (l : list (A * B)) : NoDup (map fst l) -> NoDup (map fst (filter f l)).
Proof.
  induction l as [|x l IH]; cbn [filter map]; intros H; [constructor|]. inversion H as [|a b Ha Hb]; subst.
  destruct (f x); cbn [map]; [|apply IH, Hb]. constructor; [|apply IH, Hb].
  intros Hin. apply Ha. apply in_map_iff in Hin as (y & E & Hy). apply filter_In in Hy as [Hy _].
  apply in_map_iff. exists y. split; assumption.
Qed.

Section FullRead.
  Variable wtab : writer_table.
  Variable rtab : reader_table.
  Variable no_ext : option beh.
  Variable path_rows : list (bytes * scope_kind * bytes).
  Variable sep : bytes.
  Variable reads_process : bool.
  Hypothesis T : tables_inverse wtab rtab.
  Hypothesis RP : reads_process = true.

  Notation order := spec_beh_order.

  Definition launch_written (dl : delta) (procs : list (name * delta)) (L : path) (s : fs) : Prop :=
    forall q, is_prefix L q = true -> pget q s = launch_spec order wtab dl procs L q.

  Definition procs_deltas_ok (procs : list (name * delta)) : Prop :=
    forall pn pd, In (pn, pd) procs -> delta_wf pd /\ delta_names_nonempty pd.

  Definition proc_of (procs : list (name * delta)) (nm : name) : option (name * delta) :=
    find (fun pd => nonempty_proc pd && beq (fst pd) nm) procs.

  Lemma proc_of_some procs nm x : proc_of procs nm = Some x -> In x procs /\ nonempty_proc x = true /\ fst x = nm.
  Proof.
    intros H. apply find_some in H as [Hin Hm]. apply andb_true_iff in Hm as [Hn Hb]. apply beq_spec in Hb. auto.
  Qed.

  Lemma proc_of_none procs nm : proc_of procs nm = None -> forall pd, In (nm, pd) procs -> nonempty_proc (nm, pd) = false.
  Proof.
    intros H pd Hin. pose proof (find_none _ _ H (nm, pd) Hin) as X. cbn [fst] in X. rewrite beq_refl, andb_true_r in X. exact X.
  Qed.

  Lemma launch_root dl procs L s : launch_written dl procs L s ->
    pget L s = if existsb nonempty_proc procs then Some (Dir mode_dir_default) else env_dir_spec order wtab dl L L.
  Proof.
    intros W. rewrite (W L (is_prefix_refl L)). unfold launch_spec. rewrite find_proc_at_root, path_eqb_refl. reflexivity.
  Qed.

  Lemma launch_proc_dir dl procs L s pn pd :
    NoDup (map fst procs) -> launch_written dl procs L s -> In (pn, pd) procs -> nonempty_proc (pn, pd) = true ->
    dir_written wtab pd (L ++ [pn]) s.
  Proof.
    intros ND W Hin Hne q Hq.
    assert (PL : is_prefix L q = true).
    { apply is_prefix_spec in Hq as [r ->]. rewrite <- app_assoc. apply is_prefix_app. }
    rewrite (W q PL). unfold launch_spec. rewrite (find_unique_proc L procs pn pd q ND Hin Hne Hq). reflexivity.
  Qed.

  Lemma launch_other dl procs L s nm :
    launch_written dl procs L s -> (forall pd, In (nm, pd) procs -> nonempty_proc (nm, pd) = false) ->
    pget (L ++ [nm]) s = env_dir_spec order wtab dl L (L ++ [nm]).
  Proof.
    intros W H. rewrite (W _ (is_prefix_app L [nm])). unfold launch_spec.
    pose proof (find_no_proc L procs nm [] H) as F. rewrite app_nil_r in F. rewrite F.
    replace (path_eqb (L ++ [nm]) L) with false by (symmetry; apply path_eqb_neq, snoc_neq_self). reflexivity.
  Qed.

  Lemma proc_dir_node dl procs L s pn pd :
    NoDup (map fst procs) -> launch_written dl procs L s -> In (pn, pd) procs -> nonempty_proc (pn, pd) = true ->
    pget (L ++ [pn]) s = Some (Dir mode_dir_default).
  Proof.
    intros ND W Hin Hne. rewrite (launch_proc_dir dl procs L s pn pd ND W Hin Hne _ (is_prefix_refl _)).
    unfold env_dir_spec. unfold nonempty_proc in Hne. cbn [snd] in Hne. apply negb_true_iff in Hne. rewrite Hne, path_eqb_refl. reflexivity.
  Qed.

  (* what every entry of a written env.launch is *)
  Lemma launch_children dl procs L s :
    files_ok order wtab dl -> procs_ok order wtab dl procs -> launch_written dl procs L s ->
    forall nm, In nm (children L s) -> valid_name nm = true /\
      ((exists fm c, pget (L ++ [nm]) s = Some (File fm c) /\ has_r fm = true) \/ (exists dm, pget (L ++ [nm]) s = Some (Dir dm))).
  Proof.
    intros [ND VF] [PND PO] W nm Hin. apply children_pget in Hin.
    destruct (proc_of procs nm) as [[pn pd]|] eqn:Ep.
    - apply proc_of_some in Ep as (Hp & Hne & E). cbn [fst] in E. subst pn.
      split; [apply (PO nm pd Hp)|]. right. exists mode_dir_default. apply (proc_dir_node dl procs L s nm pd PND W Hp Hne).
    - pose proof (launch_other dl procs L s nm W (proc_of_none procs nm Ep)) as E. rewrite E in Hin.
      destruct (env_spec_some order wtab dl L nm Hin) as (c & Hc). split.
      + rewrite Forall_forall in VF. apply (VF (nm, c) Hc).
      + left. exists mode_file_default, (Raw c). split; [|reflexivity]. rewrite E. apply env_spec_file; assumption.
  Qed.

  (* the launch delta reads back, whatever per-process directories stand beside its files *)
  Lemma read_launch_written dl procs dir s :
    let L := dir ++ [n_env_launch] in
    simple_dir s dir -> delta_ok wtab dl -> procs_ok order wtab dl procs -> launch_written dl procs L s ->
    read_dir_if_dir rtab no_ext reads_process L s = (s, Ok dl).
  Proof.
    intros L SD (Wf & NE & FO) PO W. pose proof FO as [ND VF]. pose proof PO as [PND POk].
    assert (Hvl : valid_name n_env_launch = true) by reflexivity.
    pose proof (launch_root dl procs L s W) as HL. unfold read_dir_if_dir.
    assert (Present : pget L s = Some (Dir mode_dir_default) ->
      (if is_dir L s then read_from_env_dir rtab no_ext reads_process L s else (s, Ok delta_empty)) = (s, Ok dl)).
    { intros HpL.
      assert (NL : not_link (pget L s)) by (rewrite HpL; intros t; discriminate).
      unfold is_dir, L. rewrite (stat_in_dir s dir n_env_launch SD Hvl NL). fold L. rewrite HpL.
      assert (SDL : simple_dir s L) by (apply simple_dir_child; assumption).
      rewrite (read_env_dir_mixed rtab no_ext reads_process L s mode_dir_default RP SDL HpL eq_refl
                 (launch_children dl procs L s FO PO W)).
      f_equal. f_equal.
      apply (parse_files_same_set wtab rtab no_ext T dl _ Wf NE ND).
      - rewrite map_map. cbn [fst]. rewrite map_id. apply NoDup_filter, children_nodup.
      - intros [nm c]. rewrite in_map_iff. split.
        + intros Hin.
          assert (Fr : forall pd, In (nm, pd) procs -> nonempty_proc (nm, pd) = false).
          { intros pd Hp. exfalso. destruct (POk nm pd Hp) as (_ & _ & Fresh). apply (Fresh (nm, c) Hin). reflexivity. }
          assert (Ef : pget (L ++ [nm]) s = Some (File mode_file_default (Raw c))).
          { rewrite (launch_other dl procs L s nm W Fr). apply env_spec_file; assumption. }
          exists nm. split; [unfold content_at; rewrite Ef; reflexivity|].
          apply filter_In. split; [apply children_pget; rewrite Ef; discriminate|unfold file_child; rewrite Ef; reflexivity].
        + intros (nm' & E & Hin). injection E as -> E. apply filter_In in Hin as [Hc Hf].
          unfold file_child in Hf.
          destruct (proc_of procs nm) as [[pn pd]|] eqn:Ep.
          * apply proc_of_some in Ep as (Hp & Hne & E2). cbn [fst] in E2. subst pn.
            rewrite (proc_dir_node dl procs L s nm pd PND W Hp Hne) in Hf. discriminate.
          * pose proof (launch_other dl procs L s nm W (proc_of_none procs nm Ep)) as E3.
            apply children_pget in Hc. rewrite E3 in Hc.
            destruct (env_spec_some order wtab dl L nm Hc) as (c' & Hc').
            unfold content_at in E. rewrite E3, (env_spec_file order wtab dl L nm c' ND Hc') in E.
            cbn [content_bytes] in E. subst c'. exact Hc'. }
    destruct (existsb nonempty_proc procs) eqn:Ex.
    - apply Present. exact HL.
    - destruct (delta_is_empty dl) eqn:Ee.
      + assert (Hn : pget L s = None) by (rewrite HL; unfold env_dir_spec; rewrite Ee; reflexivity).
        assert (NL : not_link (pget L s)) by (rewrite Hn; intros t; discriminate).
        unfold is_dir, L. rewrite (stat_in_dir s dir n_env_launch SD Hvl NL). fold L. rewrite Hn.
        rewrite (delta_is_empty_eq dl Ee). reflexivity.
      + apply Present. rewrite HL. unfold env_dir_spec. rewrite Ee, path_eqb_refl. reflexivity.
  Qed.

  (* ---------- the per-process environments ---------- *)
  Definition procs_step (procs : list (name * delta)) (m : bmap delta) (nm : name) : bmap delta :=
    match proc_of procs nm with Some pd => bset nm (snd pd) m | None => m end.

  Lemma read_procs_written dl procs dir s :
    let L := dir ++ [n_env_launch] in
    simple_dir s dir -> parent_closed s -> files_ok order wtab dl -> procs_ok order wtab dl procs -> procs_deltas_ok procs ->
    launch_written dl procs L s ->
    (if reads_process
     then fun s1 =>
            if is_dir (dir ++ [n_env_launch]) s1 then
              (pl <- readdir (dir ++ [n_env_launch]) ;;
               fold_left (fun (acc : M (bmap delta)) (nm : name) =>
                            m <- acc ;;
                            isd <- (fun s2 => (s2, Ok (is_dir (dir ++ [n_env_launch; nm]) s2))) ;;
                            if isd : bool
                            then d <- read_from_env_dir rtab no_ext reads_process (dir ++ [n_env_launch; nm]) ;; ret (bset nm d m)
                            else ret m)
                         (snd pl) (ret [])) s1
            else (s1, Ok [])
     else ret []) s = (s, Ok (fold_left (procs_step procs) (children L s) [])).
  Proof.
    intros L SD PC FO PO PDO W. pose proof PO as [PND POk]. rewrite RP.
    assert (Hvl : valid_name n_env_launch = true) by reflexivity.
    pose proof (launch_root dl procs L s W) as HL. fold L.
    destruct (pget L s) as [v|] eqn:EL.
    2:{ assert (NL : not_link (pget L s)) by (rewrite EL; intros t; discriminate).
        unfold is_dir, L. rewrite (stat_in_dir s dir n_env_launch SD Hvl NL). fold L. rewrite EL.
        replace (children L s) with (@nil name); [reflexivity|]. symmetry. apply children_empty_iff.
        intros n. apply pc_absent_below; assumption. }
    assert (HpL : pget L s = Some (Dir mode_dir_default)).
    { rewrite EL. f_equal. destruct (existsb nonempty_proc procs); [congruence|].
      symmetry in HL. destruct (env_spec_node order wtab dl L L v HL) as [->|(c & ->)]; [reflexivity|].
      unfold env_dir_spec in HL. destruct (delta_is_empty dl); [discriminate|]. rewrite path_eqb_refl in HL. discriminate. }
    clear EL HL.
    assert (NL : not_link (pget L s)) by (rewrite HpL; intros t; discriminate).
    unfold is_dir at 1. unfold L at 1. rewrite (stat_in_dir s dir n_env_launch SD Hvl NL). fold L. rewrite HpL.
    assert (SDL : simple_dir s L) by (apply simple_dir_child; assumption).
    unfold bindM at 1. unfold readdir. rewrite (resolve_simple s L true SDL), HpL.
    change (has_r mode_dir_default) with true. cbn [snd].
    assert (G : forall names (acc : M (bmap delta)) m0, acc s = (s, Ok m0) ->
      (forall nm, In nm names -> In nm (children L s)) ->
      fold_left (fun (acc : M (bmap delta)) (nm : name) =>
                   m <- acc ;;
                   isd <- (fun s2 => (s2, Ok (is_dir (dir ++ [n_env_launch; nm]) s2))) ;;
                   if isd : bool
                   then d <- read_from_env_dir rtab no_ext true (dir ++ [n_env_launch; nm]) ;; ret (bset nm d m)
                   else ret m) names acc s = (s, Ok (fold_left (procs_step procs) names m0))).
    { induction names as [|nm names IH]; intros acc m0 Hacc Hsub; cbn [fold_left]; [exact Hacc|].
      apply IH; [|intros n Hn; apply Hsub; right; exact Hn].
      destruct (launch_children dl procs L s FO PO W nm (Hsub nm (or_introl eq_refl))) as (Hvn & _).
      unfold bindM at 1. rewrite Hacc. unfold bindM at 1. rewrite snoc2. fold L. unfold procs_step.
      destruct (proc_of procs nm) as [[pn pd]|] eqn:Ep.
      - apply proc_of_some in Ep as (Hp & Hne & E). cbn [fst] in E. subst pn. cbn [snd].
        pose proof (proc_dir_node dl procs L s nm pd PND W Hp Hne) as Hd.
        assert (NLn : not_link (pget (L ++ [nm]) s)) by (rewrite Hd; intros t; discriminate).
        unfold is_dir. rewrite (stat_in_dir s L nm SDL Hvn NLn), Hd.
        destruct (PDO nm pd Hp) as (Wf & NEd). destruct (POk nm pd Hp) as (_ & FOd & _).
        unfold nonempty_proc in Hne. cbn [snd] in Hne. apply negb_true_iff in Hne.
        unfold bindM at 1.
        rewrite <- RP at 1.
        rewrite (read_env_dir_exact wtab rtab no_ext reads_process T pd (L ++ [nm]) s
                   (simple_dir_child s L nm SDL Hvn Hd) Wf NEd FOd Hne
                   (launch_proc_dir dl procs L s nm pd PND W Hp ltac:(unfold nonempty_proc; cbn [snd]; rewrite Hne; reflexivity))).
        reflexivity.
      - pose proof (launch_other dl procs L s nm W (proc_of_none procs nm Ep)) as E3.
        assert (Hc : pget (L ++ [nm]) s <> None) by (apply children_pget, Hsub; left; reflexivity).
        rewrite E3 in Hc. destruct (env_spec_some order wtab dl L nm Hc) as (c & Hc').
        destruct FO as [ND VF].
        assert (Hf : pget (L ++ [nm]) s = Some (File mode_file_default (Raw c))) by (rewrite E3; apply env_spec_file; assumption).
        assert (NLn : not_link (pget (L ++ [nm]) s)) by (rewrite Hf; intros t; discriminate).
        unfold is_dir. rewrite (stat_in_dir s L nm SDL Hvn NLn), Hf. reflexivity. }
    apply (G (children L s) (ret []) []); [reflexivity|auto].
  Qed.

  (* the fold over the listing builds exactly the map of the non-empty process deltas *)
  Lemma bget_procs_fold procs k : forall names m0,
    bget k (fold_left (procs_step procs) names m0) =
    if existsb (beq k) names
    then match proc_of procs k with Some pd => Some (snd pd) | None => bget k m0 end
    else bget k m0.
  Proof.
    induction names as [|nm names IH]; intros m0; cbn [fold_left existsb]; [reflexivity|].
    rewrite IH.
    assert (St : bget k (procs_step procs m0 nm) =
                 if beq k nm then match proc_of procs k with Some pd => Some (snd pd) | None => bget k m0 end else bget k m0).
    { unfold procs_step. destruct (beq k nm) eqn:E.
      - apply beq_spec in E. subst nm. destruct (proc_of procs k); [apply bget_set_same|reflexivity].
      - apply beq_neq in E. destruct (proc_of procs nm); [apply bget_set_other; exact E|reflexivity]. }
    rewrite St. destruct (beq k nm), (existsb (beq k) names), (proc_of procs k); reflexivity.
  Qed.

  Lemma procs_fold_sorted procs : forall names m0, bsorted m0 -> bsorted (fold_left (procs_step procs) names m0).
  Proof.
    induction names as [|nm names IH]; intros m0 S; cbn [fold_left]; [exact S|].
    apply IH. unfold procs_step. destruct (proc_of procs nm); [apply bset_sorted, S|exact S].
  Qed.

  Lemma bget_filter_procs procs k :
    bget k (filter nonempty_proc procs) = match proc_of procs k with Some pd => Some (snd pd) | None => None end.
  Proof.
    unfold proc_of. induction procs as [|[pn pd] procs IH]; cbn [filter find]; [reflexivity|].
    destruct (nonempty_proc (pn, pd)); cbn [andb bget fst].
    - rewrite (beq_sym k pn). destruct (beq pn k); [reflexivity|exact IH].
    - exact IH.
  Qed.

  Lemma procs_fold_is_filter dl procs L s :
    bsorted procs -> NoDup (map fst procs) -> launch_written dl procs L s ->
    fold_left (procs_step procs) (children L s) [] = filter nonempty_proc procs.
  Proof.
    intros S ND W. apply bmap_ext; [apply procs_fold_sorted; exact I|apply bsorted_filter, S|].
    intros k. rewrite bget_procs_fold, bget_filter_procs. cbn [bget].
    destruct (proc_of procs k) as [[pn pd]|] eqn:Ep; [|destruct (existsb _ _); reflexivity].
    apply proc_of_some in Ep as (Hp & Hne & E). cbn [fst] in E. subst pn.
    replace (existsb (beq k) (children L s)) with true; [reflexivity|]. symmetry. apply existsb_exists.
    exists k. split; [|apply beq_refl]. apply children_pget. rewrite (proc_dir_node dl procs L s k pd ND W Hp Hne). discriminate.
  Qed.

  (* ---------- the whole layer ---------- *)
  Definition layer_written_full (e : layer_env) (dir : path) (s : fs) : Prop :=
    dir_written wtab (le_all e) (dir ++ [n_env]) s /\
    dir_written wtab (le_build e) (dir ++ [n_env_build]) s /\
    launch_written (le_launch e) (le_process e) (dir ++ [n_env_launch]) s.

  Definition env_ok_full (e : layer_env) : Prop :=
    delta_ok wtab (le_all e) /\ delta_ok wtab (le_build e) /\ delta_ok wtab (le_launch e) /\
    procs_ok order wtab (le_launch e) (le_process e) /\ procs_deltas_ok (le_process e) /\ bsorted (le_process e).

  Definition read_result_full (e : layer_env) (dir : path) (s : fs) : layer_env :=
    let e0 := read_layer_paths path_rows sep dir s in
    mkLE (le_all e) (le_build e) (le_launch e) (filter nonempty_proc (le_process e)) (le_paths_build e0) (le_paths_launch e0).

  Theorem read_written_layer_full e dir s :
    simple_dir s dir -> parent_closed s -> env_ok_full e -> layer_written_full e dir s ->
    read_from_layer_dir rtab no_ext path_rows sep reads_process dir s = (s, Ok (read_result_full e dir s)).
  Proof.
    intros SD PC (OA & OB & OL & PO & PDO & PS) (WA & WB & WL). unfold read_from_layer_dir, read_result_full.
    unfold bindM at 1. rewrite (read_dir_if_dir_written wtab rtab no_ext reads_process T (le_all e) dir n_env s SD eq_refl OA WA).
    unfold bindM at 1. rewrite (read_dir_if_dir_written wtab rtab no_ext reads_process T (le_build e) dir n_env_build s SD eq_refl OB WB).
    unfold bindM at 1. rewrite (read_launch_written (le_launch e) (le_process e) dir s SD OL PO WL).
    unfold bindM at 1.
    match goal with |- (let (s', r) := ?X in _) = _ =>
      replace X with (s, @Ok errno (bmap delta) (fold_left (procs_step (le_process e)) (children (dir ++ [n_env_launch]) s) []))
        by (symmetry; exact (read_procs_written (le_launch e) (le_process e) dir s SD PC (proj2 (proj2 OL)) PO PDO WL)) end.
    rewrite (procs_fold_is_filter (le_launch e) (le_process e) _ s PS (proj1 PO) WL). reflexivity.
  Qed.
End FullRead.

Lemma find_filter_pred {A} (p f : A -> bool) (l : list A) :
  (forall x, p x = true -> f x = true) -> find p (filter f l) = find p l.
Proof.
  intros H. induction l as [|x l IH]; cbn [filter find]; [reflexivity|].
  destruct (f x) eqn:Ef; cbn [find].
  - rewrite IH. reflexivity.
  - destruct (p x) eqn:Ep; [rewrite (H x Ep) in Ef; discriminate|exact IH].
Qed.

Lemma existsb_filter_same {A} (f : A -> bool) (l : list A) : existsb f (filter f l) = existsb f l.
Proof.
  induction l as [|x l IH]; cbn [filter existsb]; [reflexivity|].
  destruct (f x) eqn:Ef; cbn [existsb orb]; [rewrite Ef, IH; reflexivity|exact IH].
Qed.

Section FullCycle.
  Variable wtab : writer_table.
  Variable rtab : reader_table.
  Variable no_ext : option beh.
  Variable path_rows : list (bytes * scope_kind * bytes).
  Variable sep : bytes.
  Variable reads_process : bool.
  Hypothesis T : tables_inverse wtab rtab.
  Hypothesis RP : reads_process = true.

  Notation order := spec_beh_order.

  Lemma launch_spec_filter dl procs L q :
    launch_spec order wtab dl (filter nonempty_proc procs) L q = launch_spec order wtab dl procs L q.
  Proof.
    unfold launch_spec. rewrite existsb_filter_same.
    rewrite (find_filter_pred _ nonempty_proc procs); [reflexivity|].
    intros x Hx. apply andb_true_iff in Hx as [Hx _]. exact Hx.
  Qed.

  Lemma procs_ok_filter dl procs : procs_ok order wtab dl procs -> procs_ok order wtab dl (filter nonempty_proc procs).
  Proof.
    intros [ND PO]. split; [apply nodup_fst_filter, ND|].
    intros pn pd Hin. apply filter_In in Hin as [Hin _]. apply PO, Hin.
  Qed.

  Lemma root_ok_launch dl procs L s : fs_nodup s -> launch_written wtab dl procs L s -> root_ok s L.
  Proof.
    intros ND W. unfold root_ok. pose proof (launch_root wtab dl procs L s W) as HL.
    assert (Nodes : forall k v, pget k s = Some v -> is_prefix L k = true ->
                                v = Dir mode_dir_default \/ exists c, v = File mode_file_default (Raw c)).
    { intros k v G P. rewrite (W k P) in G. unfold launch_spec in G.
      destruct (find _ procs) as [pd|]; [eapply env_spec_node; exact G|].
      destruct (path_eqb k L && existsb nonempty_proc procs); [injection G as <-; now left|eapply env_spec_node; exact G]. }
    destruct (pget L s) as [v|] eqn:EL; [|now left]. right.
    destruct (Nodes L v EL (is_prefix_refl L)) as [->|(c & ->)].
    - exists mode_dir_default. split; [reflexivity|].
      apply (subtree_rwx_spec _ s ND). intros k v G P.
      destruct (Nodes k v G P) as [->|(c & ->)]; [|reflexivity].
      unfold dir_ok. replace (has_w mode_dir_default && has_x mode_dir_default) with true by reflexivity.
      rewrite orb_true_r. reflexivity.
    - exfalso. destruct (existsb nonempty_proc procs); [discriminate|].
      unfold env_dir_spec in HL. destruct (delta_is_empty dl); [discriminate|]. rewrite path_eqb_refl in HL. discriminate.
  Qed.

  (* ---- write, then read (C03, every environment) ---- *)
  Theorem write_then_read_full e dir s :
    fs_inv s dir -> env_ok_full wtab e ->
    root_ok s (dir ++ [n_env]) -> root_ok s (dir ++ [n_env_build]) -> root_ok s (dir ++ [n_env_launch]) ->
    exists s', write_to_layer_dir order wtab e dir s = (s', Ok tt) /\ fs_inv s' dir /\
               layer_written_full wtab e dir s' /\
               read_from_layer_dir rtab no_ext path_rows sep reads_process dir s' = (s', Ok (read_result_full path_rows sep e dir s')).
  Proof.
    intros I0 OK RA RB RL. pose proof OK as (OA & OB & OL & PO & PDO & PS).
    destruct (write_to_layer_dir_full order wtab e dir s I0
                (proj2 (proj2 OA)) (proj2 (proj2 OB)) (proj2 (proj2 OL)) PO RA RB RL) as (s' & EW & I1 & G).
    assert (WR : layer_written_full wtab e dir s').
    { split; [|split]; intros q P; rewrite G.
      - rewrite P. reflexivity.
      - rewrite (sibling_prefix dir n_env n_env_build q) by (discriminate || exact P). rewrite P. reflexivity.
      - rewrite (sibling_prefix dir n_env n_env_launch q) by (discriminate || exact P).
        rewrite (sibling_prefix dir n_env_build n_env_launch q) by (discriminate || exact P). rewrite P. reflexivity. }
    exists s'. split; [exact EW|]. split; [exact I1|]. split; [exact WR|].
    apply (read_written_layer_full wtab rtab no_ext path_rows sep reads_process T RP); [apply I1|apply I1|exact OK|exact WR].
  Qed.

  (* ---- the fixpoint (C10, every environment) ---- *)
  Theorem read_write_fixpoint_full e dir s :
    fs_inv s dir -> env_ok_full wtab e -> layer_written_full wtab e dir s ->
    exists e' s',
      read_from_layer_dir rtab no_ext path_rows sep reads_process dir s = (s, Ok e') /\
      write_to_layer_dir order wtab e' dir s = (s', Ok tt) /\
      (forall q, pget q s' = pget q s) /\ fs_inv s' dir /\ layer_written_full wtab e dir s'.
  Proof.
    intros I0 OK WR. pose proof OK as (OA & OB & OL & PO & PDO & PS). pose proof WR as (WA & WB & WL).
    exists (read_result_full path_rows sep e dir s).
    destruct (write_to_layer_dir_full order wtab (read_result_full path_rows sep e dir s) dir s I0
                (proj2 (proj2 OA)) (proj2 (proj2 OB)) (proj2 (proj2 OL)) (procs_ok_filter _ _ PO)
                (root_ok_written wtab _ dir n_env s (inv_nodup _ _ I0) WA)
                (root_ok_written wtab _ dir n_env_build s (inv_nodup _ _ I0) WB)
                (root_ok_launch _ _ _ s (inv_nodup _ _ I0) WL)) as (s' & EW & I1 & G).
    exists s'. split.
    { apply (read_written_layer_full wtab rtab no_ext path_rows sep reads_process T RP); [apply I0|apply I0|exact OK|exact WR]. }
    split; [exact EW|].
    assert (Same : forall q, pget q s' = pget q s).
    { intros q. rewrite G. cbn [read_result_full le_all le_build le_launch le_process].
      destruct (is_prefix (dir ++ [n_env]) q) eqn:P1; [symmetry; apply WA, P1|].
      destruct (is_prefix (dir ++ [n_env_build]) q) eqn:P2; [symmetry; apply WB, P2|].
      destruct (is_prefix (dir ++ [n_env_launch]) q) eqn:P3; [|reflexivity].
      rewrite launch_spec_filter. symmetry. apply WL, P3. }
    split; [exact Same|]. split; [exact I1|].
    split; [|split]; intros q P; rewrite Same; [apply WA|apply WB|apply WL]; exact P.
  Qed.

  Theorem cycles_fixpoint_full n : forall e dir s,
    fs_inv s dir -> env_ok_full wtab e -> layer_written_full wtab e dir s ->
    exists s', cycles wtab rtab no_ext path_rows sep reads_process n dir s = (s', Ok tt) /\ forall q, pget q s' = pget q s.
  Proof.
    induction n as [|n IH]; intros e dir s I0 OK WR; cbn [cycles].
    - exists s. split; [reflexivity|auto].
    - destruct (read_write_fixpoint_full e dir s I0 OK WR) as (e' & s1 & ER & EW & Same & I1 & WR1).
      rewrite ER, EW. destruct (IH e dir s1 I1 OK WR1) as (s2 & E2 & Same2).
      exists s2. split; [exact E2|]. intros q. rewrite Same2. apply Same.
  Qed.
End FullCycle.
