(* LayerSharedTotal.v -- remove_dir_recursively SUCCEEDS (C11): for every well-formed file system and
   every tree below a directory whose ancestors can be searched and whose parent can be written --
   whatever the permissions inside the tree (read-only, non-executable, mode 000 directories) and
   whatever symlinks it holds (to files, to directories, dangling, cyclic) -- the repaired function
   returns Ok; with rdr_gone and rdr_frame: the tree is gone and nothing else changed.  The only
   permissions that matter are those OUTSIDE the tree. *)
From LV Require Import Base FS FSFacts LayerShared LayerSharedFacts LayerSharedGone Determinism LayerEnvFSExact LayerEnvFSRead LayerEnvFSProc FSInv.
From Coq Require Import Lia.
Open Scope N_scope.

(* ---------- resolution without following the last component ---------- *)
Lemma walk_nofollow s : forall fuel cur comps,
  (length comps < fuel)%nat ->
  Forall (fun n => valid_name n = true) comps ->
  (forall k, (k < length comps)%nat -> exists m, pget (cur ++ firstn k comps) s = Some (Dir m) /\ has_x m = true) ->
  walk s fuel cur comps false = Ok (cur ++ comps).
Proof.
  induction fuel as [|f IH]; intros cur comps Hf V R; [lia|].
  destruct comps as [|c rest]; cbn [walk].
  - rewrite app_nil_r. reflexivity.
  - inversion V as [|? ? Vc Vr]; subst.
    destruct (R 0%nat ltac:(cbn; lia)) as (m & Hm & Hx). cbn [firstn] in Hm. rewrite app_nil_r in Hm.
    rewrite Hm, Hx. cbn [negb].
    destruct (valid_name_flags c Vc) as (E1 & E2 & E3). rewrite E1, E2, E3. cbn [orb]. cbv zeta.
    assert (E : cur ++ c :: rest = (cur ++ [c]) ++ rest) by (now rewrite <- app_assoc).
    destruct rest as [|c2 rest'].
    + cbn [is_empty andb negb].
      match goal with |- match ?tm with _ => _ end = _ => destruct tm as [[mm cc|mm|t]|] end; try reflexivity.
      destruct f; [cbn in Hf; lia|]. reflexivity.
    + cbn [is_empty andb].
      destruct (R 1%nat ltac:(cbn; lia)) as (m1 & Hm1 & Hx1). cbn [firstn] in Hm1.
      match goal with |- match ?tm with _ => _ end = _ => replace tm with (Some (Dir m1)) by (symmetry; exact Hm1) end.
      rewrite E. apply (IH (cur ++ [c]) (c2 :: rest')).
      * cbn in *. lia.
      * exact Vr.
      * intros k Hk. destruct (R (S k) ltac:(cbn in *; lia)) as (mk & Hmk & Hxk). cbn [firstn] in Hmk.
        exists mk. rewrite <- app_assoc. cbn [List.app]. auto.
Qed.

(* every proper prefix of d is a directory that can be searched *)
Definition searchable (s : fs) (d : path) : Prop :=
  forall k, (k < length d)%nat -> exists m, pget (firstn k d) s = Some (Dir m) /\ has_x m = true.

Definition parent_wx (s : fs) (d : path) : Prop :=
  exists m, pget (drop_last d) s = Some (Dir m) /\ has_w m = true /\ has_x m = true.

Lemma searchable_real_dirs s d : searchable s d -> real_dirs s [] d.
Proof. intros S k Hk. destruct (S k Hk) as (m & Hm & _). exists m. exact Hm. Qed.

Lemma resolve_nofollow_ok s d : valid_path d -> searchable s d -> resolve s d false = Ok d.
Proof.
  intros V S. unfold resolve. apply (walk_nofollow s (walk_fuel d) [] d); [unfold walk_fuel; lia|exact V|].
  intros k Hk. cbn [List.app]. apply S, Hk.
Qed.

Lemma resolve_follow_ok s d : valid_path d -> searchable s d -> not_link (pget d s) -> resolve s d true = Ok d.
Proof.
  intros V S NL. unfold resolve. apply (walk_simple s (walk_fuel d) [] d true); [unfold walk_fuel; lia|exact V| |exact NL].
  intros k Hk. cbn [List.app]. apply S, Hk.
Qed.

Lemma parent_writable_ok s d : parent_wx s d -> parent_writable s d = Ok tt.
Proof. intros (m & Hm & Hw & Hx). unfold parent_writable. rewrite Hm, Hw, Hx. reflexivity. Qed.

(* ---------- primitives succeed ---------- *)
Lemma lstat_ok s d n : valid_path d -> searchable s d -> pget d s = Some n -> lstat d s = (s, Ok n).
Proof. intros V S G. unfold lstat, stat_gen. rewrite (resolve_nofollow_ok s d V S), G. reflexivity. Qed.

Lemma chmod_dir_ok s d m m' : valid_path d -> searchable s d -> pget d s = Some (Dir m) ->
  chmod d m' s = (pset d (Dir m') s, Ok tt).
Proof.
  intros V S G. unfold chmod. rewrite (resolve_follow_ok s d V S), G; [reflexivity|]. rewrite G. intros t. discriminate.
Qed.

Lemma readdir_dir_ok s d m : valid_path d -> searchable s d -> pget d s = Some (Dir m) -> has_r m = true ->
  readdir d s = (s, Ok (d, children d s)).
Proof.
  intros V S G Hr. unfold readdir. rewrite (resolve_follow_ok s d V S), G, Hr; [reflexivity|]. rewrite G. intros t. discriminate.
Qed.

Lemma unlink_ok s p n : valid_path p -> p <> [] -> searchable s p -> parent_wx s p ->
  pget p s = Some n -> (forall m, n <> Dir m) -> unlink p s = (pdel p s, Ok tt).
Proof.
  intros V NE S PW G ND. unfold unlink. rewrite (resolve_nofollow_ok s p V S), G.
  destruct n as [fm c|m|t]; [| exfalso; exact (ND m eq_refl) |];
    (destruct p as [|x r]; [congruence|]); rewrite (parent_writable_ok _ _ PW); reflexivity.
Qed.

Lemma rmdir_ok s p m : valid_path p -> p <> [] -> searchable s p -> parent_wx s p ->
  pget p s = Some (Dir m) -> children p s = [] -> rmdir p s = (pdel p s, Ok tt).
Proof.
  intros V NE S PW G C. unfold rmdir. rewrite (resolve_nofollow_ok s p V S), G.
  destruct p as [|x r]; [congruence|]. rewrite (parent_writable_ok _ _ PW), C. reflexivity.
Qed.

(* ---------- transfer of the side conditions along changes below a child ---------- *)
Lemma prefix_not_under_child (d : path) n k : (k <= length d)%nat -> is_prefix (d ++ [n]) (firstn k d) = false.
Proof.
  intros Hk. destruct (is_prefix (d ++ [n]) (firstn k d)) eqn:E; [|reflexivity].
  apply is_prefix_spec in E as [r E]. apply (f_equal (@length _)) in E. rewrite firstn_length, !app_length in E. cbn in E. lia.
Qed.

Lemma searchable_transfer s s' d n : only_under (d ++ [n]) s s' -> searchable s d -> searchable s' d.
Proof.
  intros O S k Hk. destruct (S k Hk) as (m & Hm & Hx). exists m. rewrite O; [auto|]. apply prefix_not_under_child. lia.
Qed.

Lemma searchable_child s d n m : searchable s d -> pget d s = Some (Dir m) -> has_x m = true -> searchable s (d ++ [n]).
Proof.
  intros S G Hx k Hk. rewrite app_length in Hk. cbn in Hk.
  destruct (Nat.eq_dec k (length d)) as [->|NE].
  - rewrite firstn_app, Nat.sub_diag, firstn_all. cbn [firstn]. rewrite app_nil_r. eauto.
  - rewrite firstn_app. replace (k - length d)%nat with 0%nat by lia. cbn [firstn]. rewrite app_nil_r. apply S. lia.
Qed.

Definition deep_enough (fuel : nat) (d : path) (s : fs) : Prop :=
  forall q, pget q s <> None -> is_prefix d q = true -> (length q < length d + fuel)%nat.

Lemma sibling_not_under (d : path) a c : a <> c -> is_prefix (d ++ [a]) (d ++ [c]) = false.
Proof.
  intros Hac. replace (d ++ [c]) with ((d ++ [c]) ++ []) by apply app_nil_r. apply sibling_dirs. exact Hac.
Qed.

(* ---------- the theorem ---------- *)
Theorem rdr_total : forall fuel d s,
  valid_path d -> d <> [] -> valid_fs s -> parent_closed s ->
  searchable s d -> parent_wx s d ->
  (exists m, pget d s = Some (Dir m)) \/ (exists t, pget d s = Some (Link t)) ->
  deep_enough fuel d s ->
  exists s', remove_dir_recursively true fuel d s = (s', Ok tt).
Proof.
  induction fuel as [|f IH]; intros d s Vd NEd Vs PC Sd PW Hd Deep.
  { exfalso. destruct Hd as [(m & G)|(t & G)]; assert (X : pget d s <> None) by congruence;
      specialize (Deep d X (is_prefix_refl d)); lia. }
  cbn [remove_dir_recursively]. unfold bindM at 1.
  destruct Hd as [(m & G)|(t & G)].
  2:{ rewrite (lstat_ok s d (Link t) Vd Sd G). eexists. apply (unlink_ok s d (Link t) Vd NEd Sd PW G). intros m. discriminate. }
  rewrite (lstat_ok s d (Dir m) Vd Sd G).
  unfold bindM at 1. rewrite (chmod_dir_ok s d m mode_0777 Vd Sd G).
  set (s1 := pset d (Dir mode_0777) s).
  assert (G1 : pget d s1 = Some (Dir mode_0777)) by apply pget_pset_same.
  assert (O1 : only_under d s s1) by apply only_under_pset.
  assert (Pre1 : forall k, (k < length d)%nat -> pget (firstn k d) s1 = pget (firstn k d) s).
  { intros k Hk. apply O1. destruct (is_prefix d (firstn k d)) eqn:E; [|reflexivity].
    apply is_prefix_spec in E as [r E]. apply (f_equal (@length _)) in E. rewrite firstn_length, app_length in E. lia. }
  assert (S1 : searchable s1 d) by (intros k Hk; rewrite (Pre1 k Hk); apply Sd, Hk).
  assert (K1 : keys_shrink s s1) by (apply keys_shrink_pset_existing; congruence).
  assert (V1 : valid_fs s1) by (eapply keys_shrink_valid; eauto).
  assert (PC1 : parent_closed s1) by (apply pc_pset_dir; [exact PC|exists m; exact G]).
  assert (PW1 : parent_wx s1 d).
  { destruct PW as (pm & Hp & Hw & Hx). exists pm. split; [|auto]. unfold s1. rewrite pget_pset_other; [exact Hp|].
    intros E. apply (f_equal (@length _)) in E. destruct d as [|x r] using rev_ind; [congruence|].
    rewrite drop_last_app, app_length in E. cbn in E. lia. }
  assert (Deep1 : deep_enough (S f) d s1) by (intros q Hq P; apply Deep; [apply K1, Hq|exact P]).
  unfold bindM at 1. rewrite (readdir_dir_ok s1 d mode_0777 Vd S1 G1 eq_refl). cbn [fst snd].
  (* the loop over the entries *)
  assert (Loop : forall names sa,
    NoDup names -> valid_fs sa -> parent_closed sa -> pget d sa = Some (Dir mode_0777) -> searchable sa d ->
    deep_enough (S f) d sa -> (forall n, In n names -> pget (d ++ [n]) sa <> None) ->
    exists s3, iterM (fun n => e <- entry_node d n ;;
                        match e with
                        | Some (Dir _) => remove_dir_recursively true f (d ++ [n])
                        | _ => unlink (d ++ [n])
                        end) names sa = (s3, Ok tt) /\
               valid_fs s3 /\ parent_closed s3 /\ only_below d sa s3 /\ keys_shrink sa s3 /\
               forall n, In n names -> pget (d ++ [n]) s3 = None).
  { induction names as [|n names IHn]; intros sa ND Va PCa Ga Sa Da Ex.
    - exists sa. split; [reflexivity|]. split; [exact Va|]. split; [exact PCa|]. split; [apply only_below_refl|].
      split; [apply keys_shrink_refl|intros ? []].
    - inversion ND as [|x y Hx Hy]; subst.
      assert (Vn : valid_path (d ++ [n])) by (apply Va, Ex; left; reflexivity).
      assert (Sn : searchable sa (d ++ [n])) by (apply (searchable_child sa d n mode_0777 Sa Ga eq_refl)).
      assert (PWn : parent_wx sa (d ++ [n])).
      { exists mode_0777. rewrite drop_last_app. split; [exact Ga|split; reflexivity]. }
      assert (NEn : d ++ [n] <> []) by apply snoc_not_nil.
      (* one entry *)
      assert (Step : exists s2, (e <- entry_node d n ;;
                        match e with
                        | Some (Dir _) => remove_dir_recursively true f (d ++ [n])
                        | _ => unlink (d ++ [n])
                        end) sa = (s2, Ok tt) /\
                 only_under (d ++ [n]) sa s2 /\ keys_shrink sa s2 /\ parent_closed s2 /\ pget (d ++ [n]) s2 = None).
      { unfold bindM, entry_node.
        destruct (pget (d ++ [n]) sa) as [[fm c|dm|t]|] eqn:Gn.
        - eexists. split; [apply (unlink_ok sa (d ++ [n]) (File fm c) Vn NEn Sn PWn Gn); intros ?; discriminate|].
          split; [apply only_under_pdel|]. split; [apply keys_shrink_pdel|].
          split; [apply pc_pdel_leaf; [exact PCa|apply pc_leaf; [exact PCa|intros ?; rewrite Gn; discriminate]]|].
          rewrite pget_pdel, path_eqb_refl. reflexivity.
        - destruct (IH (d ++ [n]) sa Vn NEn Va PCa Sn PWn (or_introl (ex_intro _ dm Gn))) as (s2 & E2).
          { intros q Hq P. specialize (Da q Hq (is_prefix_trans _ _ _ (is_prefix_app d [n]) P)).
            rewrite app_length. cbn. lia. }
          exists s2. split; [exact E2|].
          destruct (rdr_frame true f (d ++ [n]) sa s2 (Ok tt) Vn Va (searchable_real_dirs _ _ Sn) (or_introl eq_refl) E2) as [O K].
          destruct (rdr_gone true f (d ++ [n]) sa s2 Vn Va (searchable_real_dirs _ _ Sn) PCa (or_introl eq_refl) E2) as [P Gone].
          split; [exact O|]. split; [exact K|]. split; [exact P|]. specialize (Gone []). rewrite app_nil_r in Gone. exact Gone.
        - eexists. split; [apply (unlink_ok sa (d ++ [n]) (Link t) Vn NEn Sn PWn Gn); intros ?; discriminate|].
          split; [apply only_under_pdel|]. split; [apply keys_shrink_pdel|].
          split; [apply pc_pdel_leaf; [exact PCa|apply pc_leaf; [exact PCa|intros ?; rewrite Gn; discriminate]]|].
          rewrite pget_pdel, path_eqb_refl. reflexivity.
        - exfalso. apply (Ex n (or_introl eq_refl)). exact Gn. }
      destruct Step as (s2 & E2 & O2 & K2 & PC2 & Gone2).
      assert (OB2 : only_below d sa s2) by (apply under_child_only_below with (n := n); exact O2).
      destruct (IHn s2 Hy) as (s3 & E3 & V3 & PC3 & O3 & K3 & Gone3).
      + eapply keys_shrink_valid; eauto.
      + exact PC2.
      + rewrite OB2; [exact Ga|right; reflexivity].
      + apply (searchable_transfer sa s2 d n O2 Sa).
      + intros q Hq P. apply Da; [apply K2, Hq|exact P].
      + intros n' Hn'. rewrite O2; [apply Ex; right; exact Hn'|].
        apply sibling_not_under. intros ->. exact (Hx Hn').
      + exists s3. split; [cbn [iterM]; unfold bindM at 1; rewrite E2; exact E3|].
        split; [exact V3|]. split; [exact PC3|]. split; [eapply only_below_trans; eauto|].
        split; [eapply keys_shrink_trans; eauto|].
        intros n' [<-|Hn']; [|apply Gone3, Hn'].
        destruct (pget (d ++ [n]) s3) eqn:X; [|reflexivity]. exfalso.
        assert (Y : pget (d ++ [n]) s3 <> None) by congruence. apply K3 in Y. congruence. }
  destruct (Loop (children d s1) s1) as (s3 & E3 & V3 & PC3 & O3 & K3 & Gone3); try assumption.
  { apply children_nodup. }
  { intros n Hn. apply children_pget in Hn. exact Hn. }
  unfold bindM at 1. rewrite E3.
  assert (G3 : pget d s3 = Some (Dir mode_0777)) by (rewrite O3; [exact G1|right; reflexivity]).
  assert (S3 : searchable s3 d).
  { intros k Hk. rewrite O3; [apply S1, Hk|]. left.
    destruct (is_prefix d (firstn k d)) eqn:E; [|reflexivity].
    apply is_prefix_spec in E as [r E]. apply (f_equal (@length _)) in E. rewrite firstn_length, app_length in E. lia. }
  assert (PW3 : parent_wx s3 d).
  { destruct PW1 as (pm & Hp & Hw & Hx). exists pm. split; [|auto]. rewrite O3; [exact Hp|]. left.
    destruct (is_prefix d (drop_last d)) eqn:E; [|reflexivity].
    apply is_prefix_spec in E as [r E]. apply (f_equal (@length _)) in E. rewrite app_length in E.
    destruct d as [|x r0] using rev_ind; [congruence|]. rewrite drop_last_app, app_length in E. cbn in E. lia. }
  assert (C3 : children d s3 = []).
  { apply children_empty_iff. intros n. destruct (pget (d ++ [n]) s1) eqn:X.
    - apply Gone3. apply children_pget. congruence.
    - destruct (pget (d ++ [n]) s3) eqn:Y; [|reflexivity]. exfalso.
      assert (Z : pget (d ++ [n]) s3 <> None) by congruence. apply K3 in Z. congruence. }
  eexists. apply (rmdir_ok s3 d mode_0777 Vd NEd S3 PW3 G3 C3).
Qed.

(* ---------- rdr_fuel is enough: no path is deeper than the number of entries ---------- *)
Lemma prefixes_present s : parent_closed s -> forall q, pget q s <> None ->
  forall k, (1 <= k <= length q)%nat -> pget (firstn k q) s <> None.
Proof.
  intros PC q. induction q as [|x q IH] using rev_ind; intros H k Hk; [cbn in Hk; lia|].
  rewrite app_length in Hk. cbn in Hk.
  destruct (Nat.eq_dec k (S (length q))) as [->|NE].
  - rewrite firstn_all2 by (rewrite app_length; cbn; lia). exact H.
  - rewrite firstn_app. replace (k - length q)%nat with 0%nat by lia. cbn [firstn]. rewrite app_nil_r.
    apply IH; [|lia]. destruct (PC q x H) as [m Hm]. congruence.
Qed.

Lemma depth_le_size s q : parent_closed s -> pget q s <> None -> (length q <= length s)%nat.
Proof.
  intros PC H.
  set (L := map (fun k => firstn k q) (seq 1 (length q))).
  assert (Len : length L = length q) by (unfold L; rewrite map_length, seq_length; reflexivity).
  rewrite <- Len, <- (map_length fst s). apply NoDup_incl_length.
  - apply (NoDup_map_inv (@length name)). unfold L. rewrite map_map.
    rewrite (map_ext_in _ (fun k => k)); [rewrite map_id; apply seq_NoDup|]. intros k Hk. apply in_seq in Hk.
    rewrite firstn_length. lia.
  - intros p Hp. unfold L in Hp. apply in_map_iff in Hp as (k & <- & Hk). apply in_seq in Hk.
    apply in_keys_pget. apply prefixes_present; [exact PC|exact H|lia].
Qed.

Lemma rdr_fuel_enough s d : parent_closed s -> deep_enough (rdr_fuel s) d s.
Proof. intros PC q Hq _. pose proof (depth_le_size s q PC Hq). unfold rdr_fuel. lia. Qed.

(* ---------- delete_layer succeeds ---------- *)
Lemma unlink_or_absent s p : valid_path p -> p <> [] -> searchable s p -> parent_wx s p ->
  (forall m, pget p s <> Some (Dir m)) ->
  exists s', default_on_not_found (unlink p) s = (s', Ok tt) /\ only_at p s s'.
Proof.
  intros V NE S PW ND. unfold default_on_not_found.
  destruct (pget p s) as [n|] eqn:G.
  - rewrite (unlink_ok s p n V NE S PW G); [|intros m ->; exact (ND m eq_refl)].
    exists (pdel p s). split; [reflexivity|]. intros q Hq. apply pget_pdel_other. exact Hq.
  - unfold unlink. rewrite (resolve_nofollow_ok s p V S), G. exists s. split; [reflexivity|intros q _; reflexivity].
Qed.

(* the layers directory: reachable, a real directory that can be searched and written *)
Definition layers_ok (s : fs) (layers : path) : Prop :=
  searchable s layers /\ exists m, pget layers s = Some (Dir m) /\ has_w m = true /\ has_x m = true.

Lemma layers_ok_child s layers x : layers_ok s layers -> searchable s (layers ++ [x]) /\ parent_wx s (layers ++ [x]).
Proof.
  intros (S & m & G & Hw & Hx). split; [apply (searchable_child s layers x m S G Hx)|].
  exists m. rewrite drop_last_app. auto.
Qed.

Lemma layers_ok_transfer s s' layers : (forall q, (length q <= length layers)%nat -> pget q s' = pget q s) ->
  layers_ok s layers -> layers_ok s' layers.
Proof.
  intros H (S & m & G & Hw & Hx). split.
  - intros k Hk. destruct (S k Hk) as (mk & Gk & Hxk). exists mk. rewrite H; [auto|]. rewrite firstn_length. lia.
  - exists m. rewrite H; [auto|lia].
Qed.

Theorem delete_layer_total sfxs layers n s :
  valid_path layers -> valid_name n = true -> Forall sfx_ok sfxs ->
  valid_fs s -> parent_closed s -> layers_ok s layers ->
  (pget (layers ++ [n]) s = None \/ (exists m, pget (layers ++ [n]) s = Some (Dir m)) \/ (exists t, pget (layers ++ [n]) s = Some (Link t))) ->
  (forall m, pget (layers ++ [toml_name n]) s <> Some (Dir m)) ->
  (forall sx m, In sx sfxs -> pget (layers ++ [sbom_name n sx]) s <> Some (Dir m)) ->
  exists s', delete_layer true true sfxs layers n s = (s', Ok tt).
Proof.
  intros Vl Vn Vs Vf PC LO HL NDt NDs.
  set (L := layers ++ [n]) in *.
  assert (VL : valid_path L) by (apply valid_path_snoc; assumption).
  destruct (layers_ok_child s layers n LO) as [SL PWL].
  (* the tree *)
  assert (Tree : exists s1, default_on_not_found (remove_dir_recursively true (rdr_fuel s) L) s = (s1, Ok tt) /\ only_under L s s1).
  { destruct HL as [Hn|Hd].
    - exists s. split; [|apply only_under_refl]. unfold default_on_not_found, rdr_fuel. cbn [remove_dir_recursively].
      unfold bindM at 1. unfold lstat, stat_gen. rewrite (resolve_nofollow_ok s L VL SL), Hn. reflexivity.
    - destruct (rdr_total (rdr_fuel s) L s VL (snoc_not_nil _ _) Vf PC SL PWL Hd (rdr_fuel_enough s L PC)) as (s1 & E1).
      exists s1. unfold default_on_not_found. rewrite E1. split; [reflexivity|].
      apply (rdr_frame true _ _ _ _ _ VL Vf (searchable_real_dirs _ _ SL) (or_introl eq_refl) E1). }
  destruct Tree as (s1 & E1 & O1).
  assert (Short : forall q, (length q <= length layers)%nat -> is_prefix L q = false).
  { intros q Hq. destruct (is_prefix L q) eqn:E; [|reflexivity]. apply is_prefix_spec in E as [r E].
    apply (f_equal (@length _)) in E. unfold L in E. rewrite !app_length in E. cbn in E. lia. }
  assert (LO1 : layers_ok s1 layers) by (apply (layers_ok_transfer s s1 layers); [intros q Hq; apply O1, Short, Hq|exact LO]).
  unfold delete_layer. unfold bindM at 1. fold L. rewrite E1.
  (* the metadata file *)
  assert (Vt : valid_name (toml_name n) = true) by (apply valid_name_app; [exact Vn|cbn; lia|reflexivity]).
  assert (Sib : forall x, x <> n -> pget (layers ++ [x]) s1 = pget (layers ++ [x]) s).
  { intros x Hx. apply O1. unfold L. apply sibling_not_under. congruence. }
  destruct (layers_ok_child s1 layers (toml_name n) LO1) as [St PWt].
  destruct (unlink_or_absent s1 (layers ++ [toml_name n]) (valid_path_snoc _ _ Vl Vt) (snoc_not_nil _ _) St PWt) as (s2 & E2 & O2).
  { intros m. rewrite Sib; [apply NDt|]. unfold toml_name. apply name_app_neq. discriminate. }
  unfold bindM at 1. rewrite E2.
  assert (ChildLen : forall x q, (length q <= length layers)%nat -> q <> layers ++ [x]).
  { intros x q Hq E. apply (f_equal (@length _)) in E. rewrite app_length in E. cbn in E. lia. }
  assert (LO2 : layers_ok s2 layers) by (apply (layers_ok_transfer s1 s2 layers); [intros q Hq; apply O2, ChildLen, Hq|exact LO1]).
  assert (ND2 : forall sx m, In sx sfxs -> pget (layers ++ [sbom_name n sx]) s2 <> Some (Dir m)).
  { intros sx m Hin. rewrite O2.
    - rewrite Sib; [apply NDs, Hin|]. unfold sbom_name. apply name_app_neq. discriminate.
    - intros E. apply app_inv_head in E. injection E as E. unfold sbom_name, toml_name in E. apply app_inv_head in E. discriminate. }
  (* the SBOM files *)
  clear - Vl Vn Vs LO2 ND2.
  revert s2 LO2 ND2. induction sfxs as [|sx sfxs IH]; intros s2 LO2 ND2; cbn [iterM].
  - exists s2. reflexivity.
  - inversion Vs as [|? ? Sx Ss]; subst.
    assert (Vsx : valid_name (sbom_name n sx) = true).
    { unfold sbom_name. apply valid_name_app; [exact Vn|rewrite app_length; cbn; lia|].
      rewrite existsb_app. cbn [existsb]. cbn. exact Sx. }
    destruct (layers_ok_child s2 layers (sbom_name n sx) LO2) as [Sx2 PWx].
    destruct (unlink_or_absent s2 (layers ++ [sbom_name n sx]) (valid_path_snoc _ _ Vl Vsx) (snoc_not_nil _ _) Sx2 PWx) as (s3 & E3 & O3).
    { intros m. apply ND2. left. reflexivity. }
    unfold bindM at 1. rewrite E3. apply (IH Ss s3).
    + apply (layers_ok_transfer s2 s3 layers); [|exact LO2]. intros q Hq. apply O3.
      intros E. apply (f_equal (@length _)) in E. rewrite app_length in E. cbn in E. lia.
    + intros sx' m Hin. destruct (list_eq_dec N.eq_dec sx' sx) as [->|NE].
      * destruct (pget (layers ++ [sbom_name n sx]) s2) as [v|] eqn:G.
        -- (* it was just unlinked or stays a non-directory *)
           destruct (list_eq_dec (list_eq_dec N.eq_dec) (layers ++ [sbom_name n sx]) (layers ++ [sbom_name n sx])) as [_|X]; [|congruence].
           intros X. pose proof (ND2 sx m (or_introl eq_refl)) as Y.
           unfold default_on_not_found in E3. rewrite (unlink_ok s2 _ v (valid_path_snoc _ _ Vl Vsx) (snoc_not_nil _ _) Sx2 PWx G) in E3.
           ++ injection E3 as <-. rewrite pget_pdel, path_eqb_refl in X. discriminate.
           ++ intros m0 ->. exact (ND2 sx m0 (or_introl eq_refl) G).
        -- unfold default_on_not_found, unlink in E3. rewrite (resolve_nofollow_ok s2 _ (valid_path_snoc _ _ Vl Vsx) Sx2), G in E3.
           injection E3 as <-. rewrite G. discriminate.
      * rewrite O3; [apply ND2; right; exact Hin|].
        intros E. apply app_inv_head in E. injection E as E. unfold sbom_name in E. apply app_inv_head, app_inv_head in E. congruence.
Qed.

(* ---------- C11, complete: the call succeeds, the layer is gone, nothing else changed ---------- *)
Theorem delete_layer_complete sfxs layers n s :
  valid_path layers -> valid_name n = true -> Forall sfx_ok sfxs ->
  valid_fs s -> parent_closed s -> layers_ok s layers ->
  (pget (layers ++ [n]) s = None \/ (exists m, pget (layers ++ [n]) s = Some (Dir m)) \/ (exists t, pget (layers ++ [n]) s = Some (Link t))) ->
  (forall m, pget (layers ++ [toml_name n]) s <> Some (Dir m)) ->
  (forall sx m, In sx sfxs -> pget (layers ++ [sbom_name n sx]) s <> Some (Dir m)) ->
  exists s', delete_layer true true sfxs layers n s = (s', Ok tt) /\
             (forall r, pget (layers ++ [n] ++ r) s' = None) /\
             (forall q, owned sfxs layers n q = false -> pget q s' = pget q s).
Proof.
  intros Vl Vn Vs Vf PC LO HL NDt NDs.
  destruct (delete_layer_total sfxs layers n s Vl Vn Vs Vf PC LO HL NDt NDs) as (s' & E).
  destruct (layers_ok_child s layers n LO) as [SL PWL].
  pose proof (searchable_real_dirs _ _ SL) as RL.
  pose proof (delete_layer_frame sfxs layers n s s' (Ok tt) Vl Vn Vs Vf RL E) as Frame.
  exists s'. split; [exact E|]. split; [|exact Frame].
  destruct HL as [Hn|Hd].
  - (* there was no such layer: nothing below it before, and nothing below it is outside its ownership... use the frame on each path *)
    intros r. destruct r as [|x r].
    + (* the layer path itself: delete_layer only removes *)
      cbn [List.app].
      destruct (pget (layers ++ [n]) s') eqn:X; [|reflexivity]. exfalso.
      (* keys only shrink: every step is a removal or leaves the state alone *)
      unfold delete_layer in E. unfold bindM at 1 in E.
      destruct (default_on_not_found (remove_dir_recursively true (rdr_fuel s) (layers ++ [n])) s) as [s1 r1] eqn:D1.
      apply default_on_not_found_state in D1 as [r1' D1].
      destruct (rdr_frame true _ _ _ _ _ (valid_path_snoc _ _ Vl Vn) Vf RL (or_introl eq_refl) D1) as [_ K1].
      destruct r1 as [u1|e1]; [|discriminate].
      unfold bindM at 1 in E.
      destruct (default_on_not_found (unlink (layers ++ [toml_name n])) s1) as [s2 r2] eqn:D2.
      apply default_on_not_found_state in D2 as [r2' D2].
      assert (Vt : valid_name (toml_name n) = true) by (apply valid_name_app; [exact Vn|cbn; lia|reflexivity]).
      assert (R1 : real_dirs s1 [] (layers ++ [n])).
      { eapply real_dirs_transfer; [|exact RL].
        apply (proj1 (rdr_frame true _ _ _ _ _ (valid_path_snoc _ _ Vl Vn) Vf RL (or_introl eq_refl) D1)). }
      apply unlink_self_at in D2 as [O2 K2]; [|now apply valid_path_snoc|eapply real_dirs_sibling; eauto].
      destruct r2 as [u2|e2]; [|discriminate].
      assert (N2 : pget (layers ++ [n]) s2 = None).
      { rewrite O2.
        - destruct (pget (layers ++ [n]) s1) eqn:Y; [|reflexivity]. exfalso.
          assert (Z : pget (layers ++ [n]) s1 <> None) by congruence. apply K1 in Z. congruence.
        - intros E0. apply app_inv_head in E0. injection E0 as E0. symmetry in E0. revert E0. apply name_app_neq. discriminate. }
      assert (R2 : real_dirs s2 [] (layers ++ [n])) by (eapply only_at_real_dirs; eauto).
      clear - Vl Vn Vs N2 R2 E X.
      revert s2 N2 R2 E. induction sfxs as [|sx sfxs IH]; intros s2 N2 R2 E; cbn [iterM] in E.
      * unfold ret in E. inversion E; subst. congruence.
      * inversion Vs as [|? ? Sx Ss]; subst. unfold bindM at 1 in E.
        destruct (default_on_not_found (unlink (layers ++ [sbom_name n sx])) s2) as [s3 r3] eqn:D3.
        apply default_on_not_found_state in D3 as [rx D3].
        assert (Vsx : valid_name (sbom_name n sx) = true).
        { unfold sbom_name. apply valid_name_app; [exact Vn|rewrite app_length; cbn; lia|].
          rewrite existsb_app. cbn [existsb]. cbn. exact Sx. }
        apply unlink_self_at in D3 as [O3 K3]; [|now apply valid_path_snoc|eapply real_dirs_sibling; eauto].
        destruct r3 as [u3|e]; [|discriminate].
        apply (IH Ss s3); [|eapply only_at_real_dirs; eauto|exact E].
        rewrite O3; [exact N2|]. intros E0. apply app_inv_head in E0. injection E0 as E0. symmetry in E0. revert E0.
        unfold sbom_name. apply name_app_neq. discriminate.
    + (* strictly below: absent before (parent-closed), and delete_layer creates nothing *)
      destruct (pget (layers ++ [n] ++ x :: r) s') eqn:X; [|reflexivity]. exfalso.
      assert (A0 : pget (layers ++ [n] ++ x :: r) s = None) by (rewrite app_assoc; apply pc_absent_below; assumption).
      (* every state along the way only loses keys *)
      unfold delete_layer in E. unfold bindM at 1 in E.
      destruct (default_on_not_found (remove_dir_recursively true (rdr_fuel s) (layers ++ [n])) s) as [s1 r1] eqn:D1.
      apply default_on_not_found_state in D1 as [r1' D1].
      destruct (rdr_frame true _ _ _ _ _ (valid_path_snoc _ _ Vl Vn) Vf RL (or_introl eq_refl) D1) as [O1 K1].
      destruct r1 as [u1|e1]; [|discriminate].
      unfold bindM at 1 in E.
      destruct (default_on_not_found (unlink (layers ++ [toml_name n])) s1) as [s2 r2] eqn:D2.
      apply default_on_not_found_state in D2 as [r2' D2].
      assert (Vt : valid_name (toml_name n) = true) by (apply valid_name_app; [exact Vn|cbn; lia|reflexivity]).
      assert (R1 : real_dirs s1 [] (layers ++ [n])) by (eapply real_dirs_transfer; eauto).
      apply unlink_self_at in D2 as [O2 K2]; [|now apply valid_path_snoc|eapply real_dirs_sibling; eauto].
      destruct r2 as [u2|e2]; [|discriminate].
      assert (N2 : pget (layers ++ [n] ++ x :: r) s2 = None).
      { rewrite O2.
        - destruct (pget (layers ++ [n] ++ x :: r) s1) eqn:Y; [|reflexivity]. exfalso.
          assert (Z : pget (layers ++ [n] ++ x :: r) s1 <> None) by congruence. apply K1 in Z. congruence.
        - apply sibling_not_below. unfold toml_name. apply name_app_neq. discriminate. }
      assert (R2 : real_dirs s2 [] (layers ++ [n])) by (eapply only_at_real_dirs; eauto).
      clear - Vl Vn Vs N2 R2 E X.
      revert s2 N2 R2 E. induction sfxs as [|sx sfxs IH]; intros s2 N2 R2 E; cbn [iterM] in E.
      * unfold ret in E. inversion E; subst. congruence.
      * inversion Vs as [|? ? Sx Ss]; subst. unfold bindM at 1 in E.
        destruct (default_on_not_found (unlink (layers ++ [sbom_name n sx])) s2) as [s3 r3] eqn:D3.
        apply default_on_not_found_state in D3 as [rx D3].
        assert (Vsx : valid_name (sbom_name n sx) = true).
        { unfold sbom_name. apply valid_name_app; [exact Vn|rewrite app_length; cbn; lia|].
          rewrite existsb_app. cbn [existsb]. cbn. exact Sx. }
        apply unlink_self_at in D3 as [O3 K3]; [|now apply valid_path_snoc|eapply real_dirs_sibling; eauto].
        destruct r3 as [u3|e]; [|discriminate].
        apply (IH Ss s3); [|eapply only_at_real_dirs; eauto|exact E].
        rewrite O3; [exact N2|]. apply sibling_not_below. unfold sbom_name. apply name_app_neq. discriminate.
  - (* a directory or a symlink: remove_dir_recursively succeeds, and what it removes stays removed *)
    destruct (rdr_total (rdr_fuel s) (layers ++ [n]) s (valid_path_snoc _ _ Vl Vn) (snoc_not_nil _ _) Vf PC SL PWL Hd
                (rdr_fuel_enough s _ PC)) as (s1 & E1).
    exact (delete_layer_tree_gone sfxs layers n s s1 s' Vl Vn Vs Vf RL PC E1 E).
Qed.
