(* LayerEnvFSFacts.v -- pure facts about the on-disk layout of layer environments (C03, C10). *)
From LV Require Import Base FS LayerEnv LayerEnvFacts LayerShared LayerEnvFS.

(* ---------- Path::file_stem / extension ---------- *)
Lemma split_last_dot_app nm sx : ~ In 46 sx ->
  split_last_dot (nm ++ 46 :: sx) = Some (nm, sx).
Proof.
  intros N. induction nm as [|c nm IH]; cbn [app split_last_dot].
  - assert (H : split_last_dot sx = None).
    { clear -N. induction sx as [|x sx IH]; [reflexivity|]. cbn [split_last_dot].
      rewrite IH by (intro I; apply N; now right).
      destruct (N.eqb_spec x 46) as [->|?]; [exfalso; apply N; now left|reflexivity]. }
    rewrite H. now rewrite N.eqb_refl.
  - now rewrite IH.
Qed.

(* for every variable name (non-empty; any bytes, dots included) and every suffix without a dot
   the file name NAME.suffix splits back into exactly (NAME, suffix) *)
Theorem split_suffix nm sx : nm <> [] -> sx <> [] -> ~ In 46 sx ->
  split_ext (nm ++ 46 :: sx) = (nm, Some sx).
Proof.
  intros NE SE N. unfold split_ext.
  assert (D : beq (nm ++ 46 :: sx) dotdot = false).
  { apply beq_neq. unfold dotdot. intros E.
    destruct nm as [|a nm]; [congruence|]. destruct nm as [|b nm]; cbn in E.
    - injection E as -> E. destruct sx; [congruence|discriminate].
    - injection E as -> -> E. destruct nm; discriminate. }
  rewrite D, split_last_dot_app by exact N. destruct nm; [congruence|reflexivity].
Qed.

Definition suffix_ok (sx : bytes) : Prop := sx <> [] /\ ~ In 46 sx.

(* a writer table [(b, "." ++ sx)] and a reader table [(sx, b)] are inverse on behaviours *)
Definition tables_inverse (w : writer_table) (r : reader_table) : Prop :=
  forall b, exists sx, writer_suffix_of w b = 46 :: sx /\ suffix_ok sx /\ reader_beh_of r sx = Some b.

Lemma spec_tables_inverse : tables_inverse spec_writer_table spec_reader_table.
Proof.
  intros b. destruct b; eexists; (split; [reflexivity|]); (split; [|reflexivity]); split; try discriminate;
    cbn; intuition discriminate.
Qed.

Theorem entry_roundtrip w r ne b nm : tables_inverse w r -> nm <> [] ->
  entry_behaviour r ne (nm ++ writer_suffix_of w b) = (nm, Some b).
Proof.
  intros T NE. destruct (T b) as (sx & -> & [S1 S2] & R). unfold entry_behaviour.
  rewrite split_suffix by assumption. now rewrite R.
Qed.

(* ---------- a sorted map is rebuilt by inserting its own entries ---------- *)
Lemma bget_fold_bset {V} (m acc : bmap V) k : bsorted m ->
  bget k (fold_left (fun a kv => bset (fst kv) (snd kv) a) m acc) =
  match bget k m with Some v => Some v | None => bget k acc end.
Proof.
  revert acc. induction m as [|[k' v'] m IH]; intros acc S; cbn [fold_left bget fst snd]; [reflexivity|].
  destruct S as [A S]. rewrite (IH _ S). destruct (beq k k') eqn:E.
  - apply beq_spec in E. subst k'. rewrite (bget_above k m A). apply bget_set_same.
  - apply beq_neq in E. rewrite bget_set_other by exact E. reflexivity.
Qed.

Lemma fold_bset_id {V} (m : bmap V) : bsorted m ->
  fold_left (fun a kv => bset (fst kv) (snd kv) a) m [] = m.
Proof.
  intros S. apply bmap_ext; [apply fold_bset_sorted; exact I|exact S|].
  intros k. rewrite bget_fold_bset by exact S. destruct (bget k m); reflexivity.
Qed.

(* ---------- reading back the files a delta is written as ---------- *)
Section Roundtrip.
  Variable w : writer_table.
  Variable r : reader_table.
  Variable ne : option beh.
  Hypothesis T : tables_inverse w r.

  Definition parse_files (l : list (name * bytes)) (d0 : delta) : delta :=
    fold_left (fun d f => let '(stem, ob) := entry_behaviour r ne (fst f) in
                          match ob with Some b => dinsert b stem (snd f) d | None => d end) l d0.

  Definition names_nonempty (m : bmap bytes) : Prop := forall k v, In (k, v) m -> k <> [].

  Lemma parse_phase b (m : bmap bytes) d0 : names_nonempty m ->
    parse_files (map (fun kv => (fst kv ++ writer_suffix_of w b, snd kv)) m) d0 =
    fold_left (fun d kv => dinsert b (fst kv) (snd kv) d) m d0.
  Proof.
    unfold parse_files. revert d0. induction m as [|[k v] m IH]; intros d0 NE; cbn [map fold_left fst snd]; [reflexivity|].
    rewrite entry_roundtrip; [|exact T|apply (NE k v); now left].
    apply IH. intros k' v' I. apply (NE k' v'). now right.
  Qed.

  Lemma parse_files_app l1 l2 d0 : parse_files (l1 ++ l2) d0 = parse_files l2 (parse_files l1 d0).
  Proof. unfold parse_files. apply fold_left_app. Qed.

  Definition delta_names_nonempty (d : delta) : Prop :=
    names_nonempty (d_append d) /\ names_nonempty (d_default d) /\ names_nonempty (d_delim d) /\
    names_nonempty (d_override d) /\ names_nonempty (d_prepend d).

  Lemma fold_dinsert_field b (m : bmap bytes) d0 :
    fold_left (fun d kv => dinsert b (fst kv) (snd kv) d) m d0 =
    match b with
    | Append => mkDelta (fold_left (fun a kv => bset (fst kv) (snd kv) a) m (d_append d0)) (d_default d0) (d_delim d0) (d_override d0) (d_prepend d0)
    | Default => mkDelta (d_append d0) (fold_left (fun a kv => bset (fst kv) (snd kv) a) m (d_default d0)) (d_delim d0) (d_override d0) (d_prepend d0)
    | Delim => mkDelta (d_append d0) (d_default d0) (fold_left (fun a kv => bset (fst kv) (snd kv) a) m (d_delim d0)) (d_override d0) (d_prepend d0)
    | Override => mkDelta (d_append d0) (d_default d0) (d_delim d0) (fold_left (fun a kv => bset (fst kv) (snd kv) a) m (d_override d0)) (d_prepend d0)
    | Prepend => mkDelta (d_append d0) (d_default d0) (d_delim d0) (d_override d0) (fold_left (fun a kv => bset (fst kv) (snd kv) a) m (d_prepend d0))
    end.
  Proof.
    revert d0. induction m as [|[k v] m IH]; intros d0; cbn [fold_left fst snd].
    - destruct b, d0; reflexivity.
    - rewrite IH. destruct b; reflexivity.
  Qed.

  (* the files written for a delta read back as exactly that delta *)
  Theorem layout_roundtrip d : delta_wf d -> delta_names_nonempty d ->
    parse_files (delta_files spec_beh_order w d) delta_empty = d.
  Proof.
    intros (S1 & S2 & S3 & S4 & S5) (N1 & N2 & N3 & N4 & N5).
    unfold delta_files, spec_beh_order. cbn [flat_map dget]. rewrite app_nil_r.
    rewrite !parse_files_app, !parse_phase by assumption.
    rewrite !fold_dinsert_field. cbn [d_append d_default d_delim d_override d_prepend delta_empty].
    rewrite !fold_bset_id by assumption. destruct d; reflexivity.
  Qed.
End Roundtrip.

(* ---------- implicit layer paths are never written ---------- *)
Definition clear_paths (e : layer_env) : layer_env :=
  mkLE (le_all e) (le_build e) (le_launch e) (le_process e) delta_empty delta_empty.

Theorem never_persisted order wtab e dir s :
  write_to_layer_dir order wtab e dir s = write_to_layer_dir order wtab (clear_paths e) dir s.
Proof. reflexivity. Qed.

(* ---------- the implicit entries, row by row ---------- *)
(* with pairwise distinct (variable, scope) rows the loop's result at one row is decided by that
   row's directory test alone *)
Fixpoint rows_nodup (rows : list (bytes * scope_kind * bytes)) : bool :=
  match rows with
  | [] => true
  | (v, k, _) :: rs => negb (existsb (fun r => let '(v', k', _) := r in beq v v' && kind_eqb k k') rs) && rows_nodup rs
  end.

Definition paths_delta (k : scope_kind) (e : layer_env) : delta :=
  match k with KBuild => le_paths_build e | KLaunch => le_paths_launch e | _ => delta_empty end.

Lemma set_paths_other k k' f e : kind_eqb k k' = false -> paths_delta k' (set_paths k f e) = paths_delta k' e.
Proof. destruct k, k'; cbn; intros H; try reflexivity; discriminate. Qed.

Lemma set_paths_same k f e : (k = KBuild \/ k = KLaunch) -> paths_delta k (set_paths k f e) = f (paths_delta k e).
Proof. intros [->| ->]; reflexivity. Qed.

Lemma set_paths_explicit k f e :
  le_all (set_paths k f e) = le_all e /\ le_build (set_paths k f e) = le_build e /\
  le_launch (set_paths k f e) = le_launch e /\ le_process (set_paths k f e) = le_process e.
Proof. destruct k; cbn; auto. Qed.

Section ImplicitPaths.
  Variable sep : bytes.
  Variable dir : path.
  Variable s : fs.

  Definition row_step (e : layer_env) (row : bytes * scope_kind * bytes) : layer_env :=
    let '(var, k, sub) := row in
    if is_dir (dir ++ [sub]) s
    then set_paths k (fun d => dinsert Delim var sep (dinsert Prepend var (render (dir ++ [sub])) d)) e
    else e.

  Lemma read_layer_paths_fold rows : read_layer_paths rows sep dir s = fold_left row_step rows le_empty.
  Proof. reflexivity. Qed.

  Fixpoint find_row (var : bytes) (k : scope_kind) (rows : list (bytes * scope_kind * bytes)) : option bytes :=
    match rows with
    | [] => None
    | (v, k', sub) :: rs => if beq var v && kind_eqb k k' then Some sub else find_row var k rs
    end.

  Definition rows_kinds_ok (rows : list (bytes * scope_kind * bytes)) : Prop :=
    forall v k sub, In (v, k, sub) rows -> k = KBuild \/ k = KLaunch.

  Lemma kind_eqb_spec a b : kind_eqb a b = true <-> a = b.
  Proof. destruct a, b; cbn; split; intro H; try reflexivity; discriminate. Qed.
  Lemma kind_eqb_sym a b : kind_eqb a b = kind_eqb b a.
  Proof. destruct a, b; reflexivity. Qed.

  Lemma find_row_none_nodup var k rows :
    existsb (fun r => let '(v', k', _) := r in beq var v' && kind_eqb k k') rows = false -> find_row var k rows = None.
  Proof.
    induction rows as [|[[v k'] sub] rs IH]; cbn [existsb find_row]; [reflexivity|].
    intros H. apply orb_false_iff in H as [H1 H2]. rewrite H1. now apply IH.
  Qed.

  (* projections of the two inserts *)
  Lemma prepend_of_inserts var x d :
    d_prepend (dinsert Delim var sep (dinsert Prepend var x d)) = bset var x (d_prepend d).
  Proof. reflexivity. Qed.
  Lemma delim_of_inserts var x d :
    d_delim (dinsert Delim var sep (dinsert Prepend var x d)) = bset var sep (d_delim d).
  Proof. reflexivity. Qed.

  (* what the layer_path_specs loop leaves for one (variable, scope) *)
  Lemma rows_prepend var k rows : rows_nodup rows = true -> rows_kinds_ok rows -> forall e0,
    bget var (d_prepend (paths_delta k (fold_left row_step rows e0))) =
    match find_row var k rows with
    | Some sub => if is_dir (dir ++ [sub]) s then Some (render (dir ++ [sub]))
                  else bget var (d_prepend (paths_delta k e0))
    | None => bget var (d_prepend (paths_delta k e0))
    end.
  Proof.
    induction rows as [|[[v k'] sub] rs IH]; intros ND KO e0; cbn [fold_left find_row]; [reflexivity|].
    cbn [rows_nodup] in ND. apply andb_true_iff in ND as [ND1 ND2]. apply negb_true_iff in ND1.
    assert (KO' : rows_kinds_ok rs) by (intros a b c I; eapply KO; right; exact I).
    rewrite (IH ND2 KO'). clear IH.
    destruct (beq var v && kind_eqb k k') eqn:E.
    - apply andb_true_iff in E as [E1 E2]. apply beq_spec in E1. apply kind_eqb_spec in E2. subst v k'.
      rewrite (find_row_none_nodup var k rs ND1). unfold row_step.
      destruct (is_dir (dir ++ [sub]) s); [|reflexivity].
      rewrite set_paths_same by (eapply KO; left; reflexivity).
      rewrite prepend_of_inserts. apply bget_set_same.
    - assert (U : bget var (d_prepend (paths_delta k (row_step e0 (v, k', sub)))) = bget var (d_prepend (paths_delta k e0))).
      { unfold row_step. destruct (is_dir (dir ++ [sub]) s); [|reflexivity].
        destruct (kind_eqb k' k) eqn:EK.
        - apply kind_eqb_spec in EK. subst k'. rewrite set_paths_same by (eapply KO; left; reflexivity).
          rewrite prepend_of_inserts. apply bget_set_other.
          rewrite (proj2 (kind_eqb_spec k k) eq_refl), andb_true_r in E. now apply beq_neq.
        - now rewrite set_paths_other. }
      destruct (find_row var k rs) as [sub'|]; [destruct (is_dir (dir ++ [sub']) s)|]; try reflexivity; exact U.
  Qed.

  Lemma rows_delim var k rows : rows_nodup rows = true -> rows_kinds_ok rows -> forall e0,
    bget var (d_delim (paths_delta k (fold_left row_step rows e0))) =
    match find_row var k rows with
    | Some sub => if is_dir (dir ++ [sub]) s then Some sep else bget var (d_delim (paths_delta k e0))
    | None => bget var (d_delim (paths_delta k e0))
    end.
  Proof.
    induction rows as [|[[v k'] sub] rs IH]; intros ND KO e0; cbn [fold_left find_row]; [reflexivity|].
    cbn [rows_nodup] in ND. apply andb_true_iff in ND as [ND1 ND2]. apply negb_true_iff in ND1.
    assert (KO' : rows_kinds_ok rs) by (intros a b c I; eapply KO; right; exact I).
    rewrite (IH ND2 KO'). clear IH.
    destruct (beq var v && kind_eqb k k') eqn:E.
    - apply andb_true_iff in E as [E1 E2]. apply beq_spec in E1. apply kind_eqb_spec in E2. subst v k'.
      rewrite (find_row_none_nodup var k rs ND1). unfold row_step.
      destruct (is_dir (dir ++ [sub]) s); [|reflexivity].
      rewrite set_paths_same by (eapply KO; left; reflexivity).
      rewrite delim_of_inserts. apply bget_set_same.
    - assert (U : bget var (d_delim (paths_delta k (row_step e0 (v, k', sub)))) = bget var (d_delim (paths_delta k e0))).
      { unfold row_step. destruct (is_dir (dir ++ [sub]) s); [|reflexivity].
        destruct (kind_eqb k' k) eqn:EK.
        - apply kind_eqb_spec in EK. subst k'. rewrite set_paths_same by (eapply KO; left; reflexivity).
          rewrite delim_of_inserts. apply bget_set_other.
          rewrite (proj2 (kind_eqb_spec k k) eq_refl), andb_true_r in E. now apply beq_neq.
        - now rewrite set_paths_other. }
      destruct (find_row var k rs) as [sub'|]; [destruct (is_dir (dir ++ [sub']) s)|]; try reflexivity; exact U.
  Qed.

  (* the loop inserts nothing but prepend and delimiter entries, and nothing explicit *)
  Lemma rows_only_prepend_delim rows : forall e0 k,
    d_append (paths_delta k e0) = [] -> d_default (paths_delta k e0) = [] -> d_override (paths_delta k e0) = [] ->
    let e := fold_left row_step rows e0 in
    d_append (paths_delta k e) = [] /\ d_default (paths_delta k e) = [] /\ d_override (paths_delta k e) = [].
  Proof.
    induction rows as [|[[v k'] sub] rs IH]; intros e0 k A D O; cbn [fold_left]; [auto|].
    apply IH; unfold row_step; destruct (is_dir (dir ++ [sub]) s); try assumption;
      destruct k, k'; cbn; assumption.
  Qed.

  Lemma rows_wf rows : forall e0, le_wf e0 -> le_wf (fold_left row_step rows e0).
  Proof.
    induction rows as [|[[v k'] sub] rs IH]; intros e0 W; cbn [fold_left]; [exact W|].
    apply IH. unfold row_step. destruct (is_dir (dir ++ [sub]) s); [|exact W].
    destruct W as (W1 & W2 & W3 & W4 & W5 & W6 & W7).
    destruct k'; cbn [set_paths]; unfold le_wf; cbn [le_all le_build le_launch le_process le_paths_build le_paths_launch];
      repeat (split; [assumption|]); try assumption;
      try (split; [repeat apply dinsert_wf; assumption|assumption]);
      try (repeat apply dinsert_wf; assumption).
  Qed.
End ImplicitPaths.

(* Reading a layer's paths: for every file system, layer directory and (variable, scope) the
   implicit entry is present -- as a prepend of <layer>/<sub> with the separator as delimiter --
   exactly when the row exists and <layer>/<sub> is a directory (following symlinks). *)
Theorem implicit_entries rows sep dir s var k :
  rows_nodup rows = true -> rows_kinds_ok rows ->
  let e := read_layer_paths rows sep dir s in
  bget var (d_prepend (paths_delta k e)) =
    match find_row var k rows with
    | Some sub => if is_dir (dir ++ [sub]) s then Some (render (dir ++ [sub])) else None
    | None => None
    end /\
  bget var (d_delim (paths_delta k e)) =
    match find_row var k rows with
    | Some sub => if is_dir (dir ++ [sub]) s then Some sep else None
    | None => None
    end /\
  d_append (paths_delta k e) = [] /\ d_default (paths_delta k e) = [] /\ d_override (paths_delta k e) = [].
Proof.
  intros ND KO e. unfold e. rewrite read_layer_paths_fold.
  rewrite (rows_prepend sep dir s var k rows ND KO), (rows_delim sep dir s var k rows ND KO).
  split; [destruct k; reflexivity|]. split; [destruct k; reflexivity|].
  apply rows_only_prepend_delim; destruct k; reflexivity.
Qed.

Lemma spec_rows_ok : rows_nodup spec_layer_paths = true /\ rows_kinds_ok spec_layer_paths.
Proof.
  split; [reflexivity|]. intros v k sub I. cbn in I.
  repeat (destruct I as [I|I]; [injection I as <- <- <-; auto|]). destruct I.
Qed.

(* the effect on a variable when the paths delta is applied last (as LayerEnv::apply does for
   build and launch): prepend <layer>/<sub>, joined with the separator iff the value so far is
   non-empty *)
Theorem implicit_var_spec rows sep dir s var k v0 :
  rows_nodup rows = true -> rows_kinds_ok rows ->
  var_spec (paths_delta k (read_layer_paths rows sep dir s)) var v0 =
  match find_row var k rows with
  | Some sub => if is_dir (dir ++ [sub]) s then Some (join_prepend v0 sep (render (dir ++ [sub]))) else v0
  | None => v0
  end.
Proof.
  intros ND KO. destruct (implicit_entries rows sep dir s var k ND KO) as (P & D & A & F & O).
  unfold var_spec, delimiter_for. rewrite P, D, A, F, O. cbn [bget].
  destruct (find_row var k rows) as [sub|]; [|reflexivity].
  destruct (is_dir (dir ++ [sub]) s); reflexivity.
Qed.
